#!/usr/bin/env python3
"""Run the checks against independently written behaviour-preserving changes.

usage: benign_eval.py <worktree> [--all-props] [--keep NAME]
For each <worktree>/seed/benign<k>.diff: apply to a scratch copy of /repo/src, run the property's check (or all),
print every non-zero exit.  With --keep NAME the diffs + notes are copied to /verif/seeded_benign/NAME/ with the verdicts."""
import json
import os
import shutil
import subprocess
import sys
import tempfile

VERIF = os.path.dirname(os.path.dirname(os.path.abspath(__file__)))
PY = "/venv/bin/python"


def main():
    wt = sys.argv[1]
    all_props = "--all-props" in sys.argv
    keep = sys.argv[sys.argv.index("--keep") + 1] if "--keep" in sys.argv else None
    seed = os.path.join(wt, "seed")
    prop = json.load(open(os.path.join(seed, "property.json")))["id"]
    props = [f"C{i:02d}" for i in range(1, 21)] if all_props else [prop]
    res = {}
    for k in range(1, 9):
        diff = os.path.join(seed, f"benign{k}.diff")
        if not os.path.exists(diff):
            continue
        tmp = tempfile.mkdtemp(prefix="benchk_")
        try:
            shutil.copytree("/repo/src", os.path.join(tmp, "src"))
            r = subprocess.run(["patch", "-p1", "-s", "-d", tmp, "-i", diff], capture_output=True, text=True)
            if r.returncode != 0:
                res[f"benign{k}"] = {"patch": "does not apply"}
                print(f"benign{k}: patch does not apply: {(r.stdout + r.stderr)[:200]}")
                continue
            out = {}
            for p in props:
                r = subprocess.run([PY, "check.py", p, "--no-evidence", "--src", os.path.join(tmp, "src")], cwd=VERIF, capture_output=True, text=True)
                if r.returncode != 0:
                    lines = [l.strip()[:700] for l in r.stdout.splitlines() if l.startswith("  ") or l.startswith("ANALYSIS")]
                    out[p] = {"exit": r.returncode, "lines": lines[:6]}
            res[f"benign{k}"] = out
            if out:
                for p, v in out.items():
                    print(f"benign{k}: {p} exit {v['exit']}")
                    for l in v["lines"][:4]:
                        print("     ", l[:500])
            else:
                print(f"benign{k}: silent ({', '.join(props) if len(props) < 4 else 'all 20'})")
        finally:
            shutil.rmtree(tmp, ignore_errors=True)
    if keep:
        dst = os.path.join(VERIF, "seeded_benign", keep)
        os.makedirs(dst, exist_ok=True)
        for f in os.listdir(seed):
            if f.startswith("benign") or f == "summary.json":
                shutil.copy(os.path.join(seed, f), os.path.join(dst, f))
        json.dump({"property": prop, "checks_run": props, "verdicts": res}, open(os.path.join(dst, "verdicts.json"), "w"), indent=1)


if __name__ == "__main__":
    main()
