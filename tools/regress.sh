#!/bin/bash
# Full regression of the machinery (not a registered check): clean tree, seeded violations, self-tests, benign corpus.
cd "$(dirname "$0")/.."
out=${1:-/tmp/scratch/regress}
mkdir -p "$out"
( for i in $(seq -w 1 20); do /venv/bin/python check.py C$i --no-evidence 2>&1 | grep -v "conda\|KNOWN"; done ) > "$out/clean.txt" 2>&1 &
python3 tools/seed_recheck.py > "$out/seeds.txt" 2>&1 &
wait
( for i in $(seq -w 1 20); do /venv/bin/python check.py C$i --no-evidence --tier thorough 2>&1 | grep -v "conda\|KNOWN"; done ) > "$out/thorough.txt" 2>&1
python3 tools/benign_recheck.py > "$out/benign.txt" 2>&1
echo "== clean (non-OK)";   grep -v "^OK" "$out/clean.txt" | cut -c1-300
echo "== seeds (not reported)"; grep -v "REPORTED\|conda" "$out/seeds.txt"
echo "== thorough (non-OK)"; grep -v "^OK" "$out/thorough.txt" | cut -c1-400
echo "== benign"; tail -1 "$out/benign.txt"
