#!/bin/bash
# Full regression of the machinery (not a registered check): clean tree, seeded violations, self-tests, benign corpus.
cd "$(dirname "$0")/.."
out=${1:-/tmp/scratch/regress}
mkdir -p "$out"
( for i in $(seq -w 1 20); do /venv/bin/python check.py C$i --no-evidence 2>&1 | grep -v "conda\|KNOWN"; done ) > "$out/clean.txt" 2>&1 &
python3 tools/seed_recheck.py > "$out/seeds.txt" 2>&1 &
wait
( for i in $(seq -w 1 20); do /venv/bin/python check.py C$i --no-evidence --tier thorough 2>&1 | grep -v "conda\|KNOWN"; done ) > "$out/thorough.txt" 2>&1
python3 tools/benign_recheck.py > "$out/benign.txt" 2>&1
echo "== clean (non-OK)";   grep -v "^OK" "$out/clean.txt" | cut -c1-300
echo "== seeds (not reported)"; grep -v "REPORTED\|conda" "$out/seeds.txt"
echo "== thorough (non-OK)"; grep -v "^OK" "$out/thorough.txt" | cut -c1-400
echo "== benign"; tail -1 "$out/benign.txt"
echo "== self-test catalogue entries whose anchor no longer occurs exactly once on the unchanged tree"
/venv/bin/python - <<'PY'
import sys; sys.path.insert(0, ".")
from sa import mutants
n = 0
for m in mutants.CATALOGUE:
    for rel, old, new in m["edits"]:
        if open("/repo/src/" + rel).read().count(old) != 1:
            n += 1
            print("STALE", m["prop"], m["name"])
print(len(mutants.CATALOGUE), "entries,", n, "stale")
PY

