#!/usr/bin/env python3
"""Re-run the checks against every kept seeded change (patch applied to a scratch copy of /repo/src).

usage: seed_recheck.py [--all-props] [names...]
Without --all-props only the seed's own property check is run (plus any check named in meta 'checks_reporting').
Prints one line per seed: which checks exit 1 / 2.  Exit 1 if some seed is reported by no check."""
import json
import os
import shutil
import subprocess
import sys
import tempfile
from concurrent.futures import ThreadPoolExecutor

VERIF = os.path.dirname(os.path.dirname(os.path.abspath(__file__)))
PY = "/venv/bin/python"


def run(name, all_props):
    d = os.path.join(VERIF, "seeded", name)
    tmp = tempfile.mkdtemp(prefix="seedchk_")
    try:
        shutil.copytree("/repo/src", os.path.join(tmp, "src"))
        r = subprocess.run(["patch", "-p1", "-s", "-d", tmp, "-i", os.path.join(d, "patch.diff")], capture_output=True, text=True)
        if r.returncode != 0:
            return name, {"patch": "does not apply: " + (r.stdout + r.stderr)[:200]}
        meta = json.load(open(os.path.join(d, "meta.json")))
        prop = meta.get("property") or name.split("-")[0]
        props = [f"C{i:02d}" for i in range(1, 21)] if all_props else sorted({prop} | set((meta.get("confirmed_by_me") or {}).get("checks_reporting", {}).keys()))
        out = {}
        for p in props:
            r = subprocess.run([PY, "check.py", p, "--no-evidence", "--src", os.path.join(tmp, "src")], cwd=VERIF, capture_output=True, text=True)
            if r.returncode != 0:
                rules = sorted({l.split("rule ")[1].split(" ")[0] for l in r.stdout.splitlines() if l.startswith("  ") and "rule " in l})
                out[p] = (r.returncode, rules or [l for l in r.stdout.splitlines() if l.startswith("ANALYSIS")][:1])
        return name, out
    finally:
        shutil.rmtree(tmp, ignore_errors=True)


def main():
    args = [a for a in sys.argv[1:] if not a.startswith("--")]
    all_props = "--all-props" in sys.argv
    names = args or sorted(os.listdir(os.path.join(VERIF, "seeded")))
    bad = 0
    with ThreadPoolExecutor(max_workers=12) as ex:
        for name, out in ex.map(lambda n: run(n, all_props), names):
            hit = {p: v for p, v in out.items() if p != "patch" and v[0] == 1}
            und = {p: v for p, v in out.items() if p != "patch" and v[0] == 2}
            status = "REPORTED" if hit else ("UNDECIDED" if und else "MISSED")
            if not hit:
                bad += 1
            print(f"{name}: {status} " + " ".join(f"{p}{v[1]}" for p, v in sorted(hit.items())) + (" | exit2: " + " ".join(f"{p}{v[1]}" for p, v in sorted(und.items())) if und else "") + (" | " + out["patch"] if "patch" in out else ""))
    return 1 if bad else 0


if __name__ == "__main__":
    sys.exit(main())
