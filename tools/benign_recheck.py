#!/usr/bin/env python3
"""Run each property's check against every kept behaviour-preserving change (seeded_benign/<prop>/benign<k>.diff).

usage: benign_recheck.py [--all-props] [PROP ...]      one line per change: silent / exit 1 (false alarm) / exit 2 (undecided)"""
import os
import shutil
import subprocess
import sys
import tempfile
from concurrent.futures import ThreadPoolExecutor

VERIF = os.path.dirname(os.path.dirname(os.path.abspath(__file__)))
PY = "/venv/bin/python"


def run(job):
    prop, diff, all_props = job
    tmp = tempfile.mkdtemp(prefix="benchk_")
    try:
        shutil.copytree("/repo/src", os.path.join(tmp, "src"))
        r = subprocess.run(["patch", "-p1", "-s", "-d", tmp, "-i", diff], capture_output=True, text=True)
        if r.returncode != 0:
            return prop, diff, {"patch": (3, ["does not apply"])}
        out = {}
        for p in ([f"C{i:02d}" for i in range(1, 21)] if all_props else [prop]):
            r = subprocess.run([PY, "check.py", p, "--no-evidence", "--src", os.path.join(tmp, "src")], cwd=VERIF, capture_output=True, text=True)
            if r.returncode != 0:
                lines = [l.strip() for l in r.stdout.splitlines() if l.startswith("  ") or l.startswith("ANALYSIS")]
                out[p] = (r.returncode, lines[:3])
        return prop, diff, out
    finally:
        shutil.rmtree(tmp, ignore_errors=True)


def main():
    args = [a for a in sys.argv[1:] if not a.startswith("--")]
    all_props = "--all-props" in sys.argv
    verbose = "-v" in sys.argv or "--verbose" in sys.argv
    root = os.path.join(VERIF, "seeded_benign")
    jobs = []
    for prop in sorted(os.listdir(root)):
        if args and prop not in args:
            continue
        for f in sorted(os.listdir(os.path.join(root, prop))):
            if f.endswith(".diff"):
                jobs.append((prop, os.path.join(root, prop, f), all_props))
    tally = {"silent": 0, "exit1": 0, "exit2": 0}
    with ThreadPoolExecutor(max_workers=14) as ex:
        for prop, diff, out in ex.map(run, jobs):
            name = f"{prop}/{os.path.basename(diff)[:-5]}"
            if not out:
                tally["silent"] += 1
                print(f"{name}: silent")
                continue
            worst = 1 if any(v[0] == 1 for v in out.values()) else 2
            tally["exit1" if worst == 1 else "exit2"] += 1
            for p, (rc, lines) in sorted(out.items()):
                print(f"{name}: {p} exit {rc}" + (f"  {lines[0][:260]}" if lines else ""))
                if verbose:
                    for l in lines[1:]:
                        print("        ", l[:260])
    print(tally)


if __name__ == "__main__":
    main()
