#!/usr/bin/env python3
"""Prepare one scratch worktree per property for a round of independently written behaviour-preserving changes.

usage: benign_setup.py <round-tag> [PROP ...]

Creates /tmp/wt/<Cnn>-<tag> (a detached worktree of /repo's HEAD) with seed/property.json (the property's own record,
nothing else from /verif) and seed/TASK.md.  The author writes seed/benign1..3.diff|.md; they are copied into
/verif/seeded_benign/<Cnn>/ under the next free numbers by tools/benign_collect (see DESIGN §8.9) and the worktree is
removed with `git -C /repo worktree remove --force <dir>`."""
import json
import os
import subprocess
import sys

VERIF = os.path.dirname(os.path.dirname(os.path.abspath(__file__)))

TASK = """# Task: write three realistic, BEHAVIOUR-PRESERVING changes to this repository

You are working in a scratch git worktree of the Python package chuk-mcp at `{wt}` (a checkout of the project's
current HEAD). Work ONLY inside `{wt}`. Never read or write anything under `/repo` or `/verif` (they are off limits
for this task), and do not create other worktrees.

A semantic property of the package (full text, with the files it is anchored in) is in `{wt}/seed/property.json`.
Read it first, then read the anchored source files. The property HOLDS on the current tree, and it must STILL HOLD after
each of your changes: for every input, schedule, fault and history the observable behaviour the property talks about
must be exactly what it is today.

## What to produce

Three independent changes (each applies on its own to the clean tree), each of ordinary pull-request size (20-150
changed lines), each touching the code the property is anchored in (the mechanism itself, not only comments), of three
DIFFERENT kinds chosen from:

- extract a helper function / method / small class, or inline one; split a long function;
- move code or constants to another (possibly new) module, with imports / re-exports adjusted;
- rename functions, parameters, locals, attributes consistently;
- replace idioms by equivalent ones (early return <-> nested if, guard clauses, comprehension <-> loop, `x or d` <->
  `if x is None`, f-string <-> format, `in` <-> `.get`, try/except <-> look-before-you-leap where truly equivalent,
  dict display <-> step-by-step construction, conditional expression <-> if/else, a flag variable for a condition);
- restructure control flow without changing behaviour (merge / split handlers, loop forms, a work list instead of
  recursion, a table instead of an if-chain);
- add an unrelated-but-nearby feature that does not affect the property (an optional parameter whose default keeps
  today's behaviour, extra logging / counters / debug hooks that cannot raise, a new method nobody calls yet);
- performance tweaks that are genuinely equivalent (hoisting, caching of immutable values keyed by everything they
  depend on, avoiding a copy).

Be ambitious about the *shape* (a reader who matched today's code textually should no longer recognise it) and strict
about the *behaviour*. Things that look harmless but are NOT behaviour-preserving must be avoided: truthiness instead of
`is None` for values that may be 0 / "" / [] / {{}}, changing which exceptions can escape, changing the order of
observable effects (writes, sends, awaits/checkpoints), shared mutable defaults, module-level state, changed timing
bounds, `splitlines()` for `split("\\n")`, changed codecs, swallowing cancellation.

For each change k = 1, 2, 3:

1. start from the clean tree (`git checkout -- src && git clean -fdq src`), make the change under `{wt}/src/chuk_mcp/`
   (NOT the tests);
2. run the unedited suite: `cd {wt} && /venv/bin/python -m pytest -q -p no:cacheprovider --timeout=900 -x 2>&1 | tail -3`
   (about 2 minutes; expected `1273 passed`, a few skipped);
3. convince yourself the property still holds: write down, clause by clause, why — and where it is cheap, run a small
   differential experiment (old vs new on a few hundred inputs / chunkings / schedules) with your own throw-away script;
4. save `git diff -- src > {wt}/seed/benign<k>.diff` (`git add -N` new files first so they appear in the diff) and a
   short `{wt}/seed/benign<k>.md`: kind of change, what changed, why behaviour is unchanged clause by clause, suite result.

Finish with the tree clean again (`git checkout -- src && git clean -fdq src`). Do not edit anything under tests/. Do not
commit. Your final answer: one line per change (kind, files, suite result).
"""


def main():
    tag = sys.argv[1]
    props = sys.argv[2:] or [f"C{i:02d}" for i in range(1, 21)]
    records = {}
    for line in open(os.path.join(VERIF, "properties.jsonl")):
        line = line.strip()
        if line:
            r = json.loads(line)
            records[r.get("id")] = r
    for prop in props:
        wt = f"/tmp/wt/{prop}-{tag}"
        if not os.path.isdir(wt):
            subprocess.run(["git", "-C", "/repo", "worktree", "add", "--detach", wt, "HEAD"], check=True, capture_output=True)
        os.makedirs(os.path.join(wt, "seed"), exist_ok=True)
        with open(os.path.join(wt, "seed", "property.json"), "w") as f:
            json.dump(records[prop], f, indent=1)
        with open(os.path.join(wt, "seed", "TASK.md"), "w") as f:
            f.write(TASK.format(wt=wt, prop=prop))
        print("ready", wt)


if __name__ == "__main__":
    main()
