#!/venv/bin/python
"""Regenerate sa/units_snapshot.json: the qualified names of every function and class of the reference tree (/repo as
confirmed).  Run after a `fix:` commit in /repo, never as part of a check."""
import json
import os
import sys

HERE = os.path.dirname(os.path.dirname(os.path.abspath(__file__)))
sys.path.insert(0, HERE)
os.environ["VERIF_NO_INLINE"] = "1"
from sa.model import Project  # noqa: E402

P = Project.from_dir(sys.argv[1] if len(sys.argv) > 1 else "/repo/src")
from sa.inline import fingerprint  # noqa: E402

out = {"functions": sorted(P.funcs), "classes": sorted(P.classes), "fingerprints": {fq: fingerprint(fi.node) for fq, fi in sorted(P.funcs.items())}, "commit": os.popen("git -C /repo rev-parse --short HEAD").read().strip()}
with open(os.path.join(HERE, "sa", "units_snapshot.json"), "w") as fh:
    json.dump(out, fh, indent=0)
print(len(out["functions"]), "functions", len(out["classes"]), "classes")
