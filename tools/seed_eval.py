#!/usr/bin/env python3
"""Evaluate one independently written breaking change (kept under /verif/seeded/<name>/).

usage: seed_eval.py <name> <worktree> [--suite]

1. confirms the demonstration fails with the change and passes without it (in the worktree),
2. optionally runs the unedited baseline suite with the change applied (in the worktree),
3. runs every check's quick tier against the *worktree's* sources (VERIF_SRC) without touching
   evidence, and reports which checks raise a VIOLATION,
4. copies patch.diff, the demonstration and meta.json to /verif/seeded/<name>/ and records what was run.
"""
import json
import os
import shutil
import subprocess
import sys

PY = "/venv/bin/python"
VERIF = os.path.dirname(os.path.dirname(os.path.abspath(__file__)))


def sh(cmd, cwd=None, env=None, timeout=1200):
    r = subprocess.run(cmd, shell=True, cwd=cwd, env=env, capture_output=True, text=True, timeout=timeout)
    return r.returncode, (r.stdout + r.stderr)


def main():
    name, wt = sys.argv[1], sys.argv[2]
    run_suite = "--suite" in sys.argv
    seed = os.path.join(wt, "seed")
    demo = "demo.py" if os.path.exists(os.path.join(seed, "demo.py")) else "test_demo.py"
    env = dict(os.environ, PYTHONPATH=os.path.join(wt, "src"))
    demo_cmd = f"{PY} seed/{demo}" if demo == "demo.py" else f"{PY} -m pytest -q -p no:cacheprovider seed/{demo}"
    out = {"name": name}
    # make sure the worktree has exactly the patch applied
    sh("git reset -q && git checkout -- src && git clean -fdq src", cwd=wt)
    rc, o = sh("git apply seed/patch.diff", cwd=wt)
    if rc != 0:
        print("patch does not apply:", o)
        return 2
    rc_with, o_with = sh(demo_cmd, cwd=wt, env=env, timeout=300)
    sh("git reset -q && git checkout -- src && git clean -fdq src", cwd=wt)
    rc_without, o_without = sh(demo_cmd, cwd=wt, env=env, timeout=300)
    sh("git apply seed/patch.diff", cwd=wt)
    out["demo_with_change_exit"] = rc_with
    out["demo_without_change_exit"] = rc_without
    print(f"demo: with change exit {rc_with}, without exit {rc_without}")
    if rc_without != 0:
        print("demo output on the unchanged tree (tail):", o_without[-600:])
    if run_suite:
        rc, o = sh(f"{PY} -m pytest -q -p no:cacheprovider --timeout=900 2>&1 | grep -E ' passed| failed| error' | tail -1", cwd=wt, timeout=1500)
        out["suite_with_change"] = o.strip()
        print("suite:", o.strip())
    # checks
    props = [json.loads(l)["id"] for l in open(os.path.join(VERIF, "properties.jsonl"))]
    reported = {}
    for p in props:
        rc, o = sh(f"{PY} check.py {p} --no-evidence --src {wt}/src", cwd=VERIF, timeout=600)
        lines = [l for l in o.splitlines() if l.startswith("VIOLATION") or l.startswith("ANALYSIS-ERROR")]
        detail = [l.strip() for l in o.splitlines() if l.startswith("  ")]
        if rc != 0:
            reported[p] = {"exit": rc, "lines": lines[:4], "detail": [d[:300] for d in detail[:4]]}
    out["checks_reporting"] = reported
    for p, r in reported.items():
        print(p, "exit", r["exit"], (r["detail"] or r["lines"])[:1])
    if not reported:
        print("NO CHECK REPORTS THIS CHANGE")
    dst = os.path.join(VERIF, "seeded", name)
    os.makedirs(dst, exist_ok=True)
    for f in ("patch.diff", demo):
        shutil.copy(os.path.join(seed, f), os.path.join(dst, f))
    meta = {}
    if os.path.exists(os.path.join(seed, "meta.json")):
        try:
            meta = json.load(open(os.path.join(seed, "meta.json")))
        except Exception:
            meta = {"raw": open(os.path.join(seed, "meta.json")).read()}
    meta["confirmed_by_me"] = {
        "demo_cmd": f"cd <worktree> && PYTHONPATH=<worktree>/src {demo_cmd}",
        "demo_with_change_exit": rc_with,
        "demo_without_change_exit": rc_without,
        "suite_with_change": out.get("suite_with_change") or (open(f"/tmp/suite_{name}.txt").read().strip() if os.path.exists(f"/tmp/suite_{name}.txt") else "not re-run in this evaluation"),
        "suite_cmd": "cd <worktree> && /venv/bin/python -m pytest -q -p no:cacheprovider --timeout=900   (unedited tests, change applied)",
        "first_evaluation": meta.get("confirmed_by_me", {}).get("checks_reporting") if isinstance(meta.get("confirmed_by_me"), dict) else None,
        "checks_cmd": "check.py <ID> --no-evidence --src <worktree>/src  (all 20 properties)",
        "checks_reporting": {p: (r["detail"] or r["lines"])[:2] for p, r in reported.items()},
    }
    with open(os.path.join(dst, "meta.json"), "w") as fh:
        json.dump(meta, fh, indent=1)
    return 0


if __name__ == "__main__":
    sys.exit(main())
