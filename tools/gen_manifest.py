#!/usr/bin/env python3
"""Regenerates /verif/MANIFEST.json from the table below (kept valid at all times)."""
import json
import os
import subprocess
import sys

HERE = os.path.dirname(os.path.dirname(os.path.abspath(__file__)))
sys.path.insert(0, HERE)
from tools.registry import CHECKS, NOT_APPLICABLE  # noqa: E402

PY = "/venv/bin/python"


def fix_commits():
    try:
        out = subprocess.run(["git", "-C", "/repo", "log", "--format=%H %s"], capture_output=True, text=True).stdout
    except Exception:
        return []
    return [l.split()[0] for l in out.splitlines() if l.split(" ", 1)[1].startswith("fix:")][::-1]


def main():
    props = [json.loads(l)["id"] for l in open(os.path.join(HERE, "properties.jsonl"))]
    checks = []
    for pid in props:
        if pid not in CHECKS:
            continue
        c = CHECKS[pid]
        checks.append(
            {
                "property_id": pid,
                "quick_cmd": f"{PY} check.py {pid} --tier quick",
                "thorough_cmd": f"{PY} check.py {pid} --tier thorough",
                "evidence_file": f"/verif/evidence/{pid}.json",
                "replay_cmd_template": f"{PY} check.py {pid} --replay {{path}}",
                "engine": "sa",
                "level_claimed": {"category": "other", "text": c["text"], "design_ref": f"DESIGN.md §4 {pid}"},
                "level_note": c["note"],
                "technique": c["technique"],
            }
        )
    na = [{"property_id": p, "reason": NOT_APPLICABLE[p]} for p in props if p not in CHECKS]
    man = {
        "version": 1,
        "setup_cmd": f"{PY} -c \"import ast, sys; sys.exit(0 if sys.version_info >= (3, 9) else 1)\"",
        "hooks": {
            "guard": "CHUK_MCP_VERIF",
            "enable": "none needed: the checks parse /repo/src with ast (and mypy from /venv for C10/C20); nothing is executed or instrumented, so the guard variable is unused",
            "baseline_off_cmd": "cd /repo && /venv/bin/python -m pytest -q -p no:cacheprovider --timeout=900",
            "source_commits": fix_commits(),
            "add_only": True,
        },
        "engines": [
            {
                "name": "sa",
                "path": "/verif/sa",
                "serves_properties": [c["property_id"] for c in checks],
                "kind_free_text": "repository-specific static analysis: Python ast, syntax-directed abstract interpreter (state sets with path literals, def-site terms and ordered events), interval-partition decision-cascade evaluation, constant folding, model-class table, resolved call graph; mypy as a library for type-resolved call sites",
            }
        ],
        "checks": checks,
        "not_applicable": na,
        "notes": "All checks are static: they parse /repo/src/chuk_mcp on every run and never import or execute it. Exit 0 ok / 1 VIOLATION / 2 ANALYSIS-ERROR (undecidable shape or vanished anchor). known_findings.json lists recorded genuine defects (KNOWN-FINDING lines) and the repaired ones (status fixed; they suppress nothing).",
    }
    with open(os.path.join(HERE, "MANIFEST.json"), "w") as fh:
        json.dump(man, fh, indent=1)
        fh.write("\n")
    print(f"MANIFEST.json: {len(checks)} checks, {len(na)} not_applicable")


if __name__ == "__main__":
    main()
