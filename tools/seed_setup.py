#!/usr/bin/env python3
"""Prepare one scratch worktree per property for a round of seeded breaking changes.

usage: seed_setup.py <round-letter> [PROP ...]

Creates /tmp/wt/<Cnn>-<letter> (a detached worktree of /repo's HEAD) with seed/property.json (the property's own record,
nothing else from /verif) and seed/TASK.md (the brief for the author of the change, listing one-line summaries of the
earlier attempts so that a different clause is chosen).  The worktrees are removed again with
`git -C /repo worktree remove --force <dir>` once their seed/ directory has been evaluated (tools/seed_eval.py)."""
import json
import os
import subprocess
import sys

VERIF = os.path.dirname(os.path.dirname(os.path.abspath(__file__)))

TASK = """# Task: write a realistic change to this repository that BREAKS one stated property

You are working in a scratch git worktree of the Python package chuk-mcp at `{wt}` (a checkout of the
project's current HEAD). Work ONLY inside `{wt}`. Never read or write anything under `/repo` or `/verif`
(they are off limits for this task), and do not create other worktrees.

The property (full text, with the files it is anchored in - line numbers in the anchors are approximate
and may have drifted) is in `{wt}/seed/property.json`. Read it first, then read the anchored source files.

## What to produce

A change to the package source under `{wt}/src/chuk_mcp/` (NOT the tests) such that:

1. it looks like something a maintainer could plausibly commit (an optimisation, a tidy-up, a refactor, a new
   feature, a "robustness" tweak, a bug fix for something else) - not sabotage that a reviewer would spot at once;
2. the package still imports, and the **existing test suite, unedited, still passes** with the change:
   `cd {wt} && /venv/bin/python -m pytest -q -p no:cacheprovider --timeout=900 -x 2>&1 | tail -5`
   (about 2 minutes; the expected result on the unchanged tree is `1273 passed`, a few skipped). The test
   configuration puts `{wt}/src` first on the import path, so the tests exercise your worktree copy;
3. it makes the stated property FALSE for some input / schedule / history / fault - but only one that needs
   something specific to manifest: a particular interleaving, a fault at a particular point, a multi-step
   sequence of operations, an unusual-but-legal input, or two cooperating sites that each look fine alone.
   NOT something that ordinary use would expose at once;
4. it breaks a DIFFERENT clause or mechanism of the property than these earlier attempts, which are already known
   (do not reuse their idea, nor a close variant of it):
{earlier}
   Read the whole statement: it has several clauses (what is returned, what is written, ordering, counting,
   what happens on faults, which values are accepted/rejected, bounds ...). Pick one the list above does not touch,
   and prefer one where the breakage sits in a different function/file of the anchors than the above. The subtler the
   better: a change that is *mostly* a behaviour-preserving refactor (helper extracted, state moved into a small class,
   constants moved, idioms swapped) with the breakage hidden in one detail of it is ideal.

## Demonstration

Write `{wt}/seed/demo.py`: a standalone program (no pytest needed; it may use anyio/asyncio, and fake streams /
fake subprocesses / mocked httpx as the existing tests do - no network is available) that exercises the real
package code and exits 0 when the property holds for the scenario and exits 1 (printing what went wrong) when it
does not. It must be run as `cd {wt} && PYTHONPATH={wt}/src /venv/bin/python seed/demo.py`.
It must **exit 1 with your change applied and exit 0 on the unchanged tree** (`git stash -u` / `git checkout -- src && git clean -fdq src`
to compare; re-apply afterwards). Keep it deterministic and under ~30 s.

## Deliverables (all inside `{wt}/seed/`)

- `patch.diff`: output of `cd {wt} && git diff -- src` (only files under src/; must apply with `git apply` to a clean checkout;
  if you add new files under src/, `git add -N` them first so that they appear in the diff).
- `demo.py`: as above.
- `meta.json`: {{"property": "{prop}", "summary": "<what the change does, 1-3 sentences>", "clause_broken": "<which
  clause of the statement>", "needs": "<what exactly is needed for the breakage to manifest>",
  "suite": "<last line of the pytest run with the change applied>", "demo_without_change": "<output+exit code>",
  "demo_with_change": "<output+exit code>"}}

Leave the worktree with your change applied to src/ (uncommitted) and the three files in seed/.
Do not edit anything under tests/. Do not commit. Your final answer should be a short summary: what you changed, which clause it
breaks, what it needs to manifest, and the suite / demo results you observed.
"""


def main():
    letter = sys.argv[1]
    props = sys.argv[2:] or [f"C{i:02d}" for i in range(1, 21)]
    records = {}
    for line in open(os.path.join(VERIF, "properties.jsonl")):
        line = line.strip()
        if line:
            r = json.loads(line)
            records[r.get("id")] = r
    for prop in props:
        wt = f"/tmp/wt/{prop}-{letter}"
        if not os.path.isdir(wt):
            subprocess.run(["git", "-C", "/repo", "worktree", "add", "--detach", wt, "HEAD"], check=True, capture_output=True)
        os.makedirs(os.path.join(wt, "seed"), exist_ok=True)
        with open(os.path.join(wt, "seed", "property.json"), "w") as f:
            json.dump(records[prop], f, indent=1)
        earlier = []
        sd = os.path.join(VERIF, "seeded")
        for d in sorted(os.listdir(sd)):
            if d.startswith(prop + "-"):
                try:
                    m = json.load(open(os.path.join(sd, d, "meta.json")))
                except Exception:
                    continue
                s = (m.get("summary") or m.get("title") or "").replace("\n", " ")
                earlier.append("   - " + s[:200])
        with open(os.path.join(wt, "seed", "TASK.md"), "w") as f:
            f.write(TASK.format(wt=wt, prop=prop, earlier="\n".join(earlier) or "   (none)"))
        print("ready", wt)


if __name__ == "__main__":
    main()
