#!/venv/bin/python
"""Automatic semantics-preserving rewrites of the whole package, run through every check.

None of these changes what any function computes, so every check must stay at its
baseline verdict (exit 0, same set of findings).  Anything else is a false alarm (or an
unreadable-shape exit 2) of the machinery and is printed.

transforms
  rename     every function-local variable `v` (not a parameter, not global/nonlocal) -> `v_rn`
  logging    `logger.debug("enter")`-style no-op statement at the start of every function that
             already lives in a module defining `logger`
  unparse    whole tree re-emitted by ast.unparse
  pass       a `pass` statement after every `if`/`for`/`while`/`try` body's last statement  (statement count changes)
  docstring  module docstrings changed / added (line numbers shift)
  elif       `elif` chains rewritten as nested `else: if` (ast.unparse collapses them back, so this is done on the tree
             with a marker statement)  -- skipped; same AST

usage: benign_fuzz.py [--src /repo/src] [--props C01,C02] [--transforms rename,logging]
"""
from __future__ import annotations

import argparse
import ast
import importlib
import os
import sys
from concurrent.futures import ProcessPoolExecutor

HERE = os.path.dirname(os.path.dirname(os.path.abspath(__file__)))
sys.path.insert(0, HERE)

from sa.model import AnalysisError, Project  # noqa: E402
from sa import report as Rm  # noqa: E402


# ----------------------------------------------------------------------------- transforms
def _is_func(n):
    return isinstance(n, (ast.FunctionDef, ast.AsyncFunctionDef, ast.Lambda))


def _own_nodes(fn):
    """nodes of fn's body that are not inside a nested function/class/lambda/comprehension scope"""
    stack = list(fn.body) if not isinstance(fn, ast.Lambda) else [fn.body]
    while stack:
        n = stack.pop()
        yield n
        for c in ast.iter_child_nodes(n):
            if _is_func(c) or isinstance(c, ast.ClassDef):
                # decorators / defaults are evaluated in the enclosing scope
                if not isinstance(c, ast.Lambda):
                    for d in c.decorator_list:
                        stack.append(d)
                if not isinstance(c, ast.ClassDef):
                    for d in list(c.args.defaults) + [x for x in c.args.kw_defaults if x is not None]:
                        stack.append(d)
                yield c  # the def statement itself (binds its name)
                continue
            stack.append(c)


def _locals_of(fn):
    params = set()
    a = fn.args
    for x in a.posonlyargs + a.args + a.kwonlyargs:
        params.add(x.arg)
    if a.vararg:
        params.add(a.vararg.arg)
    if a.kwarg:
        params.add(a.kwarg.arg)
    declared = set()
    stored = set()
    for n in _own_nodes(fn):
        if isinstance(n, (ast.Global, ast.Nonlocal)):
            declared.update(n.names)
        elif isinstance(n, ast.Name) and isinstance(n.ctx, (ast.Store, ast.Del)):
            stored.add(n.id)
        elif isinstance(n, ast.ExceptHandler) and n.name:
            stored.add(n.name)
        elif isinstance(n, (ast.Import, ast.ImportFrom)):
            pass  # imported names are left alone (resolver keys)
    # comprehension targets live in their own scope in py3 but renaming them consistently is harmless
    return (stored - params - declared), params


class _Renamer(ast.NodeTransformer):
    def __init__(self, mapping):
        self.mapping = mapping

    def visit_Name(self, node):
        if node.id in self.mapping:
            node.id = self.mapping[node.id]
        return node

    def visit_ExceptHandler(self, node):
        if node.name and node.name in self.mapping:
            node.name = self.mapping[node.name]
        self.generic_visit(node)
        return node

    def _nested(self, node):
        # a nested scope that rebinds a name (parameter or assignment) shadows it
        loc, params = _locals_of(node)
        shadow = (loc | params) & set(self.mapping)
        for n in _own_nodes(node):
            if isinstance(n, ast.Global):
                shadow |= set(n.names) & set(self.mapping)
        # names declared nonlocal in the nested function refer to ours: keep them mapped
        sub = {k: v for k, v in self.mapping.items() if k not in shadow}
        for n in _own_nodes(node):
            if isinstance(n, ast.Nonlocal):
                n.names = [self.mapping.get(x, x) for x in n.names]
                for x in n.names:
                    pass
        # nonlocal names: they appear in `stored` of the nested fn but were excluded by `declared`
        r = _Renamer(sub)
        if isinstance(node, ast.Lambda):
            node.body = r.visit(node.body)
        else:
            node.body = [r.visit(s) for s in node.body]
            node.decorator_list = [self.visit(d) for d in node.decorator_list]
        node.args.defaults = [self.visit(d) for d in node.args.defaults]
        node.args.kw_defaults = [self.visit(d) if d is not None else None for d in node.args.kw_defaults]
        return node

    visit_FunctionDef = _nested
    visit_AsyncFunctionDef = _nested
    visit_Lambda = _nested

    def visit_ClassDef(self, node):
        return node  # class bodies inside functions: leave alone (rare)


def t_rename(tree: ast.Module) -> ast.Module:
    # outermost functions first; nested functions get their own pass afterwards
    def process(fn):
        loc, _ = _locals_of(fn)
        # a name that a nested class body uses is left alone
        mapping = {v: v + "_rn" for v in loc if not v.startswith("__")}
        has_class = any(isinstance(n, ast.ClassDef) for n in ast.walk(fn) if n is not fn)
        uses_locals = any(isinstance(n, ast.Call) and isinstance(n.func, ast.Name) and n.func.id in ("locals", "vars", "eval", "exec") for n in ast.walk(fn))
        if mapping and not has_class and not uses_locals:
            r = _Renamer(mapping)
            fn.body = [r.visit(s) for s in fn.body]
        for n in ast.walk(fn):
            if n is not fn and isinstance(n, (ast.FunctionDef, ast.AsyncFunctionDef)):
                pass

    def walk(node):
        for c in ast.iter_child_nodes(node):
            if isinstance(c, (ast.FunctionDef, ast.AsyncFunctionDef)):
                process(c)
                walk(c)
            else:
                walk(c)

    walk(tree)
    return tree


def t_logging(tree: ast.Module) -> ast.Module:
    has_logger = any(
        isinstance(n, ast.Assign) and any(isinstance(t, ast.Name) and t.id == "logger" for t in n.targets) for n in tree.body
    )
    if not has_logger:
        return tree
    for n in ast.walk(tree):
        if isinstance(n, (ast.FunctionDef, ast.AsyncFunctionDef)):
            stmt = ast.parse(f"logger.debug('enter {n.name}')").body[0]
            i = 1 if (n.body and isinstance(n.body[0], ast.Expr) and isinstance(getattr(n.body[0], 'value', None), ast.Constant) and isinstance(n.body[0].value.value, str)) else 0
            n.body.insert(i, stmt)
    return tree


def t_pass(tree: ast.Module) -> ast.Module:
    for n in ast.walk(tree):
        if isinstance(n, (ast.If, ast.For, ast.AsyncFor, ast.While, ast.With, ast.AsyncWith)):
            last = n.body[-1]
            if not isinstance(last, (ast.Return, ast.Raise, ast.Continue, ast.Break)):
                n.body.append(ast.Pass())
    return tree


def _private_names(sources):
    """every single-underscore identifier that is *defined* in the package (def, class, attribute store, module assign)"""
    names = set()
    for src in sources.values():
        try:
            tree = ast.parse(src)
        except SyntaxError:
            continue
        for n in ast.walk(tree):
            if isinstance(n, (ast.FunctionDef, ast.AsyncFunctionDef, ast.ClassDef)) and n.name.startswith("_") and not n.name.startswith("__"):
                names.add(n.name)
            elif isinstance(n, ast.Attribute) and isinstance(n.ctx, ast.Store) and isinstance(n.value, ast.Name) and n.value.id in ("self", "cls") and n.attr.startswith("_") and not n.attr.startswith("__"):
                names.add(n.attr)
    # names that other libraries look up by string must stay
    return {n for n in names if n not in ("_missing_", "_generate_next_value_")}


class _Private(ast.NodeTransformer):
    def __init__(self, names):
        self.names = names

    def _m(self, x):
        return x + "_pv" if x in self.names else x

    def visit_FunctionDef(self, n):
        n.name = self._m(n.name)
        self.generic_visit(n)
        return n

    visit_AsyncFunctionDef = visit_FunctionDef
    visit_ClassDef = visit_FunctionDef

    def visit_Attribute(self, n):
        n.attr = self._m(n.attr)
        self.generic_visit(n)
        return n

    def visit_Name(self, n):
        n.id = self._m(n.id)
        return n

    def visit_alias(self, n):
        n.name = self._m(n.name)
        if n.asname:
            n.asname = self._m(n.asname)
        return n

    def visit_Constant(self, n):
        if isinstance(n.value, str) and n.value in self.names:
            n.value = self._m(n.value)
        return n

    def visit_keyword(self, n):
        self.generic_visit(n)
        return n


_PRIV = None


def t_private(tree):
    return _Private(_PRIV).visit(tree)


def _kw_names(sources):
    out = set()
    for src in sources.values():
        try:
            tree = ast.parse(src)
        except SyntaxError:
            continue
        for n in ast.walk(tree):
            if isinstance(n, ast.keyword) and n.arg:
                out.add(n.arg)
    return out


_KW = None


def t_params(tree):
    """rename parameters of private and nested functions that are never passed by keyword anywhere"""
    def process(fn):
        a = fn.args
        allp = [x for x in a.posonlyargs + a.args] + ([a.vararg] if a.vararg else []) + ([a.kwarg] if a.kwarg else [])
        mapping = {x.arg: x.arg + "_pm" for x in allp if x.arg not in ("self", "cls") and x.arg not in _KW}
        if not mapping:
            return
        uses_locals = any(isinstance(n, ast.Call) and isinstance(n.func, ast.Name) and n.func.id in ("locals", "vars", "eval", "exec") for n in ast.walk(fn))
        has_class = any(isinstance(n, ast.ClassDef) for n in ast.walk(fn) if n is not fn)
        if uses_locals or has_class:
            return
        for x in allp:
            if x.arg in mapping:
                x.arg = mapping[x.arg]
        r = _Renamer(mapping)
        fn.body = [r.visit(s) for s in fn.body]

    def walk(node, nested):
        for c in ast.iter_child_nodes(node):
            if isinstance(c, (ast.FunctionDef, ast.AsyncFunctionDef)):
                private = c.name.startswith("_") and not c.name.startswith("__")
                if nested or private:
                    process(c)
                walk(c, True)
            else:
                walk(c, nested)

    walk(tree, False)
    return tree


def t_unparse(tree):
    return tree


def t_docstring(tree):
    tree.body.insert(0, ast.Expr(ast.Constant("module docstring added by benign_fuzz\n\n\n(three more lines)\n")))
    return tree


TRANSFORMS = {"private": t_private, "params": t_params, "rename": t_rename, "logging": t_logging, "pass": t_pass, "unparse": t_unparse, "docstring": t_docstring}


def transform_sources(sources, name, only=None):
    out = {}
    f = TRANSFORMS[name]
    global _PRIV, _KW
    if name == "private":
        _PRIV = _private_names(sources)
    if name == "params":
        _KW = _kw_names(sources)
    for rel, src in sources.items():
        if only and not any(rel.endswith(o) for o in only):
            continue
        try:
            tree = ast.parse(src)
        except SyntaxError:
            continue
        tree = f(tree)
        ast.fix_missing_locations(tree)
        new = ast.unparse(tree) + "\n"
        compile(new, rel, "exec")
        out[rel] = new
    return out


# ----------------------------------------------------------------------------- running
_P = None


def _init(sources):
    global _P
    _P = sources


def _run(args):
    prop, tname = args
    base = Project(_P, "base")
    try:
        changed = transform_sources(_P, tname)
        var = base.variant(changed)
    except Exception as e:
        return prop, tname, "transform-error", [f"{type(e).__name__}: {e}"]
    mod = importlib.import_module(f"sa.checks.{prop.lower()}")

    def findings(project):
        from sa.runner import run_property

        try:
            rep = run_property(prop, project, "quick")
        except AnalysisError as e:
            return "error", [str(e)]
        except Exception as e:
            return "crash", [f"{type(e).__name__}: {e}"]
        return "ok", sorted(rep.finding_keys())

    s0, k0 = findings(base)
    s1, k1 = findings(var)
    if s1 != "ok":
        return prop, tname, s1, k1
    new = sorted(set(k1) - set(k0))
    lost = sorted(set(k0) - set(k1))
    if new or lost:
        return prop, tname, "diff", [f"+{x}" for x in new] + [f"-{x}" for x in lost]
    return prop, tname, "same", []


def main():
    ap = argparse.ArgumentParser()
    ap.add_argument("--src", default="/repo/src")
    ap.add_argument("--props", default=",".join(f"C{i:02d}" for i in range(1, 21)))
    ap.add_argument("--transforms", default=",".join(TRANSFORMS))
    a = ap.parse_args()
    project = Project.from_dir(a.src)
    jobs = [(p, t) for t in a.transforms.split(",") for p in a.props.split(",")]
    bad = 0
    with ProcessPoolExecutor(max_workers=16, initializer=_init, initargs=(project.sources,)) as ex:
        for prop, t, status, keys in ex.map(_run, jobs):
            if status != "same":
                bad += 1
                print(f"{prop} {t}: {status}")
                for k in keys[:6]:
                    print("    ", k[:400])
    print(f"{len(jobs)} runs, {bad} not at baseline")
    return 1 if bad else 0


if __name__ == "__main__":
    sys.exit(main())
