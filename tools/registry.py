"""Per-property manifest texts.  A property appears in CHECKS only once its
check exists and is silent on the repaired tree; until then it is listed as
not claimed (with the reason) so MANIFEST.json never over-claims."""

PENDING = "check not built yet in this session (DESIGN.md §4 describes the planned static rules); not claimed until it exists"

CHECKS = {
    "C07": {
        "text": "Decides the classification clauses for every integer code: the code is touched only through membership in two constant sets, which are folded from the source and compared (disjoint, every named code in exactly one, same keys as ERROR_MESSAGES); is_retryable_error is shown total and equal to the complement of the permanent set on every path; every path of the response processor with an error present ends in raise of exactly one of the two classes chosen by that classifier and carrying the code and message; no request helper swallows them except the three documented boolean helpers, which return False.",
        "note": "Static: ast + path literals over all paths of the anchored functions; assumes CPython set-membership semantics and that error objects are dicts as the envelope model demands. Not decided: the text formatting of the message beyond 'derives from error[message]'.",
        "technique": "constant folding of the code sets + all-paths abstract interpretation (path literals) of classifier, response processor and handlers",
    },
    "C13": {
        "text": "Decides the batching cut-off for every integer triple, hence every well-formed date: supports_batching is interpreted over the interval partition induced by all constants it compares with (729 regions today, all 27 sign vectors) and must return True exactly below (2025,6,18); compare/validate_format are shown to order fixed-width digit strings by plain string comparison (regex parsed structurally); the stdio reader's reject-or-iterate structure is checked on all paths (one -32600 write and no routing when rejected; per-member try in list order when accepted; mode read per message).",
        "note": "Static: abstract interpretation on a finite abstract domain, no concrete execution. Assumes ASCII digits for \\d (the property's domain) and CPython string ordering. Delivery itself (FIFO streams) is anyio's.",
        "technique": "interval-partition abstract interpretation of the decision cascade + regex AST check + path/event analysis of the reader",
    },
}
CHECKS["C19"] = {
    "text": "Per-method refinement of a map: the in-memory manager keeps exactly one dict attribute and nothing else, so if each method's effect on it (summarised on every path as put/touch/del/clear events plus the returned term) equals the map model's effect, every operation history agrees with the model by induction on its length. Decides: ids are untruncated uuid4 values; create stores one record (caller's info, version, clock timestamps) under the fresh id and returns it; get is a pure lookup; update/delete act and return True exactly under presence; expiry selects exactly now-last_activity > max_age, deletes exactly those keys and returns their count; list returns a copy and no method or outside function can alias or write the store.",
    "note": "Static: effect summaries by all-paths abstract interpretation. Assumes dict semantics and that uuid4 values do not collide (probability, not decidable statically). Histories are covered by the refinement argument, not enumerated.",
    "technique": "per-method effect summaries (all-paths abstract interpretation) compared with a map specification; who-may-write check",
}
CHECKS["C04"] = {
    "text": "Taint-style dataflow over all paths of the handler registered for 'initialize': the two sinks (the protocolVersion member of the answer and the version handed to create_session) may only receive a constant that folds to a member of SUPPORTED_VERSIONS or a request-derived term on a path that carries its membership literal (is_supported is itself shown to be list membership, so non-strings and malformed strings are covered); both sinks receive the same term on every path. Together with C03 this gives the end-to-end sentence.",
    "note": "Static: path literals + constant folding. Assumes list membership semantics of `in`. Covers the library's ProtocolHandler; a user-registered replacement handler is outside the library.",
    "technique": "sanitised-sink dataflow over all paths (path literals over def-site terms) + constant folding of SUPPORTED_VERSIONS",
}
CHECKS["C03"] = {
    "text": "All-paths abstract interpretation of send_initialize with path literals over def-site terms and ordered events: the proposed version is the preferred one only on paths that established `preferred in supported` and supported[0] otherwise, and it is what the initialize request carries on the caller's streams; every returning path carries `server_version == proposed` or `server_version in supported` with server_version derived from the validated response; the initialized notification occurs exactly once on every returning path (after acceptance, outside loops, on the caller's write stream) and zero times on every raising path; the sender writes exactly one notifications/initialized and cannot swallow a failed write; the returned object is the validated answer; both trackers record that object's protocolVersion and the batch processor recomputes its mode from the same value (C13 decides what that mode is).",
    "note": "Static; quantifies over all lists/answers because the code only tests membership and equality of opaque terms. Server silence and JSON-RPC errors are exception edges of the send_message call (every such path is shown to carry no notification). Not decided: what the transport does with the written notification.",
    "technique": "all-paths abstract interpretation with path literals, flow-sensitive def-site terms and ordered event counting",
}
CHECKS["C01"] = {
    "text": "The wait is a fold of a per-message predicate over a FIFO stream, so what is decided per message holds for every sequence and every timing: all paths from receive() to a return of the wait loop must carry, on the received object, id == <the id term the request was built with>, not-a-list and no-method literals, and the returned value derives from that object only; the loop has no other exit than that return and raises (no break, constant-True condition, cannot fall off); on every path of send_message reaching the wait exactly one write_stream.send of create_request(method=<method>, params=<params>, id=<awaited id>) precedes it, outside loops, and the wait reads the caller's read stream; every typed send_* helper issues exactly one request per returning path on its own streams and returns a value derived from the response.",
    "note": "Static; poll boundaries and arrival times are not inputs of the per-message predicate, so they need no enumeration. Not decided: that the payload equals what the server sent byte for byte (pydantic validation of the message object), and fairness between concurrent waiters (C18).",
    "technique": "all-paths abstract interpretation with path literals over def-site terms, event ordering/counting, call-site parameter binding",
}
CHECKS["C18"] = {
    "text": "R1 decides 'no cross-talk' for every schedule: each waiter's return is guarded, on all paths, by id equality with its own request id, no-method and not-a-list (the per-message predicate does not depend on timing or on other waiters). R2 decides 'no lost responses' negatively: a path of the shared-stream consumer from receive() to the next iteration under `id != own id` that does not hand the message on is reported; on this tree that path exists and is a recorded known finding (two outstanding requests answered in reverse order both time out).",
    "note": "Static, all paths of one loop iteration. Assumes the memory stream delivers each item to exactly one receiver (anyio). The known finding is by design of the library (no dispatcher) and is listed in known_findings.json with a demonstration.",
    "technique": "all-paths abstract interpretation of the wait loop body: guard literals on returns, hand-off events on discarding paths",
}
CHECKS["C14"] = {
    "text": "Counting and ordering clauses are decided on all paths: the cancellation check precedes the bounded receive in every iteration; the pre-send check precedes the only request write; the cancelled path sends at most/at least one cancelled notification naming the request id on the write stream and then raises CancelledError, and a triggered token can never let the check return normally; the progress callback is reached only under method == notifications/progress ∧ token == the uuid4 token generated for and sent with this request, gets the three notified values, is contained by an except-Exception handler that cannot raise, and the iteration continues. Timing clauses are necessary conditions: the wait is lexically inside fail_after(<timeout param, never reassigned, unshielded>), no handler in the call tree can swallow the deadline's cancellation, the TimeoutError handler covers only the inner poll, and the poll interval is a positive constant the caller does not override.",
    "note": "Static. The timing sentences hold given anyio's cancel-scope semantics and these structural conditions; wall-clock behaviour, and a progress callback that itself blocks, are not decidable statically and are not claimed.",
    "technique": "all-paths abstract interpretation (per-iteration event ordering, guard literals at call sites), lexical scope/dominance checks for deadlines",
}

NOT_APPLICABLE = {f"C{i:02d}": PENDING for i in range(1, 21)}
