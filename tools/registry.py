"""Per-property manifest texts.  A property appears in CHECKS only once its
check exists and is silent on the repaired tree; until then it is listed as
not claimed (with the reason) so MANIFEST.json never over-claims."""

PENDING = "check not built yet in this session (DESIGN.md §4 describes the planned static rules); not claimed until it exists"

CHECKS = {
    "C07": {
        "text": "Decides the classification clauses for every integer code: the code is touched only through membership in two constant sets, which are folded from the source and compared (disjoint, every named code in exactly one); is_retryable_error is shown total and equal to the complement of the permanent set on every path; every path of the response processor with an error present ends in raise of exactly one of the two classes chosen by that classifier and carrying the code and message; no request helper swallows them except the three documented boolean helpers, which return False. The code carried by the exception must be a pure projection of the error object (`.get('code'[, constant])` or `['code']`): an `or <default>`, coercion or arithmetic would replace some server codes.",
        "note": "Static: ast + path literals over all paths of the anchored functions; assumes CPython set-membership semantics and that error objects are dicts as the envelope model demands. Not decided: the text formatting of the message beyond 'derives from error[message]'.",
        "technique": "constant folding of the code sets + all-paths abstract interpretation (path literals) of classifier, response processor and handlers",
    },
    "C13": {
        "text": "Decides the batching cut-off for every integer triple, hence every well-formed date: supports_batching is interpreted over the interval partition induced by all constants it compares with (729 regions today, all 27 sign vectors) and must return True exactly below (2025,6,18); compare/validate_format are shown to order fixed-width digit strings by plain string comparison (regex parsed structurally); the stdio reader's reject-or-iterate structure is checked on all paths (one -32600 write and no routing when rejected; per-member try in list order when accepted; mode read per message). Components bound by unpacking a generator/map(int, …) over the split parts are resolved to the same atoms.",
        "note": "Static: abstract interpretation on a finite abstract domain, no concrete execution. Assumes ASCII digits for \\d (the property's domain) and CPython string ordering. Delivery itself (FIFO streams) is anyio's.",
        "technique": "interval-partition abstract interpretation of the decision cascade + regex AST check + path/event analysis of the reader",
    },
}
CHECKS["C19"] = {
    "text": "Per-method refinement of a map: the in-memory manager keeps exactly one dict attribute and nothing else, so if each method's effect on it (summarised on every path as put/touch/del/clear events plus the returned term) equals the map model's effect, every operation history agrees with the model by induction on its length. Decides: ids are untruncated uuid4 values; create stores one record (caller's info, version, clock timestamps) under the fresh id and returns it; get is a pure lookup; update/delete act and return True exactly under presence; expiry selects exactly now-last_activity > max_age, deletes exactly those keys and returns their count; list returns a copy and no method or outside function can alias or write the store. A selection loop that can stop early (break/return) is reported: every session must be examined.",
    "note": "Static: effect summaries by all-paths abstract interpretation. Assumes dict semantics and that uuid4 values do not collide (probability, not decidable statically). Histories are covered by the refinement argument, not enumerated.",
    "technique": "per-method effect summaries (all-paths abstract interpretation) compared with a map specification; who-may-write check",
}
CHECKS["C04"] = {
    "text": "Taint-style dataflow over all paths of the handler registered for 'initialize': the two sinks (the protocolVersion member of the answer and the version handed to create_session) may only receive a constant that folds to a member of SUPPORTED_VERSIONS or a request-derived term on a path that carries its membership literal (is_supported is itself shown to be list membership, so non-strings and malformed strings are covered); both sinks receive the same term on every path. Together with C03 this gives the end-to-end sentence. The sanitiser itself (is_supported) is decided through the flow-sensitive environment: it must test membership of the value itself, not of a normalised copy.",
    "note": "Static: path literals + constant folding. Assumes list membership semantics of `in`. Covers the library's ProtocolHandler; a user-registered replacement handler is outside the library.",
    "technique": "sanitised-sink dataflow over all paths (path literals over def-site terms) + constant folding of SUPPORTED_VERSIONS",
}
CHECKS["C03"] = {
    "text": "All-paths abstract interpretation of send_initialize with path literals over def-site terms and ordered events: the proposed version is the preferred one only on paths that established `preferred in supported` and supported[0] otherwise, and it is what the initialize request carries on the caller's streams; every returning path carries `server_version == proposed` or `server_version in supported` with server_version derived from the validated response; the initialized notification occurs exactly once on every returning path (after acceptance, outside loops, on the caller's write stream) and zero times on every raising path; the sender writes exactly one notifications/initialized and cannot swallow a failed write; the returned object is the validated answer; both trackers record that object's protocolVersion and the batch processor recomputes its mode from the same value (C13 decides what that mode is).",
    "note": "Static; quantifies over all lists/answers because the code only tests membership and equality of opaque terms. Server silence and JSON-RPC errors are exception edges of the send_message call (every such path is shown to carry no notification). Not decided: what the transport does with the written notification.",
    "technique": "all-paths abstract interpretation with path literals, flow-sensitive def-site terms and ordered event counting",
}
CHECKS["C01"] = {
    "text": "The wait is a fold of a per-message predicate over a FIFO stream, so what is decided per message holds for every sequence and every timing: all paths from receive() to a return of the wait loop must carry, on the received object, id == <the id term the request was built with>, not-a-list and no-method literals, and the returned value derives from that object only; the loop has no other exit than that return and raises (no break, constant-True condition, cannot fall off); on every path of send_message reaching the wait exactly one write_stream.send of create_request(method=<method>, params=<params>, id=<awaited id>) precedes it, outside loops, and the wait reads the caller's read stream; every typed send_* helper issues exactly one request per returning path on its own streams and returns a value derived from the response. Every returning path of send_message must have passed through the wait.",
    "note": "Static; poll boundaries and arrival times are not inputs of the per-message predicate, so they need no enumeration. Not decided: that the payload equals what the server sent byte for byte (pydantic validation of the message object), and fairness between concurrent waiters (C18).",
    "technique": "all-paths abstract interpretation with path literals over def-site terms, event ordering/counting, call-site parameter binding",
}
CHECKS["C18"] = {
    "text": "R1 decides 'no cross-talk' for every schedule: each waiter's return is guarded, on all paths, by id equality with its own request id, no-method and not-a-list (the per-message predicate does not depend on timing or on other waiters). R2 decides 'no lost responses' negatively: a path of the shared-stream consumer from receive() to the next iteration under `id != own id` that does not hand the message on is reported; on this tree that path exists and is a recorded known finding (two outstanding requests answered in reverse order both time out).",
    "note": "Static, all paths of one loop iteration. Assumes the memory stream delivers each item to exactly one receiver (anyio). The known finding is by design of the library (no dispatcher) and is listed in known_findings.json with a demonstration.",
    "technique": "all-paths abstract interpretation of the wait loop body: guard literals on returns, hand-off events on discarding paths",
}
CHECKS["C14"] = {
    "text": "Counting and ordering clauses are decided on all paths: the cancellation check precedes the bounded receive in every iteration; the pre-send check precedes the only request write; the cancelled path sends at most/at least one cancelled notification naming the request id on the write stream and then raises CancelledError, and a triggered token can never let the check return normally; the progress callback is reached only under method == notifications/progress ∧ token == the uuid4 token generated for and sent with this request, gets the three notified values, is contained by an except-Exception handler that cannot raise, and the iteration continues. Timing clauses are necessary conditions: the wait is lexically inside fail_after(<timeout param, never reassigned, unshielded>), no handler in the call tree can swallow the deadline's cancellation, the TimeoutError handler covers only the inner poll, and the poll interval is a positive constant the caller does not override.",
    "note": "Static. The timing sentences hold given anyio's cancel-scope semantics and these structural conditions; wall-clock behaviour, and a progress callback that itself blocks, are not decidable statically and are not claimed.",
    "technique": "all-paths abstract interpretation (per-iteration event ordering, guard literals at call sites), lexical scope/dominance checks for deadlines",
}
CHECKS["C08"] = {
    "text": "All paths of ProtocolHandler.handle_message are interpreted under an explicit fallibility model (invoking a value taken from the handler registry = arbitrary user code; an envelope constructor fed an id without an `is not None` literal; attribute access on the message without a getattr default): no exception edge may leave the dispatcher (never raises), a nullable id never reaches an envelope id (also inside except blocks), every returning path that established `id is None` returns None as the response and every path with `id is not None` returns exactly one envelope carrying that id (built by the dispatcher with the right constant code, or the invoked handler's answer for this message). Every library-registered handler (3 core + 4 MCPServer) is analysed the same way: one envelope with the message's id per return, -32602 under the unknown-name guard, user callables invoked inside try/except Exception → -32603. Reply helpers extracted from the dispatcher are analysed the same way: they may return 'no response' only under `id is None` (a falsy test would drop requests with id 0 or '').",
    "note": "Static. The fallibility model is stated in the evidence; operations outside it (dict lookups on validated str keys, the session timestamp update) are summarised as total. A user-registered handler that returns something other than (envelope, session) is user code and is passed on unchanged — not claimed. One known finding: a *request* named notifications/initialized is left unanswered.",
    "technique": "all-paths abstract interpretation with an explicit may-raise model, wrapper-inlined envelope recognition, constant folding of codes",
}
CHECKS["C05"] = {
    "text": "Decides chunk-independence structurally: (R1) the only bytes→str conversion on a per-read value goes through an incremental UTF-8 decoder created outside the read loop and never finalised per chunk, so a cut inside a multi-byte character is carried, not an error; (R2) the text buffer accumulates across reads, is split on the constant LF only (never splitlines: U+0085/U+2028/U+2029 stay inside lines), the last fragment is the carry-over and exactly the complete fragments are parsed once each, in order; (R3) with every call/await in the loop body treated as fallible except an explicit allowlist, no exception edge, break or return leaves the read loop or the per-line body — a bad line is dropped alone; (R4) on all paths of the router an id-less message is offered on the notification stream and delivered on the main stream, a message with id is delivered exactly once, and nothing on the delivery path is spawned as a task (order). Three chunk-independence rules shared with the SSE readers: only an empty chunk may be skipped before it is appended to the buffer; every cut/search on the buffer uses the constant LF; positions in the text buffer never derive from the byte length of a chunk.",
    "note": "Static. Trusted: a raw LF cannot occur inside a JSON text (JSON grammar), memory streams are FIFO, stdlib incremental decoders with a non-strict error handler never raise. Not decided: that the decoded JSON value equals what the child serialised (codec internals, C17).",
    "technique": "structural rules on the reader loop (decoder provenance, split/carry-over discipline) + all-paths containment analysis with an explicit may-raise allowlist + event counting in the router",
}
CHECKS["C06"] = {
    "text": "All paths of one writer-loop iteration are interpreted with every call treated as fallible: exactly one stdin write per delivered message, whose payload is f\"{s}\\n\" encoded as UTF-8 (one LF constant, nothing else); every value reaching s is classified by provenance — fast_json.dumps of the object, model_dump_json/model_dump with exclude_none=True and no indent, or a caller string on a path that excluded raw CR and LF or re-encoded it — anything else (raw pass-through, indent) is reported; no exception edge, break or return leaves the loop body and nothing is spawned (dropped alone, in order); the statements following the loop close stdin on every path where a process exists. fast_json.dumps is checked not to add newline/indent options of its own.",
    "note": "Static. Trusted: compact json/orjson output contains no raw line break (C17 checks the options). Not decided: that the decoded value equals the message for every payload (serialiser internals).",
    "technique": "all-paths abstract interpretation of the writer loop body (event counting, provenance of the serialised text via def-site terms and path literals, containment under a may-raise model)",
}
CHECKS["C20"] = {
    "text": "Interface drift across module seams is a type error in the resolved program: mypy (the repository's own, used as a library) gives the argument type at every stdio connector call of the two host entry points, which must be StdioParameters (load_config returns a (params, timeout) tuple) and, by def-use, element 0 of load_config's result. All paths of load_config are interpreted: command/args/env are read from the same-named keys of the entry selected by the server-name parameter in the file named by the path parameter, that object is element 0 of the return, each handler re-raises its own class and the unknown-name path raises ValueError. The spawn site passes the list display [params.command, *params.args] (no shell, no joined string) and an environment derived from params.env, and nothing rewrites the parameters in between. On every success path of both entry points the events load → connect → send_initialize(on the connection's two streams) occur in that order.",
    "note": "Static: mypy facts (cached by source digest) + ast dataflow. Assumes anyio.open_process executes the list it is given. What the child then does, and the handshake's outcome, are run-time facts (C03/C16).",
    "technique": "type-resolved call-site facts from mypy-as-library + def-use/path analysis of loader, spawn site and entry points",
}
CHECKS["C09"] = {
    "text": "The two validation backends are siblings behind one interface; their capabilities are read from the source and compared over the table of all McpPydanticBase subclasses (65 today, discovered by resolving bases): (R1) every validating construction hook on a protocol model is dispatched by both (the fallback's dispatcher is parsed for the hook names it getattr's and calls; Pydantic v2's are a stated fact) or delegated from one that is; (R2) every Field constraint keyword used on a model is one the fallback's source enforces; (R3) for every union of model classes in any annotation, no earlier member accepts, under the acceptance relation derived from the fallback validator's structure (ordered attempts, required fields, Literal tags only if a rejecting Literal case exists), a wire object valid for a later member; (R4) no Optional field lacks a default; (R5) the fallback's Union case has an exact-type pass before its coercing attempts and Optional[Union[...]] keeps all members, so Union[int, str] ids keep their JSON type. (R6) The set of annotations the fallback validates is derived from its source (a class's own __annotations__): a protocol model that inherits a typed field from another model class is validated by Pydantic only and is reported.",
    "note": "Static sibling comparison; quantifies over all classes, including future ones. Trusted: which hooks Pydantic v2 dispatches. Not decided: pydantic-core's own coercions on arbitrary values. Transport parameter classes (configuration, not traffic) are tabulated, not obliged. One known finding (Root.__post_init__, pinned by a test).",
    "technique": "model-class table (resolved bases, aliases expanded) + structural reading of the fallback validator; sibling cross-check",
}
CHECKS["C10"] = {
    "text": "(R1) type-resolved who-may-dump rule: for every model_dump/model_dump_json call in library code, mypy's receiver type is intersected with the alias-bearing closure of the model table (classes declaring an aliased field, closed under containment); such a call must pass by_alias=True; receivers typed Any are a frozen table of four named sites with reasons, and the envelope classes the transports dump are shown to declare no alias. (R2) no model class sets extra to anything but allow, and the fallback constructor/dump keep leftover keys. (R3) every `meta` field aliases `_meta`, every trailing-underscore field aliases the stripped name, populate_by_name stays on, and the fallback maps aliases both ways and passes by_alias to nested models.",
    "note": "Static: mypy-as-library facts (cached by source digest) + model table. Trusted: pydantic's dump/validate honour the declared aliases and extra=allow. Not decided: value-level losslessness of pydantic validators for arbitrary payloads.",
    "technique": "mypy-resolved receiver types at dump sites × alias closure over the model table; configuration and alias-table rules",
}
CHECKS["C17"] = {
    "text": "Necessary conditions only (said plainly): equality of what orjson and the stdlib encode/decode for every JSON value cannot be decided from Python source, orjson being a compiled extension. Decided: in dumps and loads both sibling branches receive the caller's object untransformed and return the library's result unmodified (orjson bytes decoded as UTF-8 and nothing else; input only re-decoded as UTF-8); the module itself sets no option that changes values or frames (OPT_INDENT_2 only under the caller's indent request, no OPT_APPEND_NEWLINE, OPT_STRICT_INTEGER only with the stdlib fallback arm, no parse_*/object_hook keywords); and no NDJSON frame writer passes indent. Breaking any of these breaks the property; satisfying them does not prove codec equivalence.",
    "note": "Static, N-level. Trusted: orjson and json without those options produce compact, value-preserving encodings with no raw line break. Out of reach and not claimed: value-level agreement of the two codecs over the 64-bit/float/Unicode domain.",
    "technique": "sibling-branch comparison and option/keyword denylist over the dual-backend wrapper; call-site keyword check at the frame writers",
}
CHECKS["C16"] = {
    "text": "Decided structurally: (R1) on every path of the terminate routine, terminate() precedes the first wait, kill() occurs only on that wait's timeout arm and precedes the second wait, every process.wait() is inside fail_after(<constant>) and the constants sum to at most 2.0 s; (R2) every exit of StdioClient.__aexit__ — normal, by Exception, or by cancellation injected at every await that is not inside a shielded cancel scope — has passed the terminate step unless the path established that no process is running, and on cancelled exits the terminate step that ran is shielded; the transport and context-manager wrappers delegate to it; (R3) __aexit__ lets no Exception of its own escape and returns False; (R4) the handler around open_process re-raises; (R5) the stdio transport constructs no success response. These are necessary conditions: the process table, reaping, file descriptors and wall-clock bounds are run-time facts of the OS and anyio and are not claimed. A shielded scope that carries its own deadline counts as a shield only if the deadline outlasts the whole kill ladder.",
    "note": "Static, partly N-level. Trusted: anyio cancel-scope semantics (a shielded scope is not cancelled from outside; fail_after raises TimeoutError at the with-exit), Process.terminate/kill deliver the signals. Not decided: no unreaped child / no leaked fd / total wall time under a hostile child.",
    "technique": "all-paths abstract interpretation with cancellation edges at every unshielded await, ordered events for the kill ladder, constant folding of the grace periods",
}
CHECKS["C02"] = {
    "text": "Shape-level decision for every emitter in the package, found by census not by list: all dict displays with a 'jsonrpc' key (17 today) and all envelope constructor/helper calls (resolved through wrappers) must have jsonrpc == '2.0', a key set that is exactly one of the four JSON-RPC shapes, an integer-constant error code with a string message, and a non-nullable id for requests and success responses on the path that builds them; the four envelope classes must declare Literal['2.0'], a required Union[int, str] id (none on the notification), str method, and the error class must reject non-int codes in a hook both backends run; the parser's kind decision (legacy unified class, then the field-presence cascade) is evaluated over the finite domain (id, method, result, error) ∈ {absent, null, value}^4 and must map each emitted shape to its own kind and reject both/neither; every transport serialiser passes exclude_none=True and no indent. (R5) An envelope class that overrides model_dump/model_dump_json may only filter absent top-level members; any rewriting of payload values (e.g. stripping nulls nested inside params/result) is reported.",
    "note": "Static. Not decided: value-level identity of id/params/result through pydantic-core/orjson for arbitrary JSON payloads (the one typing defect visible in repository code, the fallback's union coercion, is C09-R5).",
    "technique": "emitter census over the AST (dict displays + wrapper-inlined constructor calls) with path-literal nullability, model-table declarations, finite-domain evaluation of the parser's kind cascade",
}
CHECKS["C11"] = {
    "text": "Every exit of the per-message send routine is accounted for by all-paths abstract interpretation with computed helper summaries (the router is shown contained; the SSE helpers are summarised as delivers / may-deliver-nothing from their own paths): after the POST, a path with a request id must have delivered a server message or synthesised exactly one terminal message carrying the request's own id; error exits (status >= 400, parse failure, timeout, exception) synthesise exactly once; a branch whose only action may deliver nothing needs a fallback. The SSE line recognisers are evaluated by constant folding over the line classes of the event-stream grammar (data/event with and without the optional space, comment, id, retry) and must dispatch data-only events as the default type; a JSON array must be split before the single-message validator; the sender loop body lets no exception, break or return out (later requests are still processed); the session header is read from the attribute at send time and the attribute is updated from the response before the body is dispatched, by this routine only. Sequences compose because no state other than the session id survives an iteration. (R6) The SSE body is cut at the constant LF only with a trailing CR stripped per line (no computed separator, no splitlines), and the streaming reader skips nothing but empty chunks before appending to its buffer.",
    "note": "Static. Two known findings: the event-stream branches have no fallback when the body contains no response. Not decided: what a real server sends, real network faults, duplicate sends, and whether a delivered JSON object is a semantically valid message (server content).",
    "technique": "all-paths abstract interpretation with an explicit may-raise model and computed callee summaries; constant-folded grammar table for the SSE recognisers",
}
CHECKS["C12"] = {
    "text": "Decided on all paths: (R1) every successful return of SSETransport.__aenter__ carries a literal that the message endpoint was announced, the readiness wait is bounded by the configured timeout and every failure path runs the cleanup routine before raising; (R2) on the request path the pending-table insertion precedes the POST and every exit after it has removed the entry; (R3) over the 200 / 202 / other-status / exception branches each completed request makes exactly one routing call (the server's message or one synthesised error carrying the request's id), a cancelled wait routes nothing, and the 202 wait is bounded by the configured timeout; (R4) each resource attribute created on entry (two HTTP clients, two tasks, two stream send ends, the event-stream context) has its release in the cleanup routine, which __aexit__ calls unconditionally; (R5) a CancelledError handler that does not re-raise is the outermost handler of a task entry function or a named justified site; (R6) the event-stream buffer persists across chunks, only complete lines are cut at LF, no stateless decode is applied, and the line recogniser follows the event-stream grammar. The reader skips nothing but empty chunks before appending to its buffer and cuts at the constant LF only.",
    "note": "Static. Trusted: httpx aiter_text decodes incrementally; asyncio.wait_for bounds the wait. Not decided: the relative order of POST completion and event arrival (a duplicate answer arriving after the 200 body would be delivered twice), real network faults, and exactly-once under duplicate server sends.",
    "technique": "all-paths abstract interpretation with ordered events (register/post/pop/route), computed containment summary, release-pairing table, constant-folded grammar table",
}
CHECKS["C15"] = {
    "text": "Necessary conditions only (said plainly): that the same conversation yields the same observations over four I/O stacks cannot be decided statically. Decided, as sibling agreement between the carriers: (R1) in stdio, Streamable HTTP and legacy SSE the value handed to the message constructor is the parsed JSON object itself — a bare name bound to the JSON decoder's result, a parameter or a loop item — and no statement of the carrier assigns, deletes or mutates a member of an object that reaches the constructor; (R2) no envelope a carrier synthesises takes its id from a converted copy (str()/int()) of the request's id; (R3) every text codec a carrier names is UTF-8. Which constructor a carrier uses is tabulated in the evidence but is not an obligation.",
    "note": "Static, N-level. Breaking a rule breaks the property; satisfying all of them does not prove behavioural equivalence of the carriers (ordering across connections, httpx defaults, and server behaviour are run-time facts and are not claimed).",
    "technique": "sibling cross-check over the carriers: provenance and mutation rules on the inbound object, id provenance of synthesised envelopes, codec constants",
}

NOT_APPLICABLE = {f"C{i:02d}": PENDING for i in range(1, 21)}

# ---------------------------------------------------------------- additions of the round-3 session (appended to the texts above)
_ADD = {
    "C01": " Added: the object a return carries must be the value of `await <read stream>.receive()` of this call (a response kept from an earlier call cannot complete a later request).",
    "C03": " Added: `with move_on_after(…)` has an abandoned-body edge, so a notification write that can be given up silently is a path with zero notifications.",
    "C05": " Added: a non-blocking put on the main stream has a WouldBlock edge; what the router does on it (drop, defer to a task) is part of the routing obligation.",
    "C07": " Added: the constructor chain of both exception classes is total (no call or subscript on its arguments outside an isinstance guard) and stores .code from the code argument. The ERROR_MESSAGES obligations were removed: they demanded more than the property states.",
    "C09": " Added: R8 — the fallback's nested serialiser maps the elements of free-form lists/dicts one to one (no filter, no conditional skip, keys unchanged), because Pydantic applies exclude_none to declared fields only.",
    "C10": " Added: R4 — no construction/validation hook of a protocol model class, own or inherited from any package class (mixins included), stores into the instance, and no validator returns anything but its input.",
    "C12": " Added: the attribute whose truth __aenter__ takes for 'endpoint announced' is derived — every store to it is a falsy constant or sits in code reachable only from the event dispatch of the stream reader.",
    "C15": " Added: R4 — on the legacy SSE carrier every message parsed off the event stream is put on the read stream by the event-stream task itself; a hand-off to another task (future result, queue, spawned task) is a finding (one known finding on the unchanged tree, with demonstration).",
    "C16": " Added: R7 — between open_process and the return of __aenter__ there is no cancellable await whose cancellation edge does not reach the terminate step (only the entry of the task group just created is allowed).",
    "C18": " Added: R3 — the stdio client's per-request routing table is a map: inserted only by the public registration call under its id parameter, looked up/removed by the router only under the routed message's id, removed by a public deregistration call under its own parameter, swept only where each removal is under `open_receive_streams == 0`, otherwise touched only by shutdown.",
}
for _k, _v in _ADD.items():
    if _k in CHECKS and _v not in CHECKS[_k]["text"]:
        CHECKS[_k]["text"] += _v

# rules added in round 4 of the seeding experiment (DESIGN.md 8.12)
_ADD4 = {
    "C01": " Added: R5 — every path that completes a receive() and goes round the wait loop again carries a test the awaited response cannot pass (other id, a method, a list, nothing received); `scope.cancel_called` of a move_on_after block is not evidence that nothing was received.",
    "C03": " Added: R4 is universal — on every returning path of a tracker that made the handshake the answer's version is recorded, unless the path denies that there is anything to record into.",
    "C05": " Added: R2, lifetime — what carries text between reads (buffer, decoder, framing object) is created by the reader run or by __aenter__, not only by the constructor: a second session on the same client starts empty.",
    "C06": " Added: R5 — the caller's write stream is the only lasting sending handle on the outgoing stream (no clone kept outside a `with` item), so closing it is what ends the writer and closes stdin.",
    "C09": " Added: R9 — class-level caches of the fallback validator are keyed by class identity (several model class names are defined twice).",
    "C10": " Added: R2 — the fallback dump leaves a member of the instance dict out only under a caller option (include / exclude / exclude_none), decided structurally on every skipping path of its loop or comprehension.",
    "C11": " Added: R5, order — after the session attribute is stored into the header mapping nothing that can write the same key happens before the POST, and the POST sends that mapping; R3 also in path form (the single-message validator is reached only with a value known not to be a list).",
    "C13": " Added: R3 decides the batch gate also over the length of the array (the empty batch).",
    "C14": " Changed: R3 accepts move_on_after as well as fail_after as the bound of one poll interval.",
    "C16": " Added: R8 — no task started in the client's task group, nor a method it calls, suspends inside a shielded cancel scope without a constant deadline, switches a scope to shielded, or catches the cancellation without re-raising it (otherwise the task-group exit of __aexit__ is not prompt).",
    "C17": " Added: R4 — every further serialiser of fast_json with an arm per backend ends its result alike on all arms (including the arm taken when the fast backend refuses a value) for the same flag arguments; the rule decides its own built-in counter-example on every run.",
    "C18": " Added: R4 — a waiter passes a message taken off the shared stream over only for a reason its own response cannot have (same path rule as C01-R5).",
    "C19": " Added: R5 — each return of the listing is a mapping made for this call from the store; constructor state besides the store is tolerated and has to be answered for by whichever rule meets it.",
    "C20": " Added: R6 — every value open_process can get for stderr is the null device or an inherited stream, or (for a pipe, also anyio's default) a task of its own in the client's task group reads it.",
}
for _k, _v in _ADD4.items():
    if _k in CHECKS and _v not in CHECKS[_k]["text"]:
        CHECKS[_k]["text"] += _v

# rules added in round 5 (DESIGN.md 8.15)
_ADD5 = {
    "C02": " Added: R6 — the message builders hand the caller's payload through to the envelope (only dict/list copies on the way; a codec round trip is a finding); R1 also requires that the envelope classes' model_config rewrites nothing.",
    "C05": " Added: R4 — the envelope models the reader validates with set no model_config entry that rewrites strings; the router is found by role and its delivery helpers must deliver on every path (a full main stream included).",
    "C06": " Added: R3 — under the no-Pydantic backend the nested serialiser keeps the elements of free-form dict/list payload values one to one (shared with C09-R8).",
    "C09": " Added: R10 — a non-re-raising handler around a model validation catches both backends' validation error classes or neither; R11 — no model_config entry that only Pydantic reads and that rewrites or restricts values.",
    "C10": " Added: R5 — the only Field value constraints on protocol models are the MCP schema's own (a frozen table of the four 0‥1 priorities); R4 also covers value-rewriting model_config entries.",
    "C11": " Added: R7 — an early return before the POST is decided by the message alone, never by state the transport keeps across requests.",
    "C13": " Added: R3 — the batching mode consulted for a message is read from the client when the message is processed, not handed in by the caller.",
    "C15": " Added: R5 — on the legacy SSE carrier the waiter for the event-stream answer is registered before the POST (C12-R2's obligation read for the sequence clause: otherwise a synthesised timeout error follows the real answer).",
    "C16": " Added: R4 — open_process is given an argv list on every path (a command string goes through the shell, which always starts).",
    "C17": " Added: R1 — every handler of the fast backend's call hands the same input to the stdlib backend; none re-raises.",
    "C18": " Added: R5 — the stdio router delivers every message with an id on the shared stream exactly once on every path, a full stream included (C05-R4's obligation read for the waiters).",
    "C19": " Added: R2 — on every returning path of the initialize handler the version given to create_session is the value the answer carries under protocolVersion.",
    "C20": " Added: R7 — a timeout an entry point takes from the parsed configuration entry is converted with float() before it is handed to the connection or the handshake.",
}
for _k, _v in _ADD5.items():
    if _k in CHECKS and _v not in CHECKS[_k]["text"]:
        CHECKS[_k]["text"] += _v

_ADD6 = {
    "C01": " Added: R2 also requires that an id the library chooses itself comes from uuid4 (a process-wide counter repeats across sessions and collides with caller-chosen ids).",
    "C02": " Added: R3 classifies by the presence of a member, never by its truthiness (`result: 0`, `error: {}` are present).",
    "C03": " Added: the rejecting branch of R2 ends only in VersionMismatchError (nothing that can raise something else stands before the raise); the caller's list is recognised by its members (copies, sets of it), and a lookup in the library's list on a path where the caller gave one is a finding.",
    "C04": " Added: R3 — the client-side clause of the handshake: C03's proposal and acceptance obligations are re-issued here.",
    "C08": " Added: R2's fallibility model covers package functions that are not shown to be contained and method calls on values of unknown shape made between reading the request and the handler call.",
    "C09": " Added: R12 — the no-Pydantic backend treats undeclared members the way the Pydantic one does for every protocol model (kept under extra='allow'); it does not drop or reject them by a per-class mode the other backend does not have.",
    "C10": " Added: R2 requires the fallback backend to keep undeclared members for every model class (no per-class extra mode that drops them).",
    "C11": " Added: R2 — a blank line ends the event: event name and data lines are both reset there in every copy of the line reader, whether or not data was seen.",
    "C12": " Added: R6 also requires that a blank line resets the pending event name in the SSE reader (shared with C11-R2); R7 — a parsed answer for a pending request is delivered: no path between the lookup of the pending entry and the send drops it because of transport-kept state.",
    "C15": " Added: R6 — outbound order: the sender loops await each outgoing message in turn (no task per message, which lets a later request overtake an earlier one).",
    "C17": " Added: R2 reads the indent request by value: folded under indent=None and under no keyword the orjson option mask is 0, and nothing else selects indentation.",
    "C18": " Added: R6 — ids the library chooses are uuid4-derived (shared with C01-R2), so two sessions in one process never share an id sequence.",
    "C20": " Added: R8 — every per-server value used in a server's launch and handshake (parameters, timeout) is established in that server's own loop iteration; nothing carries over from an earlier server.",
}
for _k, _v in _ADD6.items():
    if _k in CHECKS and _v not in CHECKS[_k]["text"]:
        CHECKS[_k]["text"] += _v

_ADD7 = {
    "C01": " Added: R3 — nothing without a bound of its own is awaited in an except/finally arm around the deadline scope (an unbounded write after the deadline has passed holds the TimeoutError back).",
    "C02": " Added: R3 also treats a null `result` as present (`data.get('result') is not None` is a finding) and the kind table reads null tests; R6 — an id the caller gave a request builder (0 and \"\" included) is the id of the envelope; R1's error-class hook is read by paths, not by text.",
    "C03": " Added: R6 — the version→mode function the tracker calls is the calendar comparison with 2025-06-18 (the region obligations of C13-R1, lifted; skipped with a note where C13's rules cannot read the function).",
    "C04": " Added: R4 — a version constant that some function rebinds at run time is not used on the server side through an import-time copy, and is rebound from the list put in force by the same function.",
    "C05": " Added: R5 — the parser the reader hands each decoded object to classifies the four shapes by presence (the obligations of C02-R3, lifted).",
    "C06": " Added: R1 — one line, one write: a stdin write in a loop of its own (a line written in pieces) is a finding; writes through a local that only names the pipe are recognised.",
    "C07": " Added: R5 — nothing in the package changes NON_RETRYABLE_ERRORS / RETRYABLE_ERRORS after import (in-place operators, mutating methods, element stores, global rebinding — through the name or a local alias).",
    "C08": " Added: R5 — what a registered tool/resource callable returns reaches the response only rendered to text (str / json.dumps / f-string), directly or through a server method that itself only renders it.",
    "C09": " Added: R13 — the fallback resolves annotations (get_type_hints) in the constructor's call tree, not only at class creation (forward-referenced members would stay raw dicts).",
    "C10": " Added: R6 — no protocol model declares a mutable value (a constructed object, a list/dict/set display) as a plain default unless the fallback constructor copies defaults; R1 justifies untyped dumps by use (logged only / carrier envelope) and follows renamed units.",
    "C11": " Added: R3 — no delivery call is short-circuited by a flag carried over from earlier members of the same body (`flag = flag or await route(x)`).",
    "C13": " Added: R3 — when the batch is iterated through a filtering view (generator or comprehension in a package helper) the view yields members unchanged and in order and keeps every member of a fixed set of valid messages (ids 0 and \"\", null and falsy results), read off without running anything.",
    "C14": " Added: R1 shares the post-deadline await rule with C01-R3; R3 accepts a poll bound handed down from send_message's own validated parameter.",
    "C15": " Added: R7 — inbound order on stdio: the router delivers every message itself before returning (the routing obligations of C05-R4, lifted).",
    "C16": " Added: R2 — an exit skipped under a done-already latch is excused only if __aenter__ clears the latch before the spawn on every path.",
    "C17": " Added: R5 — whatever the codec keeps at module level between calls and stores from a call's options is keyed by the option values, not just their names; R1 accepts `JSONEncoder(**kwargs).encode(obj)` as the stdlib arm.",
    "C18": " Added: R7 — a response is not lost because something else in the same read could not be parsed (the containment obligations of C05-R3, lifted).",
    "C19": " Added: R4 follows the caller's limit under every name it is given: a local standing for it must be the parameter itself except on the arm where the caller gave none.",
    "C20": " Added: R8 also flags a value that only another per-server loop assigns (what that loop's last iteration left); the typed seam rule skips untyped local helpers that were read at their call sites.",
}
for _k, _v in _ADD7.items():
    if _k in CHECKS and _v not in CHECKS[_k]["text"]:
        CHECKS[_k]["text"] += _v

_ADD8 = {
    "C03": " Added: R1 — the first supported version is proposed only on a path that established that no preference was given or that the preferred version is not in the list.",
    "C04": " Added: R5 — between reading the requested version and recording the session nothing in the initialize handler can raise (package functions called there must be contained; logging and str/f-string are benign).",
    "C05": " Added: R1 — the incremental decoder is neither reset nor replaced inside the read loop (its pending bytes belong to the line still arriving).",
    "C06": " Added: R1 — methods of the client that do the write for the writer loop are summarised: one stdin write per call, never in a loop (a retried or sliced write).",
    "C07": " Added: R3 — text that comes from the server's `message` is never the template of a `%` / `.format` operation; a message assembled in a mapping, or replaced by the standard text when the server sent none, is followed.",
    "C08": " Added: R4 — nothing on the unknown-name arm of tools/call and resources/read can raise before the -32602 answer.",
    "C09": " Added: R14 — no module of the package binds a subscripted typing alias at module level under the name of a class the models are typed by, as long as the fallback resolves annotations by bare name over all loaded modules.",
    "C11": " Added: R3 — a work list that walks an array body takes and puts back items so that the members come out in the order the server wrote them.",
    "C12": " Added: R8 — inbound messages are delivered by an awaited send where they were parsed; a non-blocking send whose WouldBlock arm keeps the message for later is a finding.",
    "C15": " Added: R1 — work lists keep the members' order (shared with C11-R3); R2 — ids are compared like with like: a comparison that converts one side only against an id as it was received (followed through parameters and call sites) is a finding.",
}
for _k, _v in _ADD8.items():
    if _k in CHECKS and _v not in CHECKS[_k]["text"]:
        CHECKS[_k]["text"] += _v

_ADD9 = {
    "C04": " R1 also reads the membership test written out as a search (a loop over the list, or its rows unrolled): `True` only where the value was found equal to a member, `False` only where it differs from every member.",
    "C06": " R2: a line terminator whose origin cannot be read is undecided (exit 2), a text derived from the caller's data is a finding.",
    "C07": " R4 — a predicate helper that only serves other boolean helpers is read with its callers.",
    "C08": " R3 accepts `return await handler(…)` (the handler's answer handed on as it is); R4 reads the error member through a display chosen on two arms and requires every registry lookup to sit on a path that established membership.",
    "C10": " R2/R3 read the fallback's dump through its own helpers (a one-loop generator over the instance dict is read as that loop; nested dumps that receive the running call's options as `**options` must be given its `by_alias`).",
    "C12": " Added to R5: a CancelledError absorbed in the per-message routine of the sender must be the request's own — every non-raising exit of the handler has established that the sender task itself is not being cancelled (defect repaired in the repository, see known_findings.json).",
    "C14": " The cancellation check is recognised under a local name that holds it, and as the bound method of a guard object read as closures.",
    "C15": " R4 names the receiver of a hand-over by what it is (an entry of a table kept on the transport) whatever the local is called and whatever sentinel it starts as.",
    "C19": " R1 reads `''.join(text.split('-'))` as the replace it is; R2/R3 accept a clock the embedding program may supply through the constructor (the wall clock when none is given), the id read back from the stored record, EAFP look-ups, and a deletion loop that counts as it goes.",
}
for _k, _v in _ADD9.items():
    if _k in CHECKS and _v not in CHECKS[_k]["text"]:
        CHECKS[_k]["text"] += _v

_ADD10 = {
    "C02": " R1 reads each envelope's configuration together with what it inherits from the Pydantic-branch base class (v2 `model_config` and v1 `class Config`).",
    "C03": " Added: R7 — the handshake functions leave the request id to send_message (fresh uuid4) or hand on their own caller's: an id fixed by the library lets a late answer to an abandoned attempt be taken for this one's.",
    "C06": " R2 also demands that the message itself reaches json.dumps only on a path where `isinstance(message, str)` is false (an exact-type test lets a str subclass through), and tests a trimmed copy of the caller's text on itself. Added: R6 — a writer that gathers lines in an accumulator never writes another line while the accumulator may hold some (one-bit forward analysis over the writer, sa/order.py).",
    "C08": " R2 extended: the envelope builders the dispatcher answers through (create_error_response / create_response and what wraps them) call nothing that can raise besides the envelope constructor.",
    "C09": " R1 extended: where `__post_init__` is reached under Pydantic only through `model_post_init`, that method stores nothing into the object before it delegates (the two backends run the check on the same values).",
    "C10": " Added: R7 — envelope classes that override model_dump/model_dump_json never rewrite payload values (lifted from C02-R5). Model configurations include what the base class sets.",
    "C11": " R6 extended: the body is not cut into lines by httpx's `aiter_lines()` (universal newlines); R2 reads recognisers written over (field, value) pairs as well.",
    "C12": " R6 extended: the event stream is not cut into lines by `aiter_lines()`; the blank-line rule also reads recognisers over (field, value) pairs, through methods and closures of an assembler object.",
    "C13": " Added: R4 — until a version is negotiated the stdio reader is unversioned: its batch processor is built without a version and no code of the package passes one to the client's constructor.",
    "C14": " R5 extended: a progress token the request can go out with passes the wait's own test of it (a caller's 0 or \"\" kept while the wait tests truthiness is a finding).",
    "C15": " Added: R8 — on the event-stream carriers a blank line ends the event and clears its name on every path (the obligations of C11-R2 / C12-R6).",
    "C16": " Added: R9 — a file, pipe or socket the client opens for itself and keeps on the object is closed on every path of __aexit__'s outermost finally.",
    "C17": " Added: R6 — what the stdio writer frames is one line (lifted from C06-R2).",
    "C18": " R6 extended: no function of the package chooses a request id for its caller.",
    "C19": " R2 extended: create_session is given the request's clientInfo member itself, not a rendering of it through a model.",
    "C20": " R7 extended: load_config raises no error of its own on a path conditioned on the entry's timeout (float() alone decides which spellings are numbers); R4 identifies the unknown-name path by the entry itself.",
}
for _k, _v in _ADD10.items():
    if _k in CHECKS and _v not in CHECKS[_k]["text"]:
        CHECKS[_k]["text"] += _v

_ADD11 = {
    "C01": " Added: R6 — the routine that turns the matched response into the call's result returns only on a path that established that the message has no error member (`is None`; an empty error object is still an error answer).",
    "C02": " Added: R7 — an emitting helper of protocol/messages does not pass a caller's number through a float-typed model field on its way into the params.",
    "C04": " Added: R6 — the session record type has no default for its version and every construction of it inside the package names the version.",
    "C05": " R4 also covers the histories in which a side channel's receiver has been closed by its owner: the put raises and the message must still reach the main stream.",
    "C06": " Added: R7 — the codec's dumps reaches its standard-library arm whenever the fast backend raises (lifted from C17-R1/R4).",
    "C07": " R5 follows the tables through annotated locals and through parameters whose default is the table.",
    "C11": " R5 requires the recorded session id to be the response header's value itself; R2 adds that no parsed object is filtered by the truthiness of result / error / id / params.",
    "C13": " Added: R5 — inside the stdio client only set_protocol_version sets the batch processor's version (the reader and router never do).",
    "C15": " Added: R9 — no carrier judges a parsed wire object by the truthiness of result / error / id / params.",
    "C16": " Added: R10 — every path of StdioTransport.__aexit__ that may hold a client awaits the client's __aexit__.",
    "C17": " Added: R7 — the reader's incremental decoder is never reset or replaced between reads (lifted from C05-R1).",
    "C19": " Added: R7 — on every path of the dispatcher that invokes a handler under a session id, update_activity(session_id) has been called first (requests and notifications alike).",
    "C20": " Added: R9 — StdioParameters' model configuration, with what it inherits, rewrites or refuses nothing.",
}
for _k, _v in _ADD11.items():
    if _k in CHECKS and _v not in CHECKS[_k]["text"]:
        CHECKS[_k]["text"] += _v

_COMMON_NOTE = " Reading of the sources: equivalent idioms are normalised on the parsed tree (sa/normalize.py), re-exports are followed, and functions that are not in the reference decomposition (sa/units_snapshot.json) are read at their call sites (sa/inline.py); if that reading is undecided the sources are read as written, where new helpers are opaque calls: that second reading can clear the property or stay undecided, and a finding only it produces is reported as undecided (exit 2) together with what the first reading could not read."
for _k in CHECKS:
    if _COMMON_NOTE not in CHECKS[_k]["note"]:
        CHECKS[_k]["note"] += _COMMON_NOTE
