"""Static-analysis engine for the chuk-mcp properties (see /verif/DESIGN.md).

Nothing in here imports or executes the repository: every module works on the
syntax trees of /repo/src/chuk_mcp as they are on disk when a check starts.
"""
