"""Module-level tables that behaviour depends on (code sets, version lists) stay what their definition says.

`table_mutations` lists every construct in the package that changes such an object after import: an in-place operator or a
mutating method applied to the name, to the module attribute, or to a local that is merely another name for it
(`codes = NON_RETRYABLE_ERRORS; codes |= extra`), an element store/delete, or a `global` rebinding.  A copy
(`set(TABLE)`, `TABLE.copy()`, `list(TABLE)`, `TABLE | other`) is a new object and may be changed freely."""
from __future__ import annotations

import ast
from typing import List, Optional, Set, Tuple

from .model import FuncInfo, Project, walk_local

MUTATORS = {"add", "update", "discard", "remove", "clear", "pop", "popitem", "append", "extend", "insert", "sort", "reverse", "setdefault", "__setitem__", "__delitem__", "__ior__", "__iadd__",
            "difference_update", "intersection_update", "symmetric_difference_update"}


def _names_for(P: Project, modname: str, owner: str, names: Set[str]) -> dict:
    """local spelling -> table name, for module `modname` (the owner itself, `from owner import T [as t]`)"""
    out = {}
    m = P.modules[modname]
    if modname == owner:
        for n in names:
            out[n] = n
    for local, (tm, tn) in m.imports.items():
        if tn is None:
            continue
        kind, obj = P.resolve_name(modname, local)
        if kind == "const" and obj[0].name == owner and tn in names:
            out[local] = tn
        elif tm == owner and tn in names:
            out[local] = tn
    return out


def _module_aliases(P: Project, modname: str, owner: str) -> Set[str]:
    """names under which `modname` knows the owner module itself (`import pkg.errors as errors`, `from pkg import errors`)"""
    out = set()
    for local, (tm, tn) in P.modules[modname].imports.items():
        if tn is None and tm == owner:
            out.add(local)
        elif tn is not None and f"{tm}.{tn}" == owner:
            out.add(local)
    return out


def table_mutations(P: Project, owner: str, names: Set[str]) -> List[Tuple[str, int, str, str]]:
    """(module rel path, line, function qual or '<module>', description) for each construct that changes one of the tables"""
    found: List[Tuple[str, int, str, str]] = []
    for modname, m in P.modules.items():
        direct = _names_for(P, modname, owner, names)
        mod_alias = _module_aliases(P, modname, owner)
        if not direct and not mod_alias:
            continue

        def table_of(e: ast.AST, aliases: dict) -> Optional[str]:
            if isinstance(e, ast.Name):
                return aliases.get(e.id) or direct.get(e.id)
            if isinstance(e, ast.Attribute) and isinstance(e.value, ast.Name) and e.value.id in mod_alias and e.attr in names:
                return e.attr
            return None

        scopes: List[Tuple[str, ast.AST]] = [(f.qual, f.node) for f in P.funcs_in(modname)]
        if modname != owner:
            scopes.append(("<module>", m.tree))
        for qual, node in scopes:
            body_nodes = list(walk_local(node)) if not isinstance(node, ast.Module) else [x for s in node.body if not isinstance(s, (ast.FunctionDef, ast.AsyncFunctionDef, ast.ClassDef)) for x in ast.walk(s)]
            # locals that are merely another name for a table (never rebound to anything else)
            aliases: dict = {}
            stores: dict = {}
            for x in body_nodes:
                if isinstance(x, ast.Name) and isinstance(x.ctx, ast.Store):
                    stores[x.id] = stores.get(x.id, 0) + 1
            shadowed = {n for n in stores if n in direct}  # a local of the same name is not the table
            for x in body_nodes:
                if isinstance(x, ast.Assign) and len(x.targets) == 1 and isinstance(x.targets[0], ast.Name):
                    t = table_of(x.value, {})
                    if t is not None and x.targets[0].id not in direct:
                        aliases[x.targets[0].id] = t
                if isinstance(x, ast.AnnAssign) and isinstance(x.target, ast.Name) and x.value is not None:
                    t = table_of(x.value, {})
                    if t is not None and x.target.id not in direct:
                        aliases[x.target.id] = t  # (`permanent: AbstractSet[int] = NON_RETRYABLE_ERRORS`)
            # a parameter whose default *is* the table (`def f(code, permanent=NON_RETRYABLE_ERRORS)`): without the argument the
            # parameter is one more name for the module-level object, and `permanent |= extra` changes it for the whole process
            if isinstance(node, (ast.FunctionDef, ast.AsyncFunctionDef)):
                a_ = node.args
                pos_ = a_.posonlyargs + a_.args
                for p_, d_ in list(zip(pos_[len(pos_) - len(a_.defaults):], a_.defaults)) + [(p_, d_) for p_, d_ in zip(a_.kwonlyargs, a_.kw_defaults) if d_ is not None]:
                    t = table_of(d_, {})
                    if t is not None:
                        aliases[p_.arg] = t
                        shadowed.discard(p_.arg)
            globals_ = {n for x in body_nodes if isinstance(x, ast.Global) for n in x.names}
            for x in body_nodes:
                t = None
                what = None
                if isinstance(x, ast.AugAssign):
                    tg = x.target
                    if isinstance(tg, ast.Name) and tg.id in shadowed and tg.id not in globals_ and tg.id not in aliases:
                        continue
                    t = table_of(tg, aliases)
                    if t is None and isinstance(tg, ast.Subscript):
                        t = table_of(tg.value, aliases)
                    what = f"`{ast.unparse(x)[:60]}` changes {t} in place"
                elif isinstance(x, ast.Call) and isinstance(x.func, ast.Attribute) and x.func.attr in MUTATORS:
                    t = table_of(x.func.value, aliases)
                    what = f"`{ast.unparse(x)[:60]}` changes {t} in place"
                elif isinstance(x, ast.Subscript) and isinstance(x.ctx, (ast.Store, ast.Del)):
                    t = table_of(x.value, aliases)
                    what = f"`{ast.unparse(x)[:60]}` stores into {t}"
                elif isinstance(x, ast.Assign) and modname == owner and qual != "<module>":
                    for tg in x.targets:
                        if isinstance(tg, ast.Name) and tg.id in names and tg.id in globals_:
                            t = tg.id
                            what = f"`{ast.unparse(x)[:60]}` rebinds the module-level {t}"
                if t is not None:
                    found.append((m.rel, getattr(x, "lineno", 0), qual, what))
    return found
