"""Runs mypy (from the repository's own /venv) as a library over a source tree and
dumps type facts at the watched call sites as JSON on stdout.

usage: python typed_worker.py <src_root>    (src_root contains chuk_mcp/)
"""
import json
import os
import sys


WATCH_MEMBERS = {"model_dump", "model_dump_json"}
WATCH_NAMES = {"stdio_client", "StdioClient", "StdioTransport", "load_config", "stdio_client_with_initialize", "send_initialize", "open_process"}
SKIP = {"node", "info", "names", "defn", "type", "unanalyzed_type", "original_def", "impl", "analyzed", "partial_fallback", "type_guard", "type_is"}


def main():
    src_root = sys.argv[1]
    os.chdir(src_root)
    try:
        from mypy import build
        from mypy.find_sources import create_source_list
        from mypy.nodes import CallExpr, FuncDef, MemberExpr, NameExpr, Node
        from mypy.options import Options
        import mypy.version
    except Exception as e:  # mypy not installed
        print(json.dumps({"error": f"mypy unavailable: {e}"}))
        sys.stdout.flush()
        os._exit(3)
    opts = Options()
    opts.preserve_asts = True
    opts.export_types = True
    opts.incremental = False
    opts.cache_dir = os.devnull
    opts.check_untyped_defs = True
    opts.ignore_missing_imports = True
    opts.python_version = (3, 12)
    opts.mypy_path = ["."]
    opts.namespace_packages = False
    srcs = create_source_list(["chuk_mcp"], opts)
    res = build.build(srcs, opts)
    types = res.types

    def walk(node, seen, fn):
        if id(node) in seen:
            return
        seen.add(id(node))
        if isinstance(node, FuncDef):
            fn = node.name
        yield node, fn
        for name in dir(type(node)):
            if name.startswith("_") or name in SKIP:
                continue
            try:
                v = getattr(node, name)
            except Exception:
                continue
            if isinstance(v, Node):
                yield from walk(v, seen, fn)
            elif isinstance(v, (list, tuple)):
                for x in v:
                    if isinstance(x, Node):
                        yield from walk(x, seen, fn)
                    elif isinstance(x, (list, tuple)):
                        for y in x:
                            if isinstance(y, Node):
                                yield from walk(y, seen, fn)

    calls = []
    for modname, f in res.files.items():
        if not modname.startswith("chuk_mcp"):
            continue
        rel = os.path.relpath(f.path, src_root) if os.path.isabs(f.path) else f.path
        for node, fn in walk(f, set(), None):
            if not isinstance(node, CallExpr):
                continue
            cal = node.callee
            if isinstance(cal, MemberExpr) and cal.name in WATCH_MEMBERS:
                rt = types.get(cal.expr)
                calls.append({"kind": "member", "module": modname, "file": rel, "line": node.line, "col": node.column, "function": fn, "name": cal.name,
                              "receiver_type": str(rt) if rt is not None else None, "arg_names": [a for a in node.arg_names]})
            if isinstance(cal, MemberExpr) and cal.name in WATCH_MEMBERS:
                # the receiver as written, so that a rule can tell a parameter of the enclosing function from other values
                from mypy.nodes import NameExpr as _NE

                calls[-1]["receiver_name"] = cal.expr.name if isinstance(cal.expr, _NE) else None
            if isinstance(cal, NameExpr) and (getattr(cal, "fullname", "") or "").startswith("chuk_mcp."):
                # calls of the package's own module-level functions: argument types, for one step of call-site typing
                calls.append({"kind": "pkgcall", "module": modname, "file": rel, "line": node.line, "function": fn, "name": cal.name, "fullname": cal.fullname,
                              "arg_types": [str(types.get(a)) if types.get(a) is not None else None for a in node.args], "arg_names": list(node.arg_names)})
            name = None
            if isinstance(cal, NameExpr):
                name = cal.name
            elif isinstance(cal, MemberExpr):
                name = cal.name
            if name in WATCH_NAMES:
                calls.append({"kind": "call", "module": modname, "file": rel, "line": node.line, "col": node.column, "function": fn, "name": name,
                              "arg_types": [str(types.get(a)) if types.get(a) is not None else None for a in node.args], "arg_names": list(node.arg_names),
                              "result_type": str(types.get(node)) if types.get(node) is not None else None})
    out = {"mypy": mypy.version.__version__, "calls": calls, "errors": [e for e in res.errors if "[arg-type]" in e or "[call-arg]" in e or "[attr-defined]" in e or "[misc]" in e][:400], "n_errors": len(res.errors), "files": len(res.files)}
    print("@@FACTS@@" + json.dumps(out))
    sys.stdout.flush()
    os._exit(0)


if __name__ == "__main__":
    main()
