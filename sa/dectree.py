"""Decision cascades decided on a finite abstract domain.

A *region* maps atom texts (sub-expressions after term substitution, e.g.
`int(protocol_version.split('-')[0])` or `'id' in data`) to abstract values:
concrete constants, or `Cell`s of an interval partition of the integers built
from every constant the code or the oracle compares that atom with.  Since the
code touches the atoms only through comparisons with constants, every
comparison has the same truth value for all concrete integers of a cell, so
interpreting the cascade once per region covers every concrete input.

No repository code is executed: tests are evaluated over the abstract values by
the small evaluator below, and anything outside its fragment raises
`AnalysisError` (exit 2).
"""
from __future__ import annotations

import ast
import itertools
from dataclasses import dataclass
from typing import Any, Dict, Iterable, List, Optional, Tuple

from .flow import Out
from .model import AnalysisError
from .paths import PathAnalysis, PState, subst

NEG_INF = float("-inf")
POS_INF = float("inf")


@dataclass(frozen=True)
class Cell:
    """Either the single integer `lo` (point) or the open interval (lo, hi)."""

    lo: float
    hi: float
    point: bool

    def __repr__(self) -> str:
        if self.point:
            return f"={int(self.lo)}"
        lo = "-inf" if self.lo == NEG_INF else str(int(self.lo))
        hi = "+inf" if self.hi == POS_INF else str(int(self.hi))
        return f"({lo},{hi})"

    def rel(self, c) -> Optional[int]:
        """-1 / 0 / +1 if every integer of the cell is < / == / > c, else None."""
        if self.point:
            return (self.lo > c) - (self.lo < c)
        if c <= self.lo:
            return 1
        if c >= self.hi:
            return -1
        return None

    def empty(self) -> bool:
        return (not self.point) and self.hi - self.lo <= 1


def partition(consts: Iterable[int]) -> List[Cell]:
    cs = sorted(set(consts))
    cells: List[Cell] = []
    prev = NEG_INF
    for c in cs:
        cells.append(Cell(prev, c, False))
        cells.append(Cell(c, c, True))
        prev = c
    cells.append(Cell(prev, POS_INF, False))
    return [c for c in cells if not c.empty()]


class Undecided(Exception):
    pass


def _cmp(a, op, b) -> bool:
    if isinstance(a, tuple) and isinstance(b, tuple):
        # lexicographic
        for x, y in zip(a, b):
            r = _rel(x, y)
            if r is None:
                raise Undecided(f"{x} vs {y}")
            if r != 0:
                return _from_rel(r, op)
        r = (len(a) > len(b)) - (len(a) < len(b))
        return _from_rel(r, op)
    if isinstance(op, (ast.In, ast.NotIn)):
        if isinstance(b, (set, frozenset, list, tuple, dict)) and not isinstance(a, Cell):
            res = a in b
            return res if isinstance(op, ast.In) else not res
        raise Undecided("membership")
    if isinstance(op, (ast.Is, ast.IsNot)):
        if isinstance(a, Cell) or isinstance(b, Cell):
            res = False  # an int is never None / a singleton we compare with
            if b is None or a is None:
                return res if isinstance(op, ast.Is) else not res
            raise Undecided("is")
        res = a is b or (a == b and type(a) is type(b) and isinstance(a, (bool, type(None))))
        return res if isinstance(op, ast.Is) else not res
    r = _rel(a, b)
    if r is None:
        raise Undecided(f"{a!r} {type(op).__name__} {b!r}")
    return _from_rel(r, op)


def _rel(a, b) -> Optional[int]:
    if isinstance(a, Cell) and isinstance(b, (int, float)) and not isinstance(b, bool):
        return a.rel(b)
    if isinstance(b, Cell) and isinstance(a, (int, float)) and not isinstance(a, bool):
        r = b.rel(a)
        return None if r is None else -r
    if isinstance(a, Cell) or isinstance(b, Cell):
        return None
    try:
        return (a > b) - (a < b)
    except TypeError:
        if a == b:
            return 0
        raise Undecided(f"{a!r} ? {b!r}")


def _from_rel(r: int, op) -> bool:
    return {
        ast.Eq: r == 0,
        ast.NotEq: r != 0,
        ast.Lt: r < 0,
        ast.LtE: r <= 0,
        ast.Gt: r > 0,
        ast.GtE: r >= 0,
    }[type(op)]


class AbstractEval:
    def __init__(self, region: Dict[str, Any], canon=None, def_of=None):
        self.region = region
        self.canon = canon  # optional: maps a definition-site term to the text of the atom it denotes
        self.def_of = def_of  # optional: definition-site term → the expression assigned there

    def ev(self, node: ast.AST) -> Any:
        # `k in d.keys()` is `k in d`
        if isinstance(node, ast.Compare) and len(node.ops) == 1 and isinstance(node.ops[0], (ast.In, ast.NotIn)):
            c0 = node.comparators[0]
            if isinstance(c0, ast.Call) and isinstance(c0.func, ast.Attribute) and c0.func.attr == "keys" and not c0.args and not c0.keywords:
                node = ast.Compare(left=node.left, ops=node.ops, comparators=[c0.func.value])
        txt = ast.unparse(node)
        if txt in self.region:
            return self.region[txt]
        if self.canon is not None and isinstance(node, ast.Name):
            c = self.canon(node.id)
            if c is not None and c in self.region:
                return self.region[c]
        if isinstance(node, ast.Constant):
            return node.value
        if isinstance(node, ast.JoinedStr):
            return "<text>"  # a formatted string: some non-empty text (truthy, not None)
        if isinstance(node, ast.Name) and self.def_of is not None:
            d = self.def_of(node.id)
            if d is not None and not (isinstance(d, ast.Name) and d.id == node.id):
                return self.ev(d)
        if isinstance(node, ast.UnaryOp):
            if isinstance(node.op, ast.Not):
                return not self.truth(node.operand)
            if isinstance(node.op, ast.USub):
                v = self.ev(node.operand)
                if isinstance(v, (int, float)):
                    return -v
        if isinstance(node, ast.BoolOp):
            if isinstance(node.op, ast.And):
                for v in node.values:
                    if not self.truth(v):
                        return False
                return True
            for v in node.values:
                if self.truth(v):
                    return True
            return False
        if isinstance(node, ast.Compare):
            left = self.ev(node.left)
            for op, comp in zip(node.ops, node.comparators):
                right = self.ev(comp)
                if not _cmp(left, op, right):
                    return False
                left = right
            return True
        if isinstance(node, (ast.Tuple, ast.List)):
            return tuple(self.ev(e) for e in node.elts)
        if isinstance(node, ast.IfExp):
            return self.ev(node.body) if self.truth(node.test) else self.ev(node.orelse)
        raise Undecided(txt)

    def truth(self, node: ast.AST) -> bool:
        v = self.ev(node)
        if isinstance(v, Cell):
            r = v.rel(0)
            if r is None:
                raise Undecided(f"truth of {v}")
            return r != 0
        return bool(v)


class Cascade(PathAnalysis):
    """Interprets a function under one region: every test is decided by the
    abstract evaluator, so exactly the feasible branch is followed."""

    fallible = False
    prune = False

    def __init__(self, fn_node, region: Dict[str, Any], canon=None):
        super().__init__(fn_node)
        self.aev = AbstractEval(region, (lambda term: canon(term, self.defs)) if canon is not None else None, def_of=lambda term: self.defs.get(term, ("", None))[1])

    def cond(self, state: PState, test, pol: bool):
        t = subst(test, state)
        try:
            v = self.aev.truth(t)
        except Undecided as e:
            raise AnalysisError(
                f"decision test `{ast.unparse(test)}` (as `{ast.unparse(t)[:100]}`) at line {getattr(test, 'lineno', '?')} is outside the decidable fragment: {e}"
            )
        return [state] if v == pol else []

    def value(self, state: PState, node: Optional[ast.AST]):
        if node is None:
            return None
        t = subst(node, state)
        try:
            return self.aev.ev(t)
        except Undecided:
            return ("<opaque>", ast.unparse(t)[:80])


def decide(fn_node, region: Dict[str, Any], canon=None):
    """Run `fn_node` under `region`; returns the list of (kind, value, node):
    kind in {'return', 'raise', 'falloff'}."""
    c = Cascade(fn_node, region, canon)
    out: Out = c.run(fn_node, {c.initial()})
    res = []
    for st, node in out.ret:
        res.append(("return", c.value(st, node.value), node))
    for st, tag, node in out.exc:
        res.append(("raise", tag, node))
    for st in out.normal:
        res.append(("falloff", None, fn_node))
    return res


def int_constants_compared(fn_node) -> List[int]:
    out = []
    for n in ast.walk(fn_node):
        if isinstance(n, ast.Compare):
            for e in [n.left] + list(n.comparators):
                for c in ast.walk(e):
                    if isinstance(c, ast.Constant) and isinstance(c.value, int) and not isinstance(c.value, bool):
                        out.append(c.value)
    return out
