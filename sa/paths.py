"""Path facts: the abstract state pushed through `flow.Analysis` by the path rules.

A `PState` carries
  * `lits`   – normalised branch literals that hold on every concrete path
               reaching this point (must-facts), written over *terms*;
  * `env`    – flow-sensitive map variable -> term.  A term is either the
               inlined text of a trivial alias (`getattr(msg·3, 'id', None)`,
               `str(x)`, a comparison flag …) or a definition-site name
               `var·k` (k = ordinal of the defining statement in the function),
               whose defining expression is kept in `PathAnalysis.defs`;
  * `events` – ordered, saturating tuple of the events a rule asked to record
               (calls of interest), so that ordering and counting obligations
               are read off the exit states;
  * `extra`  – rule-private hashable.
"""
from __future__ import annotations

import ast
import copy
import hashlib
from dataclasses import dataclass, replace
from typing import Dict, FrozenSet, Iterable, List, Optional, Tuple

from . import flow
from .flow import ANY_EXC, CANCEL
from .model import walk_local

SEP = "·"  # middle dot: legal inside a Python identifier, never used by the repo

FLIP = {
    ast.Eq: ast.NotEq,
    ast.NotEq: ast.Eq,
    ast.In: ast.NotIn,
    ast.NotIn: ast.In,
    ast.Is: ast.IsNot,
    ast.IsNot: ast.Is,
    ast.Lt: ast.GtE,
    ast.GtE: ast.Lt,
    ast.Gt: ast.LtE,
    ast.LtE: ast.Gt,
}


@dataclass(frozen=True)
class PState:
    lits: FrozenSet[str] = frozenset()
    env: Tuple[Tuple[str, str], ...] = ()
    events: Tuple[str, ...] = ()
    extra: Tuple = ()

    def term(self, var: str) -> Optional[str]:
        for k, v in self.env:
            if k == var:
                return v
        return None

    def with_env(self, var: str, term: str) -> "PState":
        e = tuple(sorted([(k, v) for k, v in self.env if k != var] + [(var, term)]))
        return replace(self, env=e)

    def add_lit(self, lit: str) -> "PState":
        return replace(self, lits=self.lits | {lit})

    def add_event(self, ev: str, cap: int = 2) -> "PState":
        if self.events.count(ev) >= cap:
            return self
        return replace(self, events=self.events + (ev,))

    def has(self, *lits: str) -> bool:
        return all(l in self.lits for l in lits)

    def count(self, ev: str) -> int:
        return self.events.count(ev)

    def count_prefix(self, prefix: str) -> int:
        return sum(1 for e in self.events if e.startswith(prefix))


def norm_text(node: ast.AST) -> str:
    return ast.unparse(node)


def negate_text(lit: str) -> str:
    """Textual negation of a normalised literal."""
    try:
        node = ast.parse(lit, mode="eval").body
    except SyntaxError:
        return "not (" + lit + ")"
    return norm_lit(node, False)


def norm_lit(test: ast.AST, pol: bool) -> str:
    """Normalise `test` with polarity folded in: `not a == b` ≡ `a != b`,
    `not x in s` ≡ `x not in s`, double negation removed."""
    if isinstance(test, ast.UnaryOp) and isinstance(test.op, ast.Not):
        return norm_lit(test.operand, not pol)
    if isinstance(test, ast.Compare) and len(test.ops) == 1:
        op = test.ops[0]
        if not pol:
            test = ast.Compare(left=test.left, ops=[FLIP[type(op)]()], comparators=test.comparators)
        return ast.unparse(test)
    if isinstance(test, ast.BoolOp) and not pol:
        # De Morgan, so that the negation of a conjunction has one spelling
        inv = ast.BoolOp(
            op=ast.Or() if isinstance(test.op, ast.And) else ast.And(),
            values=[ast.parse(norm_lit(v, False), mode="eval").body for v in test.values],
        )
        return ast.unparse(inv)
    if isinstance(test, ast.Constant):
        return repr(bool(test.value) == pol)
    txt = ast.unparse(test)
    if pol:
        return txt
    if isinstance(test, (ast.Name, ast.Attribute, ast.Call, ast.Subscript, ast.Constant)):
        return "not " + txt
    return "not (" + txt + ")"


TRIVIAL_CALLS = {"getattr", "str", "isinstance", "hasattr", "bool", "len", "int", "float", "type", "list", "dict", "tuple", "frozenset", "set"}


def is_trivial_alias(node: ast.AST) -> bool:
    """Expressions inlined into terms instead of becoming a definition site."""
    if isinstance(node, (ast.Name, ast.Constant)):
        return True
    if isinstance(node, ast.Attribute):
        return is_trivial_alias(node.value)
    if isinstance(node, ast.Subscript):
        return is_trivial_alias(node.value) and isinstance(node.slice, (ast.Constant, ast.UnaryOp, ast.Name))
    if isinstance(node, ast.Compare):
        return is_trivial_alias(node.left) and all(is_trivial_alias(c) for c in node.comparators)
    if isinstance(node, ast.BoolOp):
        return all(is_trivial_alias(v) for v in node.values)
    if isinstance(node, ast.UnaryOp):
        return is_trivial_alias(node.operand)
    if isinstance(node, (ast.Tuple, ast.List, ast.Set)):
        return all(is_trivial_alias(v) for v in node.elts)
    if isinstance(node, ast.Dict):
        return not node.keys
    if isinstance(node, ast.JoinedStr):
        return all(isinstance(v, ast.Constant) or (isinstance(v, ast.FormattedValue) and v.format_spec is None and is_trivial_alias(v.value)) for v in node.values)
    if isinstance(node, ast.IfExp):
        return is_trivial_alias(node.test) and is_trivial_alias(node.body) and is_trivial_alias(node.orelse)
    if isinstance(node, ast.Call):
        f = node.func
        if isinstance(f, ast.Name) and f.id in TRIVIAL_CALLS and not node.keywords:
            return all(is_trivial_alias(a) for a in node.args)
        # x.get("k"[, default]) on a trivial receiver: a pure projection
        if isinstance(f, ast.Attribute) and f.attr in ("get", "lower", "upper", "strip", "copy", "split", "startswith", "endswith", "keys") and not node.keywords:
            return is_trivial_alias(f.value) and all(is_trivial_alias(a) for a in node.args)
        return False
    return False


class _Subst(ast.NodeTransformer):
    def __init__(self, env: Dict[str, str]):
        self.env = env

    def visit_Name(self, n: ast.Name):
        if isinstance(n.ctx, ast.Load) and n.id in self.env:
            t = self.env[n.id]
            if t == n.id:
                return n
            try:
                return ast.parse(t, mode="eval").body
            except SyntaxError:
                return ast.Name(id=t, ctx=ast.Load())
        return n

    def visit_Lambda(self, n):
        return n

    def visit_ListComp(self, n):
        return self.generic_visit(n)


_NAMES_IN: Dict[int, FrozenSet[str]] = {}
_KEEP: List[ast.AST] = []  # keeps analysed nodes alive so that id() keys stay unique
_SUBST_MEMO: Dict[Tuple, ast.AST] = {}
_TEXT_MEMO: Dict[Tuple, str] = {}


def _names_in(node: ast.AST) -> FrozenSet[str]:
    k = id(node)
    r = _NAMES_IN.get(k)
    if r is None:
        r = frozenset(n.id for n in ast.walk(node) if isinstance(n, ast.Name) and isinstance(n.ctx, ast.Load))
        _NAMES_IN[k] = r
        _KEEP.append(node)
    return r


def _relevant(node: ast.AST, state: PState) -> Tuple:
    names = _names_in(node)
    if not names or not state.env:
        return ()
    return tuple((k, v) for k, v in state.env if k in names and v != k)


def subst(node: ast.AST, state: PState) -> ast.AST:
    rel = _relevant(node, state)
    if not rel:
        return node
    key = (id(node), rel)
    r = _SUBST_MEMO.get(key)
    if r is None:
        r = ast.fix_missing_locations(_Subst(dict(rel)).visit(copy.deepcopy(node)))
        _SUBST_MEMO[key] = r
    return r


def subst_text(node: ast.AST, state: PState) -> str:
    rel = _relevant(node, state)
    key = (id(node), rel)
    r = _TEXT_MEMO.get(key)
    if r is None:
        _names_in(node)  # pins the node
        r = ast.unparse(subst(node, state))
        _TEXT_MEMO[key] = r
    return r


def calls_in_order(node: ast.AST) -> List[ast.Call]:
    """Call nodes of a simple statement / expression in (approximate) evaluation
    order: arguments before the call that consumes them."""
    out: List[ast.Call] = []

    def visit(n):
        if isinstance(n, (ast.Lambda, ast.FunctionDef, ast.AsyncFunctionDef, ast.ClassDef)):
            return
        for c in ast.iter_child_nodes(n):
            visit(c)
        if isinstance(n, ast.Call):
            out.append(n)

    visit(node)
    return out


def has_call(node: ast.AST) -> bool:
    for n in walk_local(node):
        if isinstance(n, (ast.Call, ast.Await)):
            return True
    return False


def has_await(node: ast.AST) -> bool:
    for n in walk_local(node):
        if isinstance(n, ast.Await):
            return True
    return False


LOGGING_PREFIXES = ("logging.", "logger.", "log.", "traceback.", "warnings.")
PURE_FUNCS = {"isinstance", "hasattr", "len", "print", "type", "id", "callable", "bool"}


def _str_safe(arg: ast.AST, handler_vars) -> bool:
    """Is str()/repr() of `arg` total?  Yes for caught exception objects, constants, f-strings and
    attribute/subscript projections of a caught exception; not for arbitrary (user-supplied) objects,
    whose __repr__/__str__ may raise (a dict nested beyond the recursion limit does)."""
    if isinstance(arg, (ast.Constant, ast.JoinedStr)):
        return True
    if isinstance(arg, ast.Name):
        return arg.id in handler_vars
    if isinstance(arg, ast.Attribute):
        return _str_safe(arg.value, handler_vars)
    return False


def mapping_names(fn: ast.AST) -> set:
    """Names that hold a mapping throughout `fn`: parameters annotated Dict/Mapping/dict, locals bound only to dict
    displays / dict(...) calls.  `.get(<constant key>)` on them cannot raise."""
    out = set()
    args = getattr(fn, "args", None)
    if args is not None:
        for a in args.posonlyargs + args.args + args.kwonlyargs:
            if a.annotation is not None:
                t = ast.unparse(a.annotation)
                if t.split("[")[0].split(".")[-1] in ("Dict", "dict", "Mapping", "MutableMapping", "OrderedDict"):
                    out.add(a.arg)
    binds: dict = {}
    for n in ast.walk(fn):
        if isinstance(n, ast.Assign):
            for t in n.targets:
                if isinstance(t, ast.Name):
                    binds.setdefault(t.id, []).append(n.value)
        elif isinstance(n, ast.AnnAssign) and isinstance(n.target, ast.Name) and n.value is not None:
            binds.setdefault(n.target.id, []).append(n.value)
        elif isinstance(n, (ast.For, ast.AsyncFor, ast.With, ast.AsyncWith, ast.ExceptHandler, ast.comprehension)):
            for x in ast.walk(getattr(n, "target", None) or ast.Pass()):
                if isinstance(x, ast.Name):
                    binds.setdefault(x.id, []).append(None)
    def _envelope_params(v):
        # `getattr(message, "params", None) or {}`: the envelope models type params as an optional JSON object
        return (isinstance(v, ast.BoolOp) and isinstance(v.op, ast.Or) and len(v.values) == 2 and isinstance(v.values[1], ast.Dict) and not v.values[1].keys
                and isinstance(v.values[0], ast.Call) and isinstance(v.values[0].func, ast.Name) and v.values[0].func.id == "getattr" and len(v.values[0].args) >= 2
                and isinstance(v.values[0].args[1], ast.Constant) and v.values[0].args[1].value == "params")

    for k, vs in binds.items():
        if vs and all(v is not None and (isinstance(v, ast.Dict) or _envelope_params(v) or (isinstance(v, ast.Call) and isinstance(v.func, ast.Name) and v.func.id == "dict")) for v in vs):
            out.add(k)
        elif k in out:
            out.discard(k)  # a mapping parameter that is rebound to something else
    return out


def is_mapping_get(call: ast.Call, names: set) -> bool:
    f = call.func
    return (isinstance(f, ast.Attribute) and f.attr == "get" and isinstance(f.value, ast.Name) and f.value.id in names and 1 <= len(call.args) <= 2 and not call.keywords
            and isinstance(call.args[0], ast.Constant) and all(isinstance(a, (ast.Constant, ast.Name)) for a in call.args[1:]))


def list_names(fn: ast.AST) -> set:
    """Locals bound only to list displays / list(...) / comprehensions in `fn` (a work list, an accumulator)."""
    binds: dict = {}
    for n in ast.walk(fn):
        if isinstance(n, ast.Assign):
            for t in n.targets:
                for x in ast.walk(t):
                    if isinstance(x, ast.Name):
                        binds.setdefault(x.id, []).append(n.value if x is t else None)
        elif isinstance(n, ast.AnnAssign) and isinstance(n.target, ast.Name):
            binds.setdefault(n.target.id, []).append(n.value)
        elif isinstance(n, ast.AugAssign) and isinstance(n.target, ast.Name):
            binds.setdefault(n.target.id, []).append(None)
        elif isinstance(n, (ast.For, ast.AsyncFor, ast.With, ast.AsyncWith, ast.ExceptHandler, ast.comprehension)):
            for x in ast.walk(getattr(n, "target", None) or ast.Pass()):
                if isinstance(x, ast.Name):
                    binds.setdefault(x.id, []).append(None)
    args = getattr(fn, "args", None)
    params = {a.arg for a in (args.posonlyargs + args.args + args.kwonlyargs)} if args is not None else set()
    def _seq(v):
        if isinstance(v, (ast.List, ast.ListComp)):
            return True
        if isinstance(v, ast.Call) and isinstance(v.func, (ast.Name, ast.Attribute)) and ast.unparse(v.func).split(".")[-1] in ("list", "deque") and not v.keywords:
            return len(v.args) == 0 or (len(v.args) == 1 and isinstance(v.args[0], (ast.List, ast.Tuple, ast.Name)))  # `deque([x])`: the same work list, popped from the left
        return False

    return {k for k, vs in binds.items() if k not in params and vs and all(v is not None and _seq(v) for v in vs)}


def is_list_total(call: ast.Call, names: set, truthy=()) -> bool:
    """Operations on a local list that cannot raise: growing it, `reversed`/`len` of it, and `pop()` where the path has
    just tested the list to be non-empty (`while work:` / `if work:`; `truthy` = names known non-empty here)."""
    f = call.func
    if isinstance(f, (ast.Name, ast.Attribute)) and ast.unparse(f).split(".")[-1] in ("deque", "list") and ast.unparse(f) in ("deque", "list", "collections.deque") and not call.keywords and len(call.args) <= 1 \
            and all(isinstance(a, (ast.List, ast.Tuple)) and not any(isinstance(e, (ast.Starred, ast.Await, ast.Call)) for e in a.elts) for a in call.args):
        return True  # `deque([x])`: building the work list from a display
    if isinstance(f, ast.Attribute) and isinstance(f.value, ast.Name) and f.value.id in names and not call.keywords:
        if f.attr in ("append", "extend", "appendleft", "extendleft", "clear", "reverse", "copy") and all(not isinstance(a, ast.Await) for a in call.args):
            return all(isinstance(a, (ast.Name, ast.Constant, ast.List, ast.Tuple)) or (isinstance(a, ast.Call) and ast.unparse(a.func) in ("reversed", "list", "tuple") and all(isinstance(x, ast.Name) for x in a.args)) for a in call.args)
        if f.attr == "pop" and len(call.args) <= 1 and all(isinstance(a, ast.Constant) and a.value in (0, -1) for a in call.args):
            return f.value.id in truthy
        if f.attr == "popleft" and not call.args:
            return f.value.id in truthy
    return False


def is_mapping_get_here(call: ast.Call, st) -> bool:
    """`x.get(<constant>[, default])` where the path knows x to be a dict: it tested `isinstance(x, dict)`, or x is an
    empty display on this path."""
    f = call.func
    if not (isinstance(f, ast.Attribute) and f.attr == "get" and isinstance(f.value, ast.Name) and 1 <= len(call.args) <= 2 and not call.keywords and isinstance(call.args[0], ast.Constant)):
        return False
    t = st.term(f.value.id) or f.value.id
    if t in ("{}", "dict()"):
        return True
    return any(l.startswith(f"isinstance({t}, ") and not l.startswith("not ") and ("dict" in l or "Mapping" in l) for l in st.lits)


def is_sequence_op(call: ast.Call, st) -> bool:
    """`reversed(x)` / `iter(x)` / `list(x)` / `tuple(x)` of a value the path knows to be a list or tuple."""
    if isinstance(call.func, ast.Name) and call.func.id in ("reversed", "iter", "list", "tuple", "enumerate") and len(call.args) == 1 and not call.keywords and isinstance(call.args[0], ast.Name):
        t = st.term(call.args[0].id) or call.args[0].id
        return any(l.startswith(f"isinstance({t}, ") and not l.startswith("not ") and ("list" in l or "tuple" in l) for l in st.lits)
    return False


CLOCK_FUNCS = {"time.monotonic", "time.time", "time.perf_counter", "time.monotonic_ns", "time.time_ns", "time.perf_counter_ns", "anyio.current_time", "monotonic", "perf_counter"}


def is_benign_call(call: ast.Call, handler_vars=()) -> bool:
    """Calls that the default fallibility model treats as non-raising: logging,
    traceback formatting, total builtins, 3-argument getattr, str()/repr() of a caught exception."""
    if isinstance(call.func, ast.IfExp):
        # `(logger.error if loud else logger.debug)(…)`: benign if it is whichever of the two it turns out to be
        return all(is_benign_call(ast.copy_location(ast.Call(func=arm, args=call.args, keywords=call.keywords), call), handler_vars) for arm in (call.func.body, call.func.orelse))
    name = ast.unparse(call.func)
    if name in ("repr", "str") and len(call.args) == 1 and not call.keywords:
        a0 = call.args[0]
        if _str_safe(a0, handler_vars):
            return True
        if name == "str" and isinstance(a0, (ast.Name, ast.Attribute, ast.Subscript)):
            # str() of ids, status codes and other scalars taken from parsed JSON / library objects: documented assumption
            return True
        return False
    if name.startswith(LOGGING_PREFIXES):
        return True
    if name in PURE_FUNCS:
        return True
    if name in ("any", "all") and len(call.args) == 1 and not call.keywords and isinstance(call.args[0], (ast.GeneratorExp, ast.ListComp)):
        # a membership scan: `any(marker in text for marker in MARKERS)` over a named constant / display, element a
        # comparison of plain references — nothing in it can raise for str/tuple operands
        g = call.args[0]
        if len(g.generators) == 1 and not g.generators[0].ifs and isinstance(g.generators[0].iter, (ast.Name, ast.Attribute, ast.Tuple, ast.List, ast.Set)) \
                and isinstance(g.elt, ast.Compare) and all(isinstance(o, (ast.In, ast.NotIn, ast.Eq, ast.NotEq)) for o in g.elt.ops) \
                and all(isinstance(x, (ast.Name, ast.Constant)) for x in [g.elt.left] + g.elt.comparators):
            return True
    if name in CLOCK_FUNCS and not call.args and not call.keywords:
        return True  # reading a clock does not raise
    if name == "getattr" and len(call.args) == 3:
        return True
    f = call.func
    if name in ("asyncio.current_task", "asyncio.get_running_loop", "asyncio.get_event_loop") and not call.args and not call.keywords:
        return True  # asking the event loop who is running does not raise inside a coroutine
    if isinstance(f, ast.Attribute) and f.attr in ("set", "is_set", "done", "cancel", "cancelled", "cancelling", "uncancel") and not call.args and not call.keywords:
        return True  # synchronous state methods of asyncio/anyio events, futures and tasks are total
    if isinstance(f, ast.Attribute) and f.attr in ("lower", "upper", "strip", "startswith", "endswith", "split", "rstrip", "lstrip") and len(call.args) <= 1 and not call.keywords:
        recv = f.value
        if isinstance(recv, ast.JoinedStr) or (isinstance(recv, ast.Constant) and isinstance(recv.value, str)):
            return True
        if isinstance(recv, ast.Call) and (ast.unparse(recv.func) == "str" or is_benign_call(recv) and isinstance(recv.func, ast.Attribute) and recv.func.attr in ("lower", "upper", "strip")):
            return True  # a str method on a value that is a str by construction
    if name in ("anyio.CancelScope", "anyio.fail_after", "anyio.move_on_after", "anyio.get_cancelled_exc_class", "CancelScope", "fail_after"):
        return True  # constructing a cancel scope does not raise; its effects are at the with-exit
    return False


class PathAnalysis(flow.Analysis):
    """Literals + environment + events.  Rules subclass or parameterise it."""

    track_cancel = False  # add a `Cancelled` edge at every await
    exc_after_events = False  # an exception raised by a statement carries the events of the calls it made
    mark_handlers = False  # record an event `caught:<handler classes>` when an except body is entered
    fallible = True  # opaque calls may raise `Exception*`
    prune = True  # drop a branch whose complementary literal already holds
    forget_at_loop_back = False  # start each further iteration without the facts about variables the loop body assigns
    gc_dead_terms = False  # when a variable is rebound, forget literals about its *other* definition sites that no variable holds any more

    def __init__(self, fn_node: ast.AST, event_of=None, fallible_pred=None, stmt_event_of=None):
        super().__init__()
        self.fn = fn_node
        self.event_of = event_of
        self.stmt_event_of = stmt_event_of
        self.fallible_pred = fallible_pred
        self.defs: Dict[str, Tuple[str, ast.AST]] = {}  # term -> (substituted defining text, value node)
        self.site: Dict[int, int] = {}
        k = 0
        for n in ast.walk(fn_node):
            if isinstance(n, (ast.Assign, ast.AnnAssign, ast.AugAssign, ast.For, ast.AsyncFor, ast.With, ast.AsyncWith, ast.ExceptHandler, ast.NamedExpr)):
                self.site[id(n)] = k
                k += 1
        self.reassigned = self._reassigned_names(fn_node)
        # definition sites inside a loop keep a plain name (termination); outside loops the term also
        # carries a digest of its substituted defining text, so the same site reached with different
        # environments yields different terms (flow-sensitive definitions)
        self.in_loop = set()
        for n in ast.walk(fn_node):
            if isinstance(n, (ast.While, ast.For, ast.AsyncFor)):
                for m in ast.walk(n):
                    self.in_loop.add(id(m))

    @staticmethod
    def _reassigned_names(fn) -> set:
        counts: Dict[str, int] = {}
        for n in ast.walk(fn):
            if isinstance(n, ast.Name) and isinstance(n.ctx, ast.Store):
                counts[n.id] = counts.get(n.id, 0) + 1
        args = getattr(fn, "args", None)
        if args is None:
            return {k for k, v in counts.items() if v > 1}
        for a in args.posonlyargs + args.args + args.kwonlyargs:
            if a.arg in counts:
                counts[a.arg] += 1
        return {k for k, v in counts.items() if v > 1}

    def initial(self) -> PState:
        return PState()

    # ------------------------------------------------------------------ env
    def _kill(self, state: PState, term: str) -> PState:
        """Forget every fact that mentions `term` (its site is being redefined)."""
        lits = frozenset(l for l in state.lits if term not in l)
        env = tuple((k, v) for k, v in state.env if term not in v)
        return replace(state, lits=lits, env=env)

    def loop_back(self, loop, state: PState) -> PState:
        """Per-message loops re-establish everything they test in each iteration.  Forgetting — at the back edge —
        the environment, literals and events that mention a variable assigned in the loop body is sound for
        must-literal rules (facts are only lost) and keeps the number of loop-head states independent of how many
        definition sites the body has."""
        self.__dict__.setdefault("back_states", []).append((loop, state))
        if not self.forget_at_loop_back:
            return state
        key = id(loop)
        cache = self.__dict__.setdefault("_loop_names", {})
        if key not in cache:
            cache[key] = {n.id for b in loop.body for n in ast.walk(b) if isinstance(n, ast.Name) and isinstance(n.ctx, ast.Store)} | {h.name for b in loop.body for h in ast.walk(b) if isinstance(h, ast.ExceptHandler) and h.name}
        names = cache[key]
        prefs = tuple(f"{n}{SEP}" for n in names)
        env = tuple((k, v) for k, v in state.env if k not in names and not any(p_ in v for p_ in prefs))
        lits = frozenset(l for l in state.lits if not any(p_ in l for p_ in prefs))
        events = tuple(e for e in state.events if not any(p_ in e for p_ in prefs))
        return replace(state, env=env, lits=lits, events=events)

    def _gc(self, state: PState, name: str) -> PState:
        """Literals that mention a definition-site term of `name` which no variable refers to any longer can never be
        consulted about a live value again; inside loops they only multiply states (a variable with two definition
        sites in a loop body otherwise carries the previous iteration's facts about the other site along)."""
        pref = f"{name}{SEP}"
        live = " ".join(v for _k, v in state.env)
        dead = set()
        for l in state.lits:
            i = l.find(pref)
            while i != -1:
                if i == 0 or not (l[i - 1].isalnum() or l[i - 1] == "_"):
                    j = i + len(pref)
                    while j < len(l) and (l[j].isalnum() or l[j] == SEP):
                        j += 1
                    t = l[i:j]
                    if t not in live:
                        dead.add(l)
                        break
                i = l.find(pref, i + 1)
        if not dead:
            return state
        return replace(state, lits=frozenset(state.lits - dead))

    def _bind(self, state: PState, name: str, value: Optional[ast.AST], site_node: ast.AST, how: str = "") -> PState:
        st = self._bind0(state, name, value, site_node, how)
        return self._gc(st, name) if self.gc_dead_terms else st

    def _bind0(self, state: PState, name: str, value: Optional[ast.AST], site_node: ast.AST, how: str = "") -> PState:
        k = self.site.get(id(site_node), 0)
        term = f"{name}{SEP}{k}"
        state = self._kill(state, term)
        if value is not None and not how and is_trivial_alias(value):
            txt = subst_text(value, state)
            if len(txt) < 300 and f"{name}{SEP}" not in txt:
                # facts about the previous value of `name` as a *variable* die with the rebinding;
                # facts are over terms, so nothing else to kill
                return state.with_env(name, txt)
        if value is not None:
            text = how + subst_text(value, state)
            if id(site_node) not in self.in_loop and not how.startswith("aug:"):
                term = f"{term}{SEP}{hashlib.sha1(text.encode()).hexdigest()[:4]}"
            self.defs[term] = (text, value)
            never_none = (ast.Tuple, ast.List, ast.Dict, ast.Set, ast.JoinedStr, ast.ListComp, ast.DictComp, ast.SetComp)
            if isinstance(value, never_none) and not how:
                state = state.add_lit(f"{term} is not None")  # a display is never None
            elif isinstance(value, ast.BoolOp) and isinstance(value.op, ast.Or) and not how and (isinstance(value.values[-1], never_none) or (isinstance(value.values[-1], ast.Constant) and value.values[-1].value is not None)):
                state = state.add_lit(f"{term} is not None")  # `x or {}`: x if it is truthy (so not None), else the display
        else:
            self.defs[term] = (how, site_node)
        return state.with_env(name, term)

    def assign_target(self, state: PState, target: ast.AST, value: Optional[ast.AST], site_node: ast.AST, how: str = "") -> PState:
        if isinstance(target, ast.Name):
            return self._bind(state, target.id, value, site_node, how)
        if isinstance(target, (ast.Tuple, ast.List)):
            for i, t in enumerate(target.elts):
                if isinstance(t, ast.Name):
                    v = None
                    if value is not None and isinstance(value, ast.Name):
                        # `code, text = error` where `error` is known to be a display of the same length
                        sv = subst(value, state)
                        if isinstance(sv, (ast.Tuple, ast.List)) and len(sv.elts) == len(target.elts):
                            value = sv
                    if value is not None:
                        if isinstance(value, (ast.Tuple, ast.List)) and len(value.elts) == len(target.elts):
                            v = value.elts[i]
                            state = self._bind(state, t.id, v, site_node, how)
                            continue
                        v = ast.Subscript(value=value, slice=ast.Constant(value=i), ctx=ast.Load())
                    state = self._bind(state, t.id, v, site_node, how or "unpack:")
            return state
        # attribute / subscript stores: facts that mention the stored-to text die
        try:
            txt = subst_text(target, state)
        except Exception:
            txt = None
        if txt:
            lits = frozenset(l for l in state.lits if txt not in l)
            state = replace(state, lits=lits)
        return state

    # ------------------------------------------------------------------ events
    def _events(self, state: PState, node: ast.AST) -> PState:
        if self.event_of is None:
            return state
        for c in calls_in_order(node):
            ev = self.event_of(c, state, self)
            if ev:
                for e in ([ev] if isinstance(ev, str) else ev):
                    state = state.add_event(e)
        return state

    # ------------------------------------------------------------------ hooks
    def simple(self, state: PState, stmt):
        if self.stmt_event_of is not None and isinstance(stmt, (ast.Assign, ast.AugAssign, ast.AnnAssign, ast.Delete, ast.Expr, ast.Return, ast.Raise)):
            ev = self.stmt_event_of(stmt, state, self)
            if ev:
                pre = state
                for e in ([ev] if isinstance(ev, str) else ev):
                    state = state.add_event(e)
        return self._simple(state, stmt)

    def _simple(self, state: PState, stmt):
        if isinstance(stmt, ast.Assign):
            state = self._events(state, stmt.value)
            for t in stmt.targets:
                state = self.assign_target(state, t, stmt.value, stmt)
            return [state]
        if isinstance(stmt, ast.AnnAssign):
            if stmt.value is not None:
                state = self._events(state, stmt.value)
                state = self.assign_target(state, stmt.target, stmt.value, stmt)
            return [state]
        if isinstance(stmt, ast.AugAssign):
            state = self._events(state, stmt.value)
            newv = ast.BinOp(left=copy.deepcopy(stmt.target), op=stmt.op, right=stmt.value)
            if isinstance(newv.left, ast.Name):
                newv.left.ctx = ast.Load()
            state = self.assign_target(state, stmt.target, newv, stmt, how="aug:")
            return [state]
        if isinstance(stmt, (ast.For, ast.AsyncFor)):
            state = self._events(state, stmt.iter)
            return [self.assign_target(state, stmt.target, stmt.iter, stmt, how="iter:")]
        if isinstance(stmt, (ast.With, ast.AsyncWith)):
            for it in stmt.items:
                state = self._events(state, it.context_expr)
                if it.optional_vars is not None:
                    state = self.assign_target(state, it.optional_vars, it.context_expr, stmt, how="enter:")
            return [state]
        if isinstance(stmt, ast.ExceptHandler):
            if stmt.name:
                state = self._bind(state, stmt.name, None, stmt, how="caught")
                t = state.term(stmt.name)
                if t:
                    state = state.add_lit(f"{t} is not None")
            return [state]
        if isinstance(stmt, ast.Return):
            if stmt.value is not None:
                state = self._events(state, stmt.value)
            return [state]
        if isinstance(stmt, ast.Raise):
            if stmt.exc is not None:
                state = self._events(state, stmt.exc)
            return [state]
        if isinstance(stmt, (ast.Expr, ast.Delete)):
            return [self._events(state, stmt)]
        return [state]

    def raise_tag_in(self, s, state):
        # `cls = A if c else B; raise cls(...)`: the class is the one the local stands for on this path
        if s.exc is not None:
            e = s.exc.func if isinstance(s.exc, ast.Call) else s.exc
            if isinstance(e, ast.Name) and not (self.handler_stack and self.handler_stack[-1].name == e.id):
                t = state.term(e.id) or ""
                d = self.defs.get(t, ("", None))[1]
                if isinstance(d, (ast.Name, ast.Attribute)):
                    return ast.unparse(d)
                if t and t != e.id and SEP not in t and all(p_.isidentifier() for p_ in t.split(".")):
                    return t  # a plain alias of a class name
        return self.raise_tag(s)

    def enter_handler(self, state, handler, tag, node):
        if self.mark_handlers:
            state = state.add_event("caught:" + "/".join(self.handler_names(handler)))
        return self.simple(state, handler)

    def scope_outcome(self, state, with_node, fired: bool):
        for it in with_node.items:
            v = it.optional_vars
            if isinstance(v, ast.Name):
                t = state.term(v.id) or v.id
                for attr in ("cancelled_caught", "cancel_called"):
                    lit = f"{t}.{attr}"
                    state = replace(state, lits=frozenset(l for l in state.lits if l not in (lit, "not " + lit)))
                    if fired:
                        state = state.add_lit(lit)
                    elif attr == "cancelled_caught":
                        state = state.add_lit("not " + lit)
                    # a body that ran to its end says nothing about `cancel_called`: the deadline may have fired in the
                    # very loop iteration in which the awaited operation had already completed
        return state

    def leave_handler(self, state, handler):
        # `as e` is unbound when the handler ends: nothing can test it any more, so what is known about the exception
        # object is dropped unless another variable still refers to it (`failure = e`).  The binding itself is kept as a
        # mark that the path went through this handler (rules read it that way).
        if not handler.name:
            return state
        t = state.term(handler.name)
        if t and not any(t in v for k, v in state.env if k != handler.name):
            lits = frozenset(l for l in state.lits if t not in l)
            if lits != state.lits:
                return replace(state, lits=lits)
        return state

    def exc_state(self, state, node):
        if self.exc_after_events:
            return self._events(state, node)
        return state

    def stable(self, lit: str) -> bool:
        """May `lit` be used to prune a later test?  Only facts about immutable
        views: no attribute of `self`, no call other than the trivial projections."""
        if "self." in lit or "await " in lit:
            return False
        return True

    lit_filter = None  # optional: literal text -> bool; literals it rejects are not recorded (keeps the state set small)
    inliner = None  # optional: call -> expression of a pure single-return predicate with arguments substituted

    def cond(self, state: PState, test, pol: bool):
        if self.inliner is not None and isinstance(test, ast.Call):
            e = self.inliner(test)
            if e is not None:
                return self.cond(state, e, pol)
        state = self._events(state, test) if not isinstance(test, ast.BoolOp) and not (isinstance(test, ast.UnaryOp)) else state
        if isinstance(test, ast.UnaryOp) and isinstance(test.op, ast.Not):
            return self.cond(state, test.operand, not pol)
        if isinstance(test, ast.BoolOp):
            conj = isinstance(test.op, ast.And)
            if conj == pol:
                # all operands have truth value `pol`
                states = [state]
                for v in test.values:
                    nxt = []
                    for st in states:
                        nxt.extend(self.cond(st, v, pol))
                    states = nxt
                return states
            # disjunctive knowledge: first operand with value `pol` decides (short circuit)
            out = []
            prefix = [state]
            for v in test.values:
                for st in prefix:
                    out.extend(self.cond(st, v, pol))
                nxt = []
                for st in prefix:
                    nxt.extend(self.cond(st, v, not pol))
                prefix = nxt
            return out
        if isinstance(test, ast.NamedExpr):
            state = self.assign_target(state, test.target, test.value, test)
            test = test.target
        if isinstance(test, ast.Name):
            # a flag bound to a conjunction/negation (`ok = a and b` … `if ok:`) is read through its definition
            sv = subst(test, state)
            if isinstance(sv, ast.BoolOp) or (isinstance(sv, ast.UnaryOp) and isinstance(sv.op, ast.Not)):
                return self.cond(state, sv, pol)
        lit = norm_lit(subst(test, state), pol)
        k = _closed_truth(lit)
        if k is False:
            return []  # the test is decided by constants the environment has substituted (a flag that is None/False here)
        if k is True:
            return [state]
        if self.prune and self.stable(lit):
            neg = negate_text(lit)
            if neg in state.lits:
                return []
            if lit in ("False",):
                return []
        if lit in ("True",):
            return [state]
        if self.lit_filter is not None and not self.lit_filter(lit):
            return [state]
        return [state.add_lit(lit)]

    def raises(self, node, state):
        tags = set()
        if self.fallible_pred is not None:
            tags |= set(self.fallible_pred(node, state, self) or ())
        elif self.fallible:
            hv = tuple(h.name for h in self.handler_stack if h.name)
            for c in calls_in_order(node):
                if not is_benign_call(c, hv):
                    tags.add(ANY_EXC)
                    break
        if self.track_cancel and has_await(node):
            tags.add(CANCEL)
        # EAFP lookups: inside a try that names KeyError/LookupError, a subscript load may raise KeyError
        # (only there: outside such a try the fallibility model of each rule decides what a lookup can do)
        if self.try_stack and any(isinstance(x, ast.Subscript) and isinstance(x.ctx, ast.Load) for x in ast.walk(node) if not isinstance(x, (ast.FunctionDef, ast.AsyncFunctionDef, ast.Lambda))):
            for t in reversed(self.try_stack):
                names = {n.split(".")[-1] for h in t.handlers for n in self.handler_names(h)}
                if names & {"KeyError", "LookupError"}:
                    tags.add("KeyError")
                    break
        return tags

    # ------------------------------------------------------------------ queries
    def origin(self, text: str, depth: int = 0) -> str:
        """Expand definition-site terms in `text` into their defining text (bounded)."""
        if depth > 5:
            return text
        out = text
        for t in sorted(self.defs, key=len, reverse=True):
            if t in out:
                txt = self.defs[t][0]
                out = out.replace(t, "<" + self.origin(txt, depth + 1) + ">")
        return out


_CLOSED_CACHE: Dict[str, Optional[bool]] = {}


def _plain_ref(n: ast.AST) -> bool:
    while isinstance(n, ast.Attribute):
        n = n.value
    return isinstance(n, ast.Name) and SEP not in n.id


def _closed_truth(lit: str) -> Optional[bool]:
    """Truth value of a literal that mentions constants only (`None is not None`, `not False`, `0 == 1`), else None."""
    if lit in _CLOSED_CACHE:
        return _CLOSED_CACHE[lit]
    res: Optional[bool] = None
    try:
        n = ast.parse(lit, mode="eval").body
    except SyntaxError:
        n = None

    def ev(x):
        if isinstance(x, ast.Constant):
            return x.value
        if isinstance(x, ast.Tuple):
            return tuple(object() for _ in x.elts)  # an immutable display: never None, truthy iff non-empty
        if isinstance(x, (ast.List, ast.Set, ast.Dict)):
            return _MUTABLE  # never None; its emptiness can change through method calls the environment does not see
        if isinstance(x, ast.JoinedStr):
            raise ValueError
        if isinstance(x, ast.Call) and isinstance(x.func, ast.Name) and x.func.id in ("list", "dict", "set", "frozenset", "tuple", "sorted", "str", "bytes", "bytearray") and SEP not in x.func.id:
            return _MUTABLE  # what a builtin container constructor returns is never None; its emptiness is not known here
        if isinstance(x, ast.UnaryOp) and isinstance(x.op, ast.Not):
            return not ev(x.operand)
        if isinstance(x, ast.UnaryOp) and isinstance(x.op, ast.USub) and isinstance(x.operand, ast.Constant) and isinstance(x.operand.value, (int, float)):
            return -x.operand.value
        if isinstance(x, ast.BoolOp) and isinstance(x.op, ast.Or) and isinstance(x.values[-1], (ast.List, ast.Set, ast.Dict)):
            return _MUTABLE  # `x or {}`: x when it is truthy (so not None), else the display — never None
        if isinstance(x, ast.BoolOp):
            vals = [ev(v) for v in x.values]
            return all(vals) if isinstance(x.op, ast.And) else any(vals)
        if isinstance(x, ast.Compare) and len(x.ops) == 1 and isinstance(x.ops[0], (ast.Is, ast.IsNot)) and _plain_ref(x.left) and ast.dump(x.left) == ast.dump(x.comparators[0]):
            return isinstance(x.ops[0], ast.Is)  # `s is s` for a plain name/attribute chain (a sentinel compared with itself)
        if isinstance(x, ast.Compare) and len(x.ops) == 1:
            a, b = ev(x.left), ev(x.comparators[0])
            op = x.ops[0]
            if isinstance(op, ast.Is):
                return a is b if (a is None or b is None or isinstance(a, bool) or isinstance(b, bool)) else _undecided()
            if isinstance(op, ast.IsNot):
                return a is not b if (a is None or b is None or isinstance(a, bool) or isinstance(b, bool)) else _undecided()
            if isinstance(a, (tuple, _M)) or isinstance(b, (tuple, _M)):
                _undecided()
            if isinstance(op, ast.Eq):
                return a == b
            if isinstance(op, ast.NotEq):
                return a != b
        raise ValueError

    def _undecided():
        raise ValueError

    class _M:
        def __bool__(self):
            raise ValueError

    _MUTABLE = _M()

    if n is not None:
        try:
            res = bool(ev(n))
        except (ValueError, TypeError):
            res = None
    _CLOSED_CACHE[lit] = res
    return res


def run_paths(fn_node, event_of=None, fallible_pred=None, cls=PathAnalysis, stmt_event_of=None, **attrs):
    a = cls(fn_node, event_of=event_of, fallible_pred=fallible_pred, stmt_event_of=stmt_event_of)
    for k, v in attrs.items():
        setattr(a, k, v)
    st = a.initial()
    # parameters are their own terms
    out = a.run(fn_node, {st})
    return a, out


def relevance_filter(fn_node: ast.AST, seed_exprs) -> "Callable[[str], bool]":
    """Literal filter for census-style analyses: keep only literals that mention a name the seed
    expressions depend on (transitively through the function's assignments).  Literals about unrelated
    branches (headers, logging, configuration) are dropped, so their branches merge."""
    names = set()
    for e in seed_exprs:
        names |= {n.id for n in ast.walk(e) if isinstance(n, ast.Name)}
    changed = True
    assigns = [s_ for s_ in ast.walk(fn_node) if isinstance(s_, (ast.Assign, ast.AnnAssign, ast.AugAssign))]
    while changed:
        changed = False
        for s_ in assigns:
            tg = s_.targets if isinstance(s_, ast.Assign) else [s_.target]
            tnames = {n.id for t in tg for n in ast.walk(t) if isinstance(n, ast.Name)}
            if tnames & names and getattr(s_, "value", None) is not None:
                new = {n.id for n in ast.walk(s_.value) if isinstance(n, ast.Name)} - names
                if new:
                    names |= new
                    changed = True
    pats = tuple(sorted(names))

    def keep(lit: str) -> bool:
        return any(p in lit for p in pats)

    return keep
