"""C05 — stdio inbound framing is independent of how the byte stream is chunked."""
from __future__ import annotations

import ast

from .. import anchors as A
from ..consteval import try_fold
from ..flow import ANY_EXC
from ..model import AnalysisError, FuncInfo, Project, call_name, kwarg, local_values, walk_local
from ..paths import PState, PathAnalysis, run_paths, subst_text
from ..report import Report
from ..roles import incoming_send_calls, send_end_of
from . import _stdio

NON_RAISING_ERRORS = {"replace", "ignore", "backslashreplace", "surrogateescape", "surrogatepass"}


def incremental_decoder_def(fn: ast.AST, name: str):
    """(codec, errors) if `name` is bound (once) to a stdlib incremental decoder instance, else None."""
    defs = [s for s in walk_local(fn) if isinstance(s, ast.Assign) and len(s.targets) == 1 and isinstance(s.targets[0], ast.Name) and s.targets[0].id == name]
    if len(defs) != 1:
        return None
    v = defs[0].value
    if isinstance(v, ast.Attribute) and isinstance(v.value, ast.Name) and v.value.id == "self":
        # `decoder = self._decoder`, the attribute itself bound once in this function
        adefs = [s for s in walk_local(fn) if isinstance(s, ast.Assign) and len(s.targets) == 1 and ast.unparse(s.targets[0]) == ast.unparse(v)]
        if len(adefs) != 1:
            return None
        defs = adefs
        v = adefs[0].value
    if not isinstance(v, ast.Call):
        return None
    errors = kwarg(v, "errors") or (v.args[0] if v.args else None)
    err = errors.value if isinstance(errors, ast.Constant) else ("strict" if errors is None else "?")
    f = v.func
    # codecs.getincrementaldecoder("utf-8")(errors=...)
    if isinstance(f, ast.Call) and call_name(f) in ("codecs.getincrementaldecoder", "getincrementaldecoder") and f.args and isinstance(f.args[0], ast.Constant):
        return (str(f.args[0].value), err, defs[0])
    # codecs.lookup("utf-8").incrementaldecoder(errors=...)
    if isinstance(f, ast.Attribute) and f.attr == "incrementaldecoder" and isinstance(f.value, ast.Call) and call_name(f.value) == "codecs.lookup" and f.value.args and isinstance(f.value.args[0], ast.Constant):
        return (str(f.value.args[0].value), err, defs[0])
    # encodings.utf_8.IncrementalDecoder(errors=...)
    if call_name(v).endswith("utf_8.IncrementalDecoder"):
        return ("utf-8", err, defs[0])
    return None


def check(P: Project, R: Report) -> None:
    R.rule("R1", "bytes→str conversion applied to a per-chunk value is stateful: an incremental UTF-8 decoder created outside the read loop (or decoding happens after splitting the byte buffer at the separator); a stateless chunk.decode() breaks on a multi-byte character cut by a read boundary")
    R.rule("R2", "carry-over: the text buffer accumulates across iterations, is split on the constant '\\n' only (not splitlines), the last fragment becomes the new buffer and exactly the complete fragments are processed in order")
    R.rule("R3", "containment: with every call/await in the read loop body treated as fallible (allowlist: logging, isinstance, str methods on the text buffer, decode on a non-strict incremental decoder), no exception edge and no break/return leaves the loop body")
    R.rule("R4", "routing: a message without id is offered on the notification stream and delivered on the main stream; a message with id is delivered on the main stream exactly once; no task is spawned on the delivery path")
    rd, loop = _stdio.reader(P)
    R.fn(rd.fq)
    rel = rd.module.rel
    chunk = ast.unparse(loop.target)

    # ------------------------------------------------------------------ R2, lifetime of what is carried between reads
    # Whatever carries text from one read to the next (buffer, decoder, a framing object) belongs to one child's stream:
    # held in an attribute that only the constructor sets, it survives into the next session on the same client object.
    cl_ = rd.cls
    lv_ = local_values(rd.node)

    def _self_attr_of(e):
        if isinstance(e, ast.Name):
            vs = [v for v in lv_.get(e.id, []) if v is not None]
            if len(vs) == 1:
                e = vs[0]
        if isinstance(e, ast.Attribute) and isinstance(e.value, ast.Name) and e.value.id == "self":
            return e.attr
        return None

    carriers = {}
    for n in walk_local(loop):
        if isinstance(n, ast.Call) and isinstance(n.func, ast.Attribute) and any(isinstance(a, ast.Name) and a.id == chunk for a in n.args):
            a_ = _self_attr_of(n.func.value)
            if a_:
                carriers.setdefault(a_, n)
        if isinstance(n, ast.AugAssign):
            a_ = _self_attr_of(n.target)
            if a_ and any(isinstance(x, ast.Name) and x.id == chunk for x in ast.walk(n.value)) or (a_ and any(isinstance(c_, ast.Call) and isinstance(c_.func, ast.Attribute) and c_.func.attr == "decode" for c_ in ast.walk(n.value))):
                carriers.setdefault(a_, n)
    if cl_ is not None:
        ms_ = P.methods(cl_)
        for a_, n in sorted(carriers.items()):
            fresh = [m.name for m in ms_.values() if m.name in (rd.name, "__aenter__") or m.name in {call_name(c_)[5:] for mm in (ms_.get("__aenter__"),) if mm is not None for c_ in walk_local(mm.node) if isinstance(c_, ast.Call) and call_name(c_).startswith("self.")}
                     if any(isinstance(s_, (ast.Assign, ast.AnnAssign)) and any(ast.unparse(t) == f"self.{a_}" for t in (s_.targets if isinstance(s_, ast.Assign) else [s_.target])) and s_ not in list(walk_local(loop)) for s_ in walk_local(m.node))]
            R.ob("R2", f"what is carried between reads (self.{a_}) starts empty for every child", bool(fresh), f"{rel}:{n.lineno}",
                 f"`{ast.unparse(n)[:60]}` keeps the undelivered tail in self.{a_}, which is only created by the constructor: a second session on the same client object starts with the previous child's leftover, and the first line the new child writes is glued to it and lost")

    # ------------------------------------------------------------------ R1
    decodes = [c for c in walk_local(loop) if isinstance(c, ast.Call) and isinstance(c.func, ast.Attribute) and c.func.attr == "decode"]
    str_calls = [c for c in walk_local(loop) if isinstance(c, ast.Call) and call_name(c) == "str" and len(c.args) >= 2]
    R.need(decodes or str_calls, "anchor: no bytes→str conversion found in the stdout read loop")
    safe_decoders = set()
    for c in decodes + str_calls:
        where = f"{rel}:{c.lineno}"
        if c in str_calls:
            R.ob("R1", "stateless str(bytes, encoding) on a chunk", False, where, "")
            continue
        recv = c.func.value
        info = incremental_decoder_def(rd.node, recv.id) if isinstance(recv, ast.Name) else None
        if info is not None:
            codec, err, d = info
            outside = d not in list(walk_local(loop))
            ok = outside and codec.lower().replace("_", "-") in ("utf-8", "utf8")
            R.ob("R1", "per-chunk decode goes through an incremental UTF-8 decoder created outside the loop", ok, where, f"decoder {codec!r} errors={err!r} created {'outside' if outside else 'INSIDE'} the loop",
                 sample=f"R1 {rd.qual}: {ast.unparse(c)} with incremental decoder ({codec}, errors={err})")
            final = kwarg(c, "final") or (c.args[1] if len(c.args) > 1 else None)
            R.ob("R1", "incremental decode is not finalised per chunk", final is None or (isinstance(final, ast.Constant) and not final.value), where, "final=True resets the decoder state at every chunk")
            if err in NON_RAISING_ERRORS and ok:
                safe_decoders.add(call_name(c))
        else:
            # stateless decode is only safe on a complete line cut out of a *bytes* buffer at the separator
            on_chunk = chunk in {n.id for n in ast.walk(recv) if isinstance(n, ast.Name)}
            R.ob("R1", f"`{ast.unparse(c)[:50]}` is a stateless decode of a per-chunk value", not on_chunk and False, where,
                 "a read that ends inside a multi-byte UTF-8 sequence raises UnicodeDecodeError (or decodes to replacement characters) here",)

    # the decoder's pending bytes belong to the line that is still arriving: nothing in the loop throws them away
    dec_names = {c.func.value.id for c in decodes if isinstance(c.func.value, ast.Name) and incremental_decoder_def(rd.node, c.func.value.id) is not None}
    for c in walk_local(loop):
        if isinstance(c, ast.Call) and isinstance(c.func, ast.Attribute) and isinstance(c.func.value, ast.Name) and c.func.value.id in dec_names and c.func.attr in ("reset", "setstate"):
            R.ob("R1", "the incremental decoder's state is carried from read to read untouched", False, f"{rel}:{c.lineno}",
                 f"`{ast.unparse(c)[:50]}` inside the read loop discards the bytes the decoder is holding — the first bytes of a character the read boundary cut, which belong to the line after the one being handled: that line is delivered with U+FFFD in place of the character")
    for s_ in walk_local(loop):
        if isinstance(s_, ast.Assign) and any(isinstance(t, ast.Name) and t.id in dec_names for t in s_.targets):
            R.ob("R1", "the incremental decoder's state is carried from read to read untouched", False, f"{rel}:{s_.lineno}",
                 f"`{ast.unparse(s_)[:60]}` replaces the decoder inside the read loop: the bytes it was holding (a character cut by the read boundary) are lost")

    # ------------------------------------------------------------------ R2 (chunk-independence rules shared with the SSE readers)
    from . import _chunks

    _chunks.no_discard_before_accumulate(R, "R2", rd, loop, rd.qual)
    _chunks.no_byte_length_offsets(R, "R2", rd, loop, rd.qual)
    bufname = _chunks.accumulate_var(loop)
    if bufname:
        _chunks.line_cut_discipline(R, "R2", rd, loop, [bufname], rd.qual)
    buf = bufname
    R.need(buf is not None, "anchor: the read loop has no carry-over buffer")
    init_outside = [s_ for s_ in walk_local(rd.node) if ((isinstance(s_, ast.Assign) and ast.unparse(s_.targets[0]) == buf) or (isinstance(s_, ast.AnnAssign) and s_.value is not None and ast.unparse(s_.target) == buf)) and s_ not in list(walk_local(loop))]
    R.ob("R2", "buffer is initialised outside the loop and extended by every chunk", len(init_outside) == 1, rel, f"initialisations outside the loop: {len(init_outside)}")
    verdict = None  # (ok, detail, line loop)
    parts_name = None
    LF = ("'\\n'", "b'\\n'")
    split_assigns = [s_ for s_ in walk_local(loop) if isinstance(s_, ast.Assign) and isinstance(s_.value, ast.Call) and isinstance(s_.value.func, ast.Attribute) and s_.value.func.attr == "split" and ast.unparse(s_.value.func.value) == buf]
    rebinds = [s_ for s_ in walk_local(loop) if isinstance(s_, ast.Assign) and any(ast.unparse(t) == buf for t in s_.targets)]
    def _iter_text(l_, parts_=None):
        """the iterable of an inner loop, read through a local bound once inside the read loop (`items = lines[:-1]; for x in items`)"""
        if isinstance(l_.iter, ast.Name) and l_.iter.id != parts_:
            ds_ = [s_ for s_ in walk_local(loop) if isinstance(s_, ast.Assign) and len(s_.targets) == 1 and isinstance(s_.targets[0], ast.Name) and s_.targets[0].id == l_.iter.id]
            if len(ds_) == 1:
                return ast.unparse(ds_[0].value)
        return ast.unparse(l_.iter)

    for sa_ in split_assigns:
        tgt = sa_.targets[0]
        args = [ast.unparse(a) for a in sa_.value.args]
        if isinstance(tgt, ast.Name) and len(args) == 1 and args[0] in LF:
            parts = tgt.id
            parts_name = parts
            loops_all = [l for l in walk_local(loop) if isinstance(l, ast.For) and _iter_text(l, parts) in (parts, f"{parts}[:-1]")]
            rb = [r for r in rebinds if r is not sa_]
            if len(rb) == 1 and len(loops_all) == 1:
                rbv = ast.unparse(rb[0].value)
                it = _iter_text(loops_all[0], parts)
                if rbv == f"{parts}[-1]" and it == f"{parts}[:-1]":
                    verdict = (True, "lines = buf.split(LF); buf = lines[-1]; for line in lines[:-1]", loops_all[0])
                elif rbv == f"{parts}.pop()" and it == parts and rb[0].lineno < loops_all[0].lineno:
                    verdict = (True, "lines = buf.split(LF); buf = lines.pop(); for line in lines", loops_all[0])
                elif rbv == f"{parts}[-1]" and it == parts:
                    verdict = (False, "the unterminated last fragment is processed as a line as well as carried over", loops_all[0])
                elif it == f"{parts}[:-1]" and rbv != f"{parts}[-1]":
                    verdict = (False, f"the carry-over is `{rbv}`, not the last fragment: a message cut by a read boundary loses its first part", loops_all[0])
        elif isinstance(tgt, ast.Tuple) and len(tgt.elts) == 2 and isinstance(tgt.elts[0], ast.Starred) and ast.unparse(tgt.elts[1]) == buf and len(args) == 1 and args[0] in LF:
            parts = ast.unparse(tgt.elts[0].value)
            loops_all = [l for l in walk_local(loop) if isinstance(l, ast.For) and _iter_text(l, parts) == parts]
            if len(loops_all) == 1:
                verdict = (True, "*lines, buf = buf.split(LF); for line in lines", loops_all[0])
    R.need(verdict is not None, "the carry-over idiom of the read loop is written in a shape this rule cannot read (known: lines[-1]/lines[:-1], lines.pop(), *lines, buf = …)")
    # the loop over the complete fragments must be the one that delivers them (decodes the JSON / hands the line on):
    # a loop that only prepares another list (filtering, stripping) is a shape these rules do not follow further
    if not any(isinstance(c_, ast.Call) and (call_name(c_).split(".")[-1] == "loads" or (call_name(c_).startswith("self.") and isinstance(c_.func, ast.Attribute))) for c_ in walk_local(verdict[2])):
        raise AnalysisError("the complete fragments are post-processed into another list before they are delivered — a shape the carry-over rule cannot read")
    R.ob("R2", "the last fragment is carried over and exactly the complete fragments are processed, in order", verdict[0], f"{rel}:{verdict[2].lineno}", verdict[1], sample=f"R2 {rd.qual}: {verdict[1]}")
    line_loop = verdict[2]
    # every complete non-blank line reaches the JSON parser and then the gate
    loads = [c for c in walk_local(line_loop) if isinstance(c, ast.Call) and call_name(c).endswith("json.loads")]
    R.ob("R2", "each complete line is parsed once", len(loads) == 1, rel, f"json.loads calls in the per-line loop: {len(loads)}")

    # ------------------------------------------------------------------ R3
    # `.pop()` on the result of str.split (never empty) is total
    pred = _stdio.loop_fallible(extra_total=set(safe_decoders) | ({f"{parts_name}.pop"} if parts_name else set()))
    body = ast.Module(body=loop.body, type_ignores=[])
    an, out = run_paths(body, fallible_pred=pred)
    an.parents = A.exception_parents(P)
    R.paths += len(out.normal) + len(out.cont) + len(out.exc)
    esc = {}
    for st, tag, node in out.exc:
        esc.setdefault((tag, getattr(node, "lineno", 0)), ast.unparse(node)[:60])
    R.ob("R3", "no exception edge leaves the read loop body", not esc, f"{rel}:{loop.lineno}",
         "unprotected fallible operations: " + "; ".join(f"line {l}: `{src}` may raise {t}" for (t, l), src in sorted(esc.items())),
         sample=f"R3 {rd.qual}: {len(out.normal) + len(out.cont)} normal iteration exits, {len(esc)} escaping exception edges")
    R.ob("R3", "no break/return leaves the read loop", not out.brk and not out.ret, f"{rel}:{loop.lineno}", f"break states {len(out.brk)}, return states {len(out.ret)}")
    # the per-line handler covers Exception and goes on to the next line
    trys = [t for t in walk_local(line_loop) if isinstance(t, ast.Try)]
    R.ob("R3", "per-line try covers Exception", bool(trys) and any(h.type is None or ast.unparse(h.type) in ("Exception", "BaseException") for h in trys[0].handlers), f"{rel}:{line_loop.lineno}", "")
    lb = ast.Module(body=line_loop.body, type_ignores=[])
    la, lo = run_paths(lb, fallible_pred=pred)
    la.parents = A.exception_parents(P)
    R.ob("R3", "a bad line is dropped alone", not lo.exc and not lo.brk and not lo.ret, f"{rel}:{line_loop.lineno}", f"exits of the per-line body: exc {len(lo.exc)} break {len(lo.brk)} return {len(lo.ret)}")

    # batch lines: every member is handled inside its own try covering Exception (a bad member is dropped alone)
    for g in P.methods(_stdio.client(P)).values():
        params = [p for p in g.positional_params() if p != "self"]
        for l in walk_local(g.node):
            if isinstance(l, ast.For) and params and ast.unparse(l.iter) == params[0] and any(isinstance(c, ast.Call) and call_name(c) == "parse_message" for c in walk_local(l)):
                R.fn(g.fq)
                # json.dumps(<member>) in the handler's log line re-encodes a value that came out of the JSON decoder: total
                item_dump = f"json.dumps({ast.unparse(l.target)})"
                base_pred = pred

                def member_pred(node, st, an, base_pred=base_pred, item_dump=item_dump):
                    if any(isinstance(c, ast.Call) and ast.unparse(c) == item_dump for c in walk_local(node)):
                        others = [c for c in walk_local(node) if isinstance(c, ast.Call) and ast.unparse(c) != item_dump and not ast.unparse(c.func).startswith(("logger.", "logging."))]
                        if not others:
                            return set()
                    return base_pred(node, st, an)

                ba, bo = run_paths(ast.Module(body=l.body, type_ignores=[]), fallible_pred=member_pred)
                ba.parents = A.exception_parents(P)
                R.ob("R3", "a bad batch member is dropped alone", not bo.exc and not bo.brk and not bo.ret, f"{g.module.rel}:{l.lineno}",
                     f"exits of the per-member body: exc {sorted({(t, getattr(n, 'lineno', 0)) for _s, t, n in bo.exc})[:3]} break {len(bo.brk)} return {len(bo.ret)} — the first invalid member ends the batch, later members are lost")
        # a try that wraps the whole member loop turns one bad member into "rest of the batch lost"
        for t in walk_local(g.node):
            if isinstance(t, ast.Try):
                for st_ in t.body:
                    if isinstance(st_, ast.For) and params and ast.unparse(st_.iter) == params[0] and not any(isinstance(x, ast.Try) for x in st_.body):
                        R.ob("R3", "the batch member loop is not wrapped by a single try", False, f"{g.module.rel}:{t.lineno}", "one handler around the whole loop: the first invalid member aborts the remaining ones")

    # ------------------------------------------------------------------ R4
    rt = _stdio.router(P)
    R.fn(rt.fq)
    mp = [p for p in rt.positional_params() if p != "self"][0]

    NOTIFY = send_end_of(P, _stdio.client(P), "notifications")

    def ev(call, st, an2):
        nm = call_name(call)
        if nm in (f"self.{NOTIFY}.send_nowait", f"self.{NOTIFY}.send"):
            return "notify:" + subst_text(call.args[0], st)
        if nm in incoming_send_calls(P, _stdio.client(P)):
            return "main:" + subst_text(call.args[0], st)
        if nm.endswith((".start_soon", ".create_task", ".ensure_future", ".spawn")):
            return "spawn"
        h_ = helpers.get(nm[5:]) if nm.startswith("self.") else None
        if h_ is not None and call.args:
            # a delivery helper of the router: it counts as the delivery only if every way through it delivers
            return ("main:" if helper_delivers(h_) else "main-maybe:") + subst_text(call.args[0], st)
        return None

    from ..roles import self_closure

    ms_ = P.methods(_stdio.client(P))
    direct_senders = {f.name for f in ms_.values() if any(isinstance(x, ast.Call) and call_name(x) in incoming_send_calls(P, _stdio.client(P)) for x in walk_local(f.node))}
    helpers = {n_: g_ for n_, g_ in ms_.items() if g_ is not rt and n_ in direct_senders and n_ in self_closure(P, _stdio.client(P), rt)}
    _hd = {}

    def helper_delivers(h_) -> bool:
        if h_.name not in _hd:
            hp = [p_ for p_ in h_.positional_params() if p_ != "self"]
            ha, ho = run_paths(h_.node, event_of=lambda c_, st_, an_: ("main:" + subst_text(c_.args[0], st_)) if call_name(c_) in incoming_send_calls(P, _stdio.client(P)) and c_.args else None, fallible_pred=would_block)
            ends_ = [st_ for st_, _n in ho.ret] + list(ho.normal)
            _hd[h_.name] = bool(ends_) and bool(hp) and all([e for e in st_.events if e.startswith("main:")] == [f"main:{hp[0]}"] for st_ in ends_) and not any(t_ == "anyio.WouldBlock" for _s, t_, _n in ho.exc)
        return _hd[h_.name]

    # a full main stream is an ordinary schedule (the consumer is momentarily behind), not a fault: a non-blocking put
    # on the main stream has a WouldBlock edge, and what the router does on it is part of the routing
    main_nowait = [c_ for c_ in incoming_send_calls(P, _stdio.client(P)) if c_.endswith("send_nowait")]

    main_calls = set(incoming_send_calls(P, _stdio.client(P)))

    def would_block(node, st, an2):
        from ..paths import calls_in_order
        tags = set()
        for c_ in calls_in_order(node):
            nm_ = call_name(c_)
            if nm_ in main_nowait:
                tags.add("anyio.WouldBlock")
            elif nm_ not in main_calls and isinstance(c_.func, ast.Attribute) and c_.func.attr in ("send", "send_nowait"):
                # a side channel (the notification stream, a per-request stream) whose receiving end its owner has closed —
                # a caller that gave up on its request, an application that stopped listening — is an ordinary history too:
                # the put raises, and the message must still reach the main stream
                tags.add("anyio.BrokenResourceError")
        return tags

    ra, ro = run_paths(rt.node, event_of=ev, fallible_pred=would_block, mark_handlers=True)
    R.paths += len(ro.ret) + len(ro.normal)
    for st, tag, node in ro.exc:
        R.ob("R4", "a full main stream does not make the router raise", tag != "anyio.WouldBlock", f"{rt.module.rel}:{getattr(node, 'lineno', 0)}", "WouldBlock from the non-blocking put leaves the router")
    IDN = f"getattr({mp}, 'id', None)"
    exits = [st for st, _n in ro.ret] + list(ro.normal)
    R.need(exits, "router has no normal exit")
    seen = set()
    for st in exits:
        mains = [e for e in st.events if e.startswith("main:")]
        notes = [e for e in st.events if e.startswith("notify:")]
        if f"{IDN} is None" in st.lits:
            seen.add("notification")
            maybe = [e for e in st.events if e.startswith("main-maybe:")]
            # (an offer that failed because the application closed its end of the notification stream is still the offer)
            offer_failed = not notes and any(e.startswith("caught:") and "BrokenResourceError" in e for e in st.events)
            R.ob("R4", "notification: offered on the notification stream and delivered on the main stream", mains == [f"main:{mp}"] and (notes == [f"notify:{mp}"] or offer_failed) and not maybe, rt.where,
                 f"events {list(st.events)}" + (f": the delivery helper {sorted(helpers)} can return without having delivered (full main stream)" if maybe else ""), sample=f"R4 id None → {list(st.events)}")
        elif f"{IDN} is not None" in st.lits:
            seen.add("response")
            maybe = [e for e in st.events if e.startswith("main-maybe:")]
            R.ob("R4", "message with id: delivered on the main stream exactly once", mains == [f"main:{mp}"] and not notes and not maybe, rt.where,
                 f"events {list(st.events)}" + (f": the delivery goes through {sorted(helpers)} which has a way out without delivering (a full main stream: the non-blocking put's WouldBlock is absorbed) — a response behind a burst of traffic is dropped before any waiter sees it" if maybe else ""))
        else:
            R.ob("R4", "every routing path tests the id", False, rt.where, f"literals {sorted(st.lits)}")
        R.ob("R4", "no task spawned on the delivery path", "spawn" not in st.events, rt.where, "")
    R.ob("R4", "both routing arms exist", seen == {"notification", "response"}, rt.where, f"{sorted(seen)}")
    spawns = [c for f in (rd,) for c in walk_local(f.node) if isinstance(c, ast.Call) and call_name(c).endswith((".start_soon", ".create_task"))]
    R.ob("R4", "reader does not spawn per-line tasks", not spawns, rd.where, "")
    # the reader → gate → parser → router chain: what is routed is parse_message(<the parsed line>)
    gate = [f for f in P.methods(_stdio.client(P)).values() if any(isinstance(c, ast.Call) and call_name(c) == f"self.{rt.name}" for c in walk_local(f.node))]
    R.need(gate, "anchor: nobody calls the router")
    for g in gate:
        R.fn(g.fq)
        for c in walk_local(g.node):
            if isinstance(c, ast.Call) and call_name(c) == f"self.{rt.name}":
                arg = c.args[0] if c.args else None
                src = None
                if isinstance(arg, ast.Name):
                    ds = [s for s in walk_local(g.node) if isinstance(s, ast.Assign) and ast.unparse(s.targets[0]) == arg.id and s.lineno < c.lineno]
                    src = ast.unparse(ds[-1].value) if ds else None
                R.ob("R4", "what is routed is the parsed line", src is not None and src.startswith("parse_message("), f"{g.module.rel}:{c.lineno}", f"routed value defined by `{src}`")

    # what is delivered is what was written: the envelope models the reader validates with rewrite nothing
    from ..models import ModelTable, config_findings

    T_ = ModelTable(P)
    cf = [x for x in config_findings(T_) if x[0].ci.module.name == A.MOD_JSONRPC]
    for m, k, v, effect in cf:
        R.ob("R4", f"{m.name}: validation of an incoming line leaves its strings as written", False, f"{m.ci.module.rel}:{m.ci.node.lineno}",
             f"model_config[{k!r}] = {v!r} {effect}: separator-like characters at the ends of an id, a method name or a payload key are removed, so the delivered message differs from the line the child wrote (and two different ids can arrive as one)")
    if not cf:
        R.ob("R4", "the envelope models deliver ids, methods and keys as written", True, rel, "", sample="R4 envelope model_config rewrites nothing")


    # ------------------------------------------------------------------ R5: a well-formed line is not refused by the parser
    from ..lift import lift

    lift(P, R, "C02", {"R3"}, "R5",
         "every well-formed line becomes a message: the parser the reader hands each decoded object to classifies the four JSON-RPC shapes by the presence of their members (the kind-table and presence obligations of C02-R3, read here for the clause 'the delivered sequence equals the sequence of well-formed lines the child wrote')",
         "parser: ", min_n=4, suffix=" — the reader logs the refusal and drops the line, so the delivered sequence is missing a message the child wrote")
