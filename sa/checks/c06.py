"""C06 — stdio outbound framing: one message, one line, in order, content preserved."""
from __future__ import annotations

import ast
import re

from .. import anchors as A
from ..consteval import try_fold
from ..model import local_values, AnalysisError, FuncInfo, Project, call_name, kwarg, walk_local
from ..paths import PState, PathAnalysis, run_paths, subst_text
from ..report import Report
from . import _stdio


def _check_body(P: Project, R: Report) -> None:
    R.rule("R1", "each non-exceptional iteration of the writer loop performs exactly one stdin.send(payload) with payload = f\"{s}\\n\" encoded as UTF-8 (one trailing LF constant, nothing else)")
    R.rule("R2", "every value that reaches `s` is line-safe: the result of a compact serialiser (fast_json.dumps / model_dump_json without indent) or a string on a path that excluded raw CR/LF (or re-encoded it)")
    R.rule("R3", "model serialisation paths pass exclude_none=True (absent optional members are omitted, not sent as null); under the no-Pydantic backend that flag reaches only declared members — the nested serialiser keeps the elements of free-form dict/list values one to one")
    R.rule("R4", "dropped alone / in order: with every call in the loop body fallible, no exception edge, break or return leaves the writer loop body; nothing is spawned")
    R.rule("R5", "the normal end of the outgoing stream is followed by stdin.aclose(), and the caller's write stream is the only lasting sending handle on that stream (no clone kept), so closing it is that end")
    wr, loop = _stdio.writer(P)
    R.fn(wr.fq)
    rel = wr.module.rel
    msg = ast.unparse(loop.target)

    # helpers of the client that do the write for the writer loop (`await self._write_line(data)`): the line is their argument
    cl_meths = P.methods(_stdio.client(P))
    write_helpers = {}
    for g_ in cl_meths.values():
        if g_ is wr:
            continue
        ws_ = [c_ for c_ in walk_local(g_.node) if _stdio.is_stdin_write(c_, g_.node)]
        ps_ = [p_ for p_ in g_.positional_params() if p_ != "self"]
        if ws_ and len(ps_) == 1 and all(c_.args and isinstance(c_.args[0], ast.Name) and c_.args[0].id == ps_[0] for c_ in ws_) \
                and any(isinstance(c_, ast.Call) and call_name(c_) == f"self.{g_.name}" for c_ in walk_local(loop)):
            write_helpers[g_.name] = (g_, ws_)
    for hn_, (g_, ws_) in sorted(write_helpers.items()):
        R.fn(g_.fq)
        in_loop = [c_ for l_ in walk_local(g_.node) if isinstance(l_, (ast.For, ast.AsyncFor, ast.While)) for c_ in walk_local(l_) if c_ in ws_]
        ha_, ho_ = run_paths(g_.node, event_of=lambda c_, st_, an_, g_=g_: "w" if _stdio.is_stdin_write(c_, g_.node) else None, fallible=False)
        counts_ = {st_.count("w") for st_, _n in ho_.ret} | {st_.count("w") for st_ in ho_.normal}
        R.ob("R1", f"{g_.qual}: the line it is given is put on the pipe by one write", not in_loop and counts_ <= {0, 1}, f"{rel}:{(in_loop or ws_)[0].lineno}",
             (f"`{ast.unparse(in_loop[0])[:50]}` sits in a loop: the same line (or pieces of it) can be written more than once — a write that was cut short by a timeout has already queued its bytes, so offering the line again delivers it twice; and every awaited write lets another task's line land in between" if in_loop else f"write counts per path {sorted(counts_)}"),
             sample=f"R1 {g_.qual}: one stdin write per call")

    # ------------------------------------------------------------------ R6: nothing is written past lines still held back
    R.rule("R6", "in the order sent: a writer that gathers lines in an accumulator and writes it later never puts another line on the pipe while the accumulator may hold unwritten ones (it is written out, or found empty, first)")
    from ..order import writes_past_accumulator

    wfn = wr.node
    w_writes = [c_ for c_ in walk_local(wfn) if isinstance(c_, ast.Call) and _stdio.is_stdin_write(c_, wfn)]
    grown = {x.target.id for x in walk_local(wfn) if isinstance(x, ast.AugAssign) and isinstance(x.op, ast.Add) and isinstance(x.target, ast.Name)} \
        | {x.func.value.id for x in walk_local(wfn) if isinstance(x, ast.Call) and isinstance(x.func, ast.Attribute) and x.func.attr in ("append", "extend") and isinstance(x.func.value, ast.Name)}
    lvw = local_values(wfn)

    def _mentions(e, names, depth=0) -> bool:
        for n_ in ast.walk(e):
            if isinstance(n_, ast.Name):
                if n_.id in names:
                    return True
                if depth < 3 and n_.id not in ("self",):
                    if any(v_ is not None and _mentions(v_, names, depth + 1) for v_ in lvw.get(n_.id, [])):
                        return True
        return False

    accs = {a_ for a_ in grown if any(c_.args and _mentions(c_.args[0], {a_}) for c_ in w_writes)}
    if accs:
        past = writes_past_accumulator(
            wfn, accs,
            is_hold=lambda c_: isinstance(c_.func, ast.Attribute) and c_.func.attr in ("append", "extend") and isinstance(c_.func.value, ast.Name) and c_.func.value.id in accs,
            is_flush=lambda c_: isinstance(c_.func, ast.Attribute) and c_.func.attr == "clear" and isinstance(c_.func.value, ast.Name) and c_.func.value.id in accs,
            is_direct=lambda c_: c_ in w_writes and not (c_.args and _mentions(c_.args[0], accs)))
        for c_ in past:
            R.ob("R6", "no line is written while earlier ones are still held back", False, f"{rel}:{c_.lineno}",
                 f"`{ast.unparse(c_)[:60]}` puts a line on the pipe while `{sorted(accs)[0]}` may still hold lines taken off the stream before it: those reach the child after this one — a large message overtakes the small ones queued ahead of it")
        if not past:
            R.ob("R6", "the accumulator is written out (or empty) before anything else is written", True, f"{rel}:{wfn.lineno}", "", sample=f"R6 {wr.qual}: accumulator {sorted(accs)} never bypassed")
    else:
        R.ob("R6", "each line is written where it is made (no accumulator in the writer)", True, f"{rel}:{wfn.lineno}", "", sample=f"R6 {wr.qual}: {len(w_writes)} stdin write site(s), none fed from an accumulator")

    def ev(call, st: PState, an: PathAnalysis):
        nm = call_name(call)
        if isinstance(call.func, ast.Attribute) and call.func.attr in ("send", "send_all", "write"):
            nm = subst_text(call.func.value, st) + "." + call.func.attr  # (`stdin = self.process.stdin; await stdin.send(…)`)
        if nm.startswith("self.") and nm.count(".") == 1 and nm[5:] in write_helpers and call.args:
            nm = "self.process.stdin.send"  # a method of the client that puts its argument on the pipe (checked below)
        if nm.endswith("stdin.send") or nm.endswith("stdin.send_all") or nm.endswith("stdin.write"):
            arg = call.args[0] if call.args else None
            return "send:" + (subst_text(arg, st) if arg is not None else "?") + "||" + "&&".join(sorted(st.lits))
        if nm.endswith((".start_soon", ".create_task")):
            return "spawn"
        return None

    body = ast.Module(body=loop.body, type_ignores=[])
    an, out = run_paths(body, event_of=ev, fallible_pred=_stdio.loop_fallible())
    an.parents = A.exception_parents(P)
    R.paths += len(out.normal) + len(out.cont) + len(out.exc)

    # ------------------------------------------------------------------ R4
    esc = {}
    for st, tag, node in out.exc:
        esc.setdefault((tag, getattr(node, "lineno", 0)), ast.unparse(node)[:60])
    R.ob("R4", "no exception edge leaves the writer loop body", not esc, f"{rel}:{loop.lineno}", "; ".join(f"line {l}: `{s}` may raise {t}" for (t, l), s in sorted(esc.items())))
    R.ob("R4", "no break/return leaves the writer loop", not out.brk and not out.ret, f"{rel}:{loop.lineno}", f"break {len(out.brk)} return {len(out.ret)}")
    ends = list(out.normal) + list(out.cont)
    R.need(ends, "writer loop body has no normal exit")
    R.ob("R4", "nothing is spawned per message", not any("spawn" in st.events for st in ends), f"{rel}:{loop.lineno}", "")

    # ------------------------------------------------------------------ R1 / R2 / R3
    success = [st for st in ends if any(e.startswith("send:") for e in st.events)]
    R.need(success, "anchor: no iteration path writes to stdin")
    # one line, one write: a write inside a loop of its own puts the line on the pipe in pieces, with a checkpoint after each
    lv_w = local_values(wr.node)

    def is_stdin(e) -> bool:
        t = ast.unparse(e)
        if t.endswith("stdin"):
            return True
        return isinstance(e, ast.Name) and any(v is not None and ast.unparse(v).endswith("stdin") for v in lv_w.get(e.id, []))

    for inner in [l for l in walk_local(loop) if isinstance(l, (ast.For, ast.AsyncFor, ast.While)) and l is not loop]:
        for c in walk_local(inner):
            if isinstance(c, ast.Call) and isinstance(c.func, ast.Attribute) and c.func.attr in ("send", "send_all", "write") and is_stdin(c.func.value):
                R.ob("R1", "a line is put on the pipe by one write", False, f"{rel}:{c.lineno}",
                     f"`{ast.unparse(c)[:60]}` runs once per piece of the line, and every awaited write lets other tasks run: the reader task's own write to the same pipe (the batch-rejection reply) can land between two pieces, so the child sees a raw line break inside a message and two lines that do not decode")
    # an iteration that ends without a send must have gone through the except arm (message dropped)
    silent = [st for st in ends if not any(e.startswith("send:") for e in st.events)]
    handler_vars = {h.name for t in walk_local(loop) if isinstance(t, ast.Try) for h in t.handlers if h.name}
    for st in silent:
        R.ob("R1", "an iteration without a write is the error arm", any(st.term(v) for v in handler_vars), f"{rel}:{loop.lineno}", f"a normal path skips the write (literals {sorted(l[:50] for l in st.lits)})")
    shapes = set()
    for st in success:
        sends = [e for e in st.events if e.startswith("send:")]
        R.ob("R1", "exactly one stdin write per delivered message", len(sends) == 1, f"{rel}:{loop.lineno}", f"{len(sends)} writes on one iteration path")
        payload, lits = sends[0][len("send:"):].split("||", 1)
        lits = set(lits.split("&&")) if lits else set()
        # the frame may be bound to a local first (`line = f"{s}\n".encode(); … send(line)`): read its definition
        for _ in range(3):
            d_ = an.defs.get(payload)
            if d_ is None or not isinstance(d_[1], ast.AST) or d_[0].startswith(("iter:", "enter:", "unpack:", "caught", "aug:")):
                break
            payload = d_[0]
        try:
            pn = ast.parse(payload, mode="eval").body
        except SyntaxError:
            pn = None
        inner, suffix, enc_ok, recognised = _frame_parts(pn)
        R.need(recognised, f"the stdin payload `{payload[:60]}` is built in a shape this rule cannot read (expected <text> + LF, encoded)")
        ok_frame = suffix == "\n" and enc_ok
        R.ob("R1", "payload is f\"{s}\\n\".encode() — one trailing LF, UTF-8", ok_frame, f"{rel}:{loop.lineno}", f"payload `{payload[:80]}`: terminator {suffix!r}, UTF-8 encoding: {enc_ok}")
        if inner is None:
            continue
        # classify the serialised text
        d = an.defs.get(inner)
        kind = None
        known_bad = False
        detail = an.origin(inner)[:110]
        trims = (f"{msg}.strip()", f"{msg}.rstrip()", f"{msg}.lstrip()")
        trimmed = inner in trims or (d is not None and d[0] in trims)
        if d is not None and isinstance(d[1], ast.Call) and not trimmed:
            c = d[1]
            cn = call_name(c)
            indent = kwarg(c, "indent")
            callee = c.func.id if isinstance(c.func, ast.Name) else None
            callee_def = None
            if callee:
                t = None
                for k, vv in st.env:
                    if k == callee:
                        t = vv
                callee_def = an.origin(t) if t else None  # (`dump_json = getattr(message, "model_dump_json", None)` under whatever local name)
            if cn == "json.dumps" and indent is None:
                arg0 = c.args[0] if c.args else None
                if isinstance(arg0, ast.Call) and call_name(arg0) == "json.loads":
                    kind = "re-encoded str"
                elif isinstance(arg0, ast.Call):
                    # json.dumps(model_dump_method(exclude_none=True))
                    kind = "dumps(model_dump)"
                    R.ob("R3", "model_dump path passes exclude_none=True", _true(kwarg(arg0, "exclude_none")), f"{rel}:{c.lineno}", ast.unparse(arg0)[:60])
                else:
                    kind = "dumps(obj)"
                    if arg0 is not None and ast.unparse(arg0) == msg:
                        # the message itself serialised as an object: only after `isinstance(message, str)` has said no — a
                        # pre-serialised text (any str, subclasses included) that gets here is written as a JSON *string*
                        # holding the document instead of the document
                        R.ob("R2", "a pre-serialised string never reaches the object serialiser", _excludes_text(lits, msg) or any(f"isinstance({msg}, {t_})" in lits or f"type({msg}) is {t_}" in lits for t_ in ("dict", "list", "tuple", "int", "float", "bool")), f"{rel}:{c.lineno}",
                             f"`{ast.unparse(c)[:50]}` is reached under {sorted(l[:40] for l in lits if msg in l)[:4]}: no `isinstance({msg}, str)` test has excluded text on this path (an exact-type test `type({msg}) is str` lets an instance of a str subclass through), so such a message is written as one JSON string wrapping the document — the line decodes, but not to the message",
                             sample=f"R2 json.dumps({msg}) only where isinstance({msg}, str) is false")
            elif callee_def and "'model_dump_json'" in callee_def and indent is None:
                kind = "model_dump_json"
                R.ob("R3", "model_dump_json path passes exclude_none=True", _true(kwarg(c, "exclude_none")), f"{rel}:{c.lineno}", ast.unparse(c)[:60])
            elif cn.endswith(".model_dump_json") and indent is None:
                kind = "model_dump_json"
                R.ob("R3", "model_dump_json path passes exclude_none=True", _true(kwarg(c, "exclude_none")), f"{rel}:{c.lineno}", ast.unparse(c)[:60])
            elif indent is not None:
                kind = None
                known_bad = True
                detail = f"serialiser called with indent: `{ast.unparse(c)[:70]}`"
        elif inner == msg or trimmed:
            # raw pass-through of the caller's string (possibly with the blanks at its ends cut off — still a piece of the
            # caller's text, no character added): only on a path that excluded CR and LF from what is framed
            def _excludes_breaks(msg=msg) -> bool:
                if f"'\\n' not in {msg}" in lits and f"'\\r' not in {msg}" in lits:
                    return True
                # set form: `BREAKS.isdisjoint(msg)` / `not (set(msg) & BREAKS)` with BREAKS ⊇ {LF, CR}
                for l in lits:
                    m_ = re.fullmatch(r"([A-Za-z_][\w.]*)\.isdisjoint\(" + re.escape(msg) + r"\)", l)
                    if m_:
                        v = try_fold(P, wr.module, ast.parse(m_.group(1), mode="eval").body)
                        if isinstance(v, (set, frozenset, list, tuple, str)) and {"\n", "\r"} <= set(v):
                            return True
                    # `not any(b in msg for b in BREAKS)` — BREAKS a named constant or written out in place
                    try:
                        n_ = ast.parse(l, mode="eval").body
                    except SyntaxError:
                        continue
                    if isinstance(n_, ast.UnaryOp) and isinstance(n_.op, ast.Not) and isinstance(n_.operand, ast.Call) and call_name(n_.operand) == "any" and len(n_.operand.args) == 1 \
                            and isinstance(n_.operand.args[0], (ast.GeneratorExp, ast.ListComp)) and len(n_.operand.args[0].generators) == 1:
                        ge = n_.operand.args[0]
                        g0 = ge.generators[0]
                        e0 = ge.elt
                        if isinstance(g0.target, ast.Name) and not g0.ifs and isinstance(e0, ast.Compare) and len(e0.ops) == 1 and isinstance(e0.ops[0], ast.In) \
                                and isinstance(e0.left, ast.Name) and e0.left.id == g0.target.id and ast.unparse(e0.comparators[0]) == msg:
                            v = try_fold(P, wr.module, g0.iter)
                            if isinstance(v, (set, frozenset, list, tuple, str)) and {"\n", "\r"} <= set(v):
                                return True
                return False

            if _excludes_breaks() or (inner != msg and _excludes_breaks(inner)):
                kind = "str without CR/LF"
            else:
                known_bad = True
                detail = f"caller-supplied str reaches the frame with literals {sorted(l[:40] for l in lits)}"
        def _only_text_operations(t: str) -> bool:
            """the expression is built from the message by str methods, str()/repr()/format, slices and f-strings alone (a call of
            anything else — a function taken from a table, a helper this reading did not see into — may well be a serialiser)"""
            try:
                n_ = ast.parse(t.replace("<", "(").replace(">", ")"), mode="eval").body
            except SyntaxError:
                return False
            for c_ in ast.walk(n_):
                if isinstance(c_, ast.Call):
                    f_ = c_.func
                    if isinstance(f_, ast.Attribute) and f_.attr in ("join", "splitlines", "split", "rsplit", "strip", "lstrip", "rstrip", "replace", "format", "encode", "decode", "lower", "upper", "expandtabs", "translate", "removeprefix", "removesuffix", "partition", "rpartition"):
                        continue
                    if isinstance(f_, ast.Name) and f_.id in ("str", "repr", "format"):
                        continue
                    return False
            return True

        if kind is None and not known_bad and re.search(r"(?<![\w.])" + re.escape(msg) + r"(?![\w])", detail) and "dumps(" not in detail and "model_dump" not in detail and _only_text_operations(detail):
            known_bad = True  # text made from the caller's own string by something other than a serialiser (`"".join(message.splitlines())` …)
            detail = f"caller-supplied str reaches the frame through `{detail[:70]}`"
        if kind is None and not known_bad:
            # where the text comes from is not one of the shapes this rule knows to be safe or unsafe: undecided, not a finding
            raise AnalysisError(f"{rel}:{loop.lineno}: the text framed for stdin is produced by `{detail[:90]}`, a shape this rule cannot classify (known: json.dumps(obj), model_dump_json(), a str with CR/LF excluded or re-encoded)")
        shapes.add(kind)
        R.ob("R2", f"serialised text is line-safe ({kind or 'UNSAFE'})", kind is not None, f"{rel}:{loop.lineno}", detail, sample=f"R2 {wr.qual}: s := {detail[:90]} [{kind}]")
    R.ob("R2", "all three accepted shapes are serialised", {"dumps(obj)", "model_dump_json"} <= shapes and any(s and s.startswith(("str", "dumps(obj)")) for s in shapes), rel, f"shapes {sorted(map(str, shapes))}")
    # the compact serialiser itself: fast_json.dumps never adds indentation unless asked
    fj = P.func(A.MOD_FASTJSON, "dumps")
    R.fn(fj.fq)
    bad = [n.lineno for n in walk_local(fj.node) if isinstance(n, ast.Attribute) and n.attr == "OPT_APPEND_NEWLINE"]
    R.ob("R2", "fast_json.dumps uses no newline-appending option", not bad, f"{fj.module.rel}:{bad[0] if bad else fj.node.lineno}", f"OPT_APPEND_NEWLINE at lines {bad}")
    ind = [n for n in walk_local(fj.node) if isinstance(n, ast.Attribute) and n.attr == "OPT_INDENT_2"]
    for n in ind:
        guards = [i for i in walk_local(fj.node) if isinstance(i, ast.If) and n in list(walk_local(i)) and "indent" in ast.unparse(i.test)]
        R.ob("R2", "OPT_INDENT_2 only when the caller asked for indent", bool(guards), f"{fj.module.rel}:{n.lineno}", "")

    # ------------------------------------------------------------------ R5
    # the statements that follow the loop in its enclosing block are what runs when the outgoing stream ends
    after = None
    for n in walk_local(wr.node):
        for fld in ("body", "orelse", "finalbody"):
            blk = getattr(n, fld, None)
            if isinstance(blk, list) and loop in blk:
                after = blk[blk.index(loop) + 1:]
    R.need(after is not None, "anchor: enclosing block of the writer loop not found")
    fa, fo = run_paths(ast.Module(body=after, type_ignores=[]), event_of=lambda c, st, an2: "aclose" if call_name(c).endswith("stdin.aclose") else None, fallible=False)
    ends_fn = list(fo.normal) + [st for st, _n in fo.ret]
    R.ob("R5", "something follows the loop", bool(after) and bool(ends_fn), wr.where, "the writer loop is the last statement: stdin is never closed")
    for st in ends_fn:
        no_proc = any(l.startswith("not self.process") for l in st.lits)
        if not no_proc:
            R.ob("R5", "stream end → stdin.aclose()", "aclose" in st.events, wr.where, f"normal exit without closing stdin (literals {sorted(l[:40] for l in st.lits)})", sample="R5 outgoing stream ends → await self.process.stdin.aclose()")
    R.ob("R5", "some exit closes stdin", any("aclose" in st.events for st in ends_fn), wr.where, "")
    closes = [c for c in walk_local(wr.node) if isinstance(c, ast.Call) and call_name(c).endswith("stdin.aclose")]
    R.ob("R5", "the close is after the loop, not inside it", bool(closes) and all(c not in list(walk_local(loop)) for c in closes), wr.where, "")

    # typed messages under the no-Pydantic backend: the writer's model_dump_json(exclude_none=True) goes through the
    # fallback's nested serialiser, which must keep explicit nulls inside free-form dict/list payload values
    from ..roles import canonical_fallback
    from .c09 import fallback_defs, nested_serialiser_obligations

    PF = canonical_fallback(P, A.MOD_BASE)
    _funcs, _classes, _split = fallback_defs(PF)
    fbc = _classes.get("McpPydanticBase")
    R.need(fbc is not None, "anchor: fallback McpPydanticBase not found")
    fbm_ = {s_.name: s_ for s_ in fbc.body if isinstance(s_, (ast.FunctionDef, ast.AsyncFunctionDef))}
    for label, ok, lineno, detail, sample in nested_serialiser_obligations(fbm_, R, _funcs):
        R.ob("R3", label, ok, f"{PF.module(A.MOD_BASE).rel}:{lineno}", detail.replace("so the two backends re-serialise the same message differently", "so the line the child receives lacks a member the message has (only absent optional members of the typed envelope may be omitted)"), sample=("R3 " + sample) if sample else None)

    # closing the write stream ends the outgoing stream only if the caller's handle is the only sending handle:
    # a clone of the send end that lives on (anything but `with … .clone() as h`) keeps the writer's `async for` from ever ending
    from ..roles import stream_roles

    ci = _stdio.client(P)
    out_send = stream_roles(P, ci)["outgoing_send"]
    n_fn = 0
    kept = []
    for f in list(P.methods(ci).values()) + [g for g in P.funcs.values() if g.module is ci.module and g.cls is None]:
        n_fn += 1
        managed = {id(it.context_expr) for w in walk_local(f.node) if isinstance(w, (ast.With, ast.AsyncWith)) for it in w.items}
        for c in walk_local(f.node):
            if isinstance(c, ast.Call) and isinstance(c.func, ast.Attribute) and c.func.attr == "clone":
                recv = c.func.value
                if isinstance(recv, ast.Name):
                    vals = [v for v in local_values(f.node).get(recv.id, []) if v is not None]
                    recv = next((v for v in vals if isinstance(v, ast.Attribute)), recv)
                if ast.unparse(recv) == f"self.{out_send}" and id(c) not in managed:
                    kept.append((f, c))
    R.extra["functions_searched_for_send_handles"] = n_fn
    R.ob("R5", "the caller's write stream is the only sending handle on the outgoing stream", not kept, f"{kept[0][0].module.rel}:{kept[0][1].lineno}" if kept else wr.where,
         (f"`{ast.unparse(kept[0][1])}` in {kept[0][0].qual} makes a second sending handle that is not closed with the caller's: after the caller closes the write stream the writer loop never sees the end of the stream and stdin stays open" if kept else ""),
         sample=f"R5 no lasting clone of self.{out_send} in {n_fn} functions")


_check_main = None


def _excludes_text(lits, msg: str) -> bool:
    """some literal of the path says `not isinstance(<msg>, str)` — `str` alone or among the classes of a tuple"""
    for l in lits:
        try:
            n = ast.parse(l, mode="eval").body
        except SyntaxError:
            continue
        if isinstance(n, ast.UnaryOp) and isinstance(n.op, ast.Not) and isinstance(n.operand, ast.Call) and call_name(n.operand) == "isinstance" and len(n.operand.args) == 2 and ast.unparse(n.operand.args[0]) == msg:
            ci = n.operand.args[1]
            names = [ci] if isinstance(ci, ast.Name) else (list(ci.elts) if isinstance(ci, ast.Tuple) else [])
            if any(isinstance(x, ast.Name) and x.id == "str" for x in names):
                return True
    return False


def _utf8(call: ast.Call) -> bool:
    if not call.args and not call.keywords:
        return True
    a0 = call.args[0] if call.args else kwarg(call, "encoding")
    return isinstance(a0, ast.Constant) and str(a0.value).lower().replace("_", "-") in ("utf-8", "utf8") and len(call.args) <= 1 and all(k.arg == "encoding" for k in call.keywords)


def _text_parts(v):
    """(inner expression text, constant suffix) of `f"{s}<suffix>"` / `s + "<suffix>"`, or (None, None)."""
    if isinstance(v, ast.JoinedStr):
        vals = v.values
        if vals and isinstance(vals[0], ast.FormattedValue) and vals[0].conversion == -1 and vals[0].format_spec is None and all(isinstance(x, ast.Constant) for x in vals[1:]):
            return ast.unparse(vals[0].value), "".join(str(x.value) for x in vals[1:])
        return None, None
    if isinstance(v, ast.BinOp) and isinstance(v.op, ast.Add) and isinstance(v.right, ast.Constant) and isinstance(v.right.value, (str, bytes)):
        suf = v.right.value.decode("latin-1") if isinstance(v.right.value, bytes) else v.right.value
        if isinstance(v.left, ast.Call) and isinstance(v.left.func, ast.Attribute) and v.left.func.attr == "encode":
            return ast.unparse(v.left.func.value), suf  # s.encode() + b"\n"
        return ast.unparse(v.left), suf
    return None, None


def _frame_parts(pn):
    """inner text expression, terminator constant, is-UTF-8, recognised?"""
    if isinstance(pn, ast.Call) and isinstance(pn.func, ast.Attribute) and pn.func.attr == "encode":
        inner, suf = _text_parts(pn.func.value)
        if inner is not None:
            return inner, suf, _utf8(pn), True
        if isinstance(pn.func.value, (ast.Name,)):
            return ast.unparse(pn.func.value), "", _utf8(pn), True  # bare s.encode(): no terminator
        return None, None, False, False
    if isinstance(pn, ast.BinOp):
        inner, suf = _text_parts(pn)
        if inner is not None:
            enc = pn.left if isinstance(pn.left, ast.Call) else None
            return inner, suf, (_utf8(enc) if enc is not None else False), True
    return None, None, False, False


def _true(node) -> bool:
    return isinstance(node, ast.Constant) and node.value is True



def _lift_codec(P: Project, R: Report) -> None:
    """A plain-dict message is written by `json.dumps` of the package's codec: where the fast backend refuses an object the
    standard one accepts (integers beyond 64 bits, deep nesting, non-str keys), the standard arm must still be tried — a
    refusal re-raised there is caught by the writer's per-message handler and the message is dropped."""
    from ..lift import lift

    lift(P, R, "C17", {"R1", "R4"}, "R7",
         "every serialisable message is serialised: in the codec's dumps the standard-library arm is reached whenever the fast backend raises (the sibling-arm obligations of C17-R1/R4, read here for 'every message accepted on the write stream reaches the child')",
         "codec: ", min_n=2, suffix=" — a message the fast backend refuses and the standard one would have written is dropped by the writer's error arm",
         select=lambda o: "dumps" in o.key)


def check(P: Project, R: Report) -> None:
    _lift_codec(P, R)
    _check_body(P, R)
