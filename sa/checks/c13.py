"""C13 — batches are accepted exactly for protocol versions older than 2025-06-18."""
from __future__ import annotations

import ast
import itertools

from .. import anchors as A
from ..consteval import try_fold
from ..dectree import Cell, decide, int_constants_compared, partition, _cmp
from ..model import AnalysisError, FuncInfo, Project, walk_local, call_name
from ..paths import PState, run_paths, subst_text, is_benign_call
from ..report import Report
from ..roles import incoming_send_calls, stream_roles

CUTOFF = (2025, 6, 18)  # the property's own constant


VALID_MEMBERS = [
    ("a request with id 0", {"jsonrpc": "2.0", "id": 0, "method": "ping"}),
    ("a request with a string id", {"jsonrpc": "2.0", "id": "a", "method": "tools/list", "params": {}}),
    ("a notification", {"jsonrpc": "2.0", "method": "notifications/progress", "params": {}}),
    ("a response with id 0", {"jsonrpc": "2.0", "id": 0, "result": {}}),
    ("a response with the empty string as id", {"jsonrpc": "2.0", "id": "", "result": {"x": 1}}),
    ("a response with a null result", {"jsonrpc": "2.0", "id": 7, "result": None}),
    ("a response with a falsy result", {"jsonrpc": "2.0", "id": 7, "result": 0}),
    ("an error response with id 0", {"jsonrpc": "2.0", "id": 0, "error": {"code": -32601, "message": "m"}}),
    ("an error response", {"jsonrpc": "2.0", "id": "r-1", "error": {"code": -32000, "message": ""}}),
]


def _filtered_view_obligations(P: Project, R: Report, pm: FuncInfo, g: FuncInfo, loop) -> None:
    """`g(batch)` yields members of the batch: unchanged, in order, and every member that is a valid message.  The filter
    is read off for a fixed set of valid members (falsy ids, null and falsy results included) without running anything."""
    from ..consteval import NotConstant, fold

    params = [p_ for p_ in g.positional_params() if p_ != "self"]
    R.need(len(params) == 1, f"anchor: {g.qual} takes {len(params)} arguments, not the batch alone")
    bp = params[0]
    floops = [n for n in walk_local(g.node) if isinstance(n, ast.For)]
    yields = [n for n in walk_local(g.node) if isinstance(n, (ast.Yield, ast.YieldFrom))]
    comp = None
    if not floops and not yields:
        rets = [r for r in walk_local(g.node) if isinstance(r, ast.Return) and r.value is not None]
        if len(rets) == 1 and isinstance(rets[0].value, (ast.ListComp, ast.GeneratorExp)) and len(rets[0].value.generators) == 1:
            comp = rets[0].value
    item = pred = None
    where = g.where
    if comp is not None:
        gen = comp.generators[0]
        if isinstance(gen.target, ast.Name) and ast.unparse(gen.iter) == bp and isinstance(comp.elt, ast.Name) and comp.elt.id == gen.target.id:
            item = gen.target.id
            pred = gen.ifs
    elif len(floops) == 1 and len(yields) >= 1 and all(isinstance(y, ast.Yield) for y in yields):
        fl = floops[0]
        it = fl.iter
        tgt = fl.target
        if isinstance(it, ast.Call) and call_name(it) == "enumerate" and len(it.args) == 1 and isinstance(tgt, ast.Tuple) and len(tgt.elts) == 2:
            it, tgt = it.args[0], tgt.elts[1]
        if ast.unparse(it) == bp and isinstance(tgt, ast.Name) and all(isinstance(y.value, ast.Name) and y.value.id == tgt.id for y in yields) and not fl.orelse:
            item = tgt.id
            # the condition under which the single yield is reached: the tests of the ifs enclosing it, with their polarity
            conds = []

            def find(stmts, acc):
                for s_ in stmts:
                    if isinstance(s_, ast.Expr) and isinstance(s_.value, ast.Yield):
                        conds.append(list(acc))
                    elif isinstance(s_, ast.If):
                        find(s_.body, acc + [s_.test])
                        find(s_.orelse, acc + [ast.UnaryOp(op=ast.Not(), operand=s_.test)])
                    elif isinstance(s_, (ast.Try, ast.With, ast.For, ast.While)):
                        conds.append(None)

            find(fl.body, [])
            if len(conds) == 1 and conds[0] is not None and len(yields) == 1:
                pred = conds[0]
    if item is None or pred is None:
        raise AnalysisError(f"the batch is iterated through {g.qual}, whose body is not a plain in-order filter of its argument — a shape this rule cannot read")
    R.fn(g.fq)
    R.ob("R3", f"{g.qual} yields the members of the batch unchanged and in order", True, where, "", sample=f"R3 {g.qual}: in-order filter of `{bp}` by {[ast.unparse(c)[:40] for c in pred]}")
    class _Kept(Exception):
        pass

    def run_body(stmts, env):
        """one iteration of the filter loop for a constant member: True as soon as the member is yielded"""
        for s_ in stmts:
            if isinstance(s_, ast.Expr) and isinstance(s_.value, ast.Yield):
                raise _Kept()
            if isinstance(s_, ast.Expr) and isinstance(s_.value, ast.Call) and call_name(s_.value).split(".")[0] in ("logger", "logging", "log"):
                continue
            if isinstance(s_, (ast.Pass,)) or (isinstance(s_, ast.Expr) and isinstance(s_.value, ast.Constant)):
                continue
            if isinstance(s_, ast.Continue):
                return "continue"
            if isinstance(s_, ast.Assign) and len(s_.targets) == 1 and isinstance(s_.targets[0], ast.Name):
                env[s_.targets[0].id] = fold(P, g.module, s_.value, local=env)
                continue
            if isinstance(s_, ast.If):
                r = run_body(s_.body if fold(P, g.module, s_.test, local=env) else s_.orelse, env)
                if r == "continue":
                    return r
                continue
            raise NotConstant(ast.unparse(s_)[:60])
        return None

    for label, member in VALID_MEMBERS:
        try:
            if comp is not None:
                kept = all(bool(fold(P, g.module, c, local={item: member})) for c in pred)
            else:
                try:
                    run_body(floops[0].body, {item: member, "index": 0})
                    kept = False
                except _Kept:
                    kept = True
        except NotConstant as e:
            raise AnalysisError(f"the member filter of {g.qual} (`{' and '.join(ast.unparse(c)[:40] for c in pred)}`) cannot be read off for {label}: {e}")
        R.ob("R3", f"{g.qual} keeps {label}", kept, where,
             f"the filter `{' and '.join(ast.unparse(c)[:50] for c in pred)}` is false for `{member}`: a valid member of an accepted batch is left out before it is parsed, although the same object sent alone on a line is delivered",
             sample=f"R3 {g.qual}: keeps {label}")


def check(P: Project, R: Report) -> None:
    R.rule("R1", "supports_batching, interpreted over the interval partition of (year, month, day) induced by every constant it compares with, returns True exactly on the regions lexicographically below (2025, 6, 18); None/empty -> True")
    R.rule("R2", "ProtocolVersion.compare orders two validated strings by plain string comparison and validate_format admits only dddd-dd-dd, so string order = date order and R1's oracle is compare(v, '2025-06-18') < 0")
    R.rule("R3", "stdio reader: a list while batching is disabled gets exactly one -32600 write and no member is routed; with batching every member is routed in list order inside its own try; the mode is read per message")
    r1(P, R)
    r2(P, R)
    r3(P, R)


# ----------------------------------------------------------------------------- R1
def r1(P: Project, R: Report) -> None:
    fi = P.func(A.MOD_BATCH, "supports_batching")
    R.fn(fi.fq)
    params = fi.positional_params()
    R.need(len(params) >= 1, "supports_batching lost its parameter")
    p = params[0]
    consts = set(int_constants_compared(fi.node)) | set(CUTOFF)
    consts = {c for c in consts if abs(c) < 10**6}
    R.need(len(consts) <= 14, f"{len(consts)} distinct integer constants in the cascade; region product too large to enumerate")
    cells = partition(consts)
    comp = [f"int({p}.split('-')[{i}])" for i in range(3)]
    import re

    unpack_forms = [
        re.compile(r"^unpack:\(int\((\w+)\) for \1 in (?P<src>.+)\)\[(?P<i>\d)\]$"),
        re.compile(r"^unpack:\[int\((\w+)\) for \1 in (?P<src>.+)\]\[(?P<i>\d)\]$"),
        re.compile(r"^unpack:(?:tuple|list)\(int\((\w+)\) for \1 in (?P<src>.+)\)\[(?P<i>\d)\]$"),
        re.compile(r"^unpack:(?:tuple\(|list\()?map\(int, (?P<src>.+?)\)\)?\[(?P<i>\d)\]$"),
    ]

    def canon(term, defs):
        """A name bound by unpacking `int(x) for x in <parts>` / `map(int, <parts>)` denotes int(<parts>[i])."""
        d = defs.get(term, ("", None))[0]
        for rx in unpack_forms:
            m = rx.match(d)
            if m:
                return f"int({m.group('src')}[{m.group('i')}])"
        return None

    n = 0
    bad = 0
    nontrivial = set()
    for cy, cm, cd in itertools.product(cells, repeat=3):
        region = {p: "<well-formed version>", f"len({p}.split('-'))": 3, comp[0]: cy, comp[1]: cm, comp[2]: cd}
        # months/days/years are non-negative in the property's domain but the decision must hold for every int
        res = decide(fi.node, region, canon)
        n += 1
        want = _cmp((cy, cm, cd), ast.Lt(), CUTOFF)
        vals = {(k, v if k != "raise" else str(v)) for k, v, _n in res}
        opaque = [v for k, v in vals if isinstance(v, tuple) and v and v[0] == "<opaque>"]
        if opaque:
            # the decision returns a value this rule cannot evaluate from constants (e.g. a cutoff computed by a call at
            # import time): undecided, not a disagreement
            raise AnalysisError(f"supports_batching returns `{opaque[0][1]}`, which does not fold to a comparison with constants (decision outside the decidable fragment)")
        ok = vals == {("return", want)}
        sig = (cy.rel(CUTOFF[0]), cm.rel(CUTOFF[1]), cd.rel(CUTOFF[2]))
        nontrivial.add(sig)
        if not ok:
            bad += 1
            line = res[0][2].lineno if res else fi.node.lineno
            if bad <= 3:
                R.ob("R1", f"region year{cy} month{cm} day{cd}", False,     f"{fi.module.rel}:{line}",
                     f"supports_batching yields {sorted(map(str, vals))} but a version in this region is {'older' if want else 'not older'} than 2025-06-18 (expected {want})")
        elif len(R.samples) < 12:
            R.sample(f"R1 region year{cy} month{cm} day{cd} -> {want}")
    R.ob("R1", "all regions agree with (y,m,d) < (2025,6,18)", bad == 0, fi.where, f"{bad} of {n} regions disagree")
    R.paths += n
    R.extra["regions"] = n
    R.extra["sign_vectors_covered"] = len(nontrivial)
    R.extra["partition_constants"] = sorted(consts)
    R.need(len(nontrivial) == 27, f"only {len(nontrivial)} of the 27 sign vectors were covered")
    for name, val in (("None", None), ("''", "")):
        region = {p: val}
        try:
            res = decide(fi.node, region)
        except AnalysisError:
            res = []
        vals = {(k, v) for k, v, _n in res}
        R.ob("R1", f"unnegotiated version {name} -> batching", vals == {("return", True)}, fi.where, f"yields {sorted(map(str, vals))}")
    # the three components really are the split parts in order: checked implicitly — a swapped index makes the
    # atoms `int(p.split('-')[i])` land on the wrong variable and the regions disagree; a different parse is undecidable (exit 2)
    # BatchProcessor recomputes the mode whenever the version is set (C03-R5)
    for qual in ("BatchProcessor.__init__", "BatchProcessor.update_protocol_version"):
        f = P.func(A.MOD_BATCH, qual)
        R.fn(f.fq)
        ver_assign = None
        mode_assign = None
        for s in walk_local(f.node):
            if isinstance(s, ast.Assign) and len(s.targets) == 1 and isinstance(s.targets[0], ast.Attribute) and isinstance(s.targets[0].value, ast.Name) and s.targets[0].value.id == "self":
                if s.targets[0].attr == "protocol_version":
                    ver_assign = s
                if s.targets[0].attr == "batching_enabled":
                    mode_assign = s
        R.need(ver_assign is not None, f"anchor: {qual} no longer assigns self.protocol_version")
        ok = (
            mode_assign is not None
            and isinstance(mode_assign.value, ast.Call)
            and call_name(mode_assign.value) == "supports_batching"
            and len(mode_assign.value.args) == 1
            and ast.unparse(mode_assign.value.args[0]) == ast.unparse(ver_assign.value)
        )
        R.ob("R1", f"{qual}: batching_enabled = supports_batching(<the version stored>)", ok, f.where,
             "the batching mode is not recomputed from the same value that is stored as protocol_version")
    # nobody else writes the mode
    writers = []
    for f in P.funcs.values():
        for s in walk_local(f.node):
            if isinstance(s, (ast.Assign, ast.AugAssign, ast.AnnAssign)):
                tg = s.targets if isinstance(s, ast.Assign) else [s.target]
                for t in tg:
                    if isinstance(t, ast.Attribute) and t.attr == "batching_enabled":
                        writers.append(f.fq)
    # by qualified name within whatever module the class lives in now (it may have moved and be re-exported)
    extra_w = sorted(w for w in set(writers) if w.split(":", 1)[1] not in ("BatchProcessor.__init__", "BatchProcessor.update_protocol_version"))
    R.ob("R1", "only BatchProcessor writes batching_enabled", not extra_w, "", f"other writers: {extra_w}")


# ----------------------------------------------------------------------------- R2
def r2(P: Project, R: Report) -> None:
    import re._parser as sre

    vf = P.func(A.MOD_VERSION, "ProtocolVersion.validate_format")
    cmpf = P.func(A.MOD_VERSION, "ProtocolVersion.compare")
    R.fn(vf.fq, cmpf.fq)
    # validate_format: bool(re.match(<pattern>, version)) with a constant pattern
    an, out = run_paths(vf.node, fallible=False)
    pats = []
    for st, node in out.ret:
        txt = subst_text(node.value, st) if node.value is not None else ""
        pats.append(txt)
    R.need(len(pats) == 1, "validate_format has more than one return")
    try:
        call = ast.parse(pats[0], mode="eval").body
    except SyntaxError:
        call = None
    pattern = None
    ok_shape = False
    if isinstance(call, ast.Call) and call_name(call) == "bool" and len(call.args) == 1 and isinstance(call.args[0], ast.Call):
        inner = call.args[0]
        if call_name(inner) in ("re.match", "re.fullmatch") and len(inner.args) == 2 and isinstance(inner.args[0], ast.Constant):
            pattern = inner.args[0].value
            ok_shape = ast.unparse(inner.args[1]) == vf.positional_params()[-1]
        elif isinstance(inner.func, ast.Attribute) and inner.func.attr in ("match", "fullmatch") and isinstance(inner.func.value, ast.Name) and len(inner.args) == 1:
            # a pattern compiled once at module level: `_VERSION_FORMAT = re.compile(r"…")` … `_VERSION_FORMAT.match(version)`
            cv = P.module_assign(vf.module, inner.func.value.id)
            if isinstance(cv, ast.Call) and call_name(cv) == "re.compile" and len(cv.args) == 1 and not cv.keywords and isinstance(cv.args[0], ast.Constant) and isinstance(cv.args[0].value, str):
                pattern = cv.args[0].value
                ok_shape = ast.unparse(inner.args[0]) == vf.positional_params()[-1]
    R.need(pattern is not None, f"validate_format is not `bool(re.match(<constant>, version))`: {pats[0][:80]}")
    R.ob("R2", "validate_format matches its parameter", ok_shape, vf.where, "the regex is not applied to the version parameter")
    parsed = list(sre.parse(pattern))
    widths = []
    ok = True
    i = 0
    if parsed and str(parsed[0][0]) == "AT" and str(parsed[0][1]) in ("AT_BEGINNING", "AT_BEGINNING_STRING"):
        i = 1
    elif call_name(call.args[0]) != "re.fullmatch":
        ok = ok  # re.match anchors at the start anyway
    anchored_end = bool(parsed) and str(parsed[-1][0]) == "AT" and str(parsed[-1][1]) in ("AT_END", "AT_END_STRING")
    body = parsed[i:-1] if anchored_end else parsed[i:]
    if call_name(call.args[0]) == "re.fullmatch":
        anchored_end = True
    for op, arg in body:
        if str(op) == "MAX_REPEAT":
            lo, hi, sub = arg
            sub = list(sub)
            digit = len(sub) == 1 and str(sub[0][0]) == "IN" and [str(x) for x in sub[0][1][0]] == ["CATEGORY", "CATEGORY_DIGIT"]
            rng = len(sub) == 1 and str(sub[0][0]) == "IN" and str(sub[0][1][0][0]) == "RANGE" and tuple(sub[0][1][0][1]) == (48, 57)
            if lo == hi and (digit or rng):
                widths.append(int(lo))
            else:
                ok = False
        elif str(op) == "LITERAL" and arg == 45:
            widths.append("-")
        else:
            ok = False
    R.ob("R2", "validate_format admits exactly dddd-dd-dd", ok and anchored_end and widths == [4, "-", 2, "-", 2], vf.where,
         f"pattern {pattern!r} parses to {widths}, end-anchored={anchored_end}", sample=f"R2 validate_format pattern {pattern!r} -> fixed width {widths}")
    # compare: decided over the three possible order relations of two validated strings
    ps = cmpf.positional_params()
    R.need(len(ps) == 2, "compare no longer takes two versions")
    a, b = ps
    for rel, name in ((-1, "<"), (0, "=="), (1, ">")):
        region = {
            f"{a} == {b}": rel == 0,
            f"{a} != {b}": rel != 0,
            f"{a} > {b}": rel > 0,
            f"{a} < {b}": rel < 0,
            f"{a} >= {b}": rel >= 0,
            f"{a} <= {b}": rel <= 0,
            f"{b} < {a}": rel > 0,
            f"{b} > {a}": rel < 0,
            f"ProtocolVersion.validate_format({a})": True,
            f"ProtocolVersion.validate_format({b})": True,
        }
        res = decide(cmpf.node, region)
        vals = {(k, v if k != "raise" else str(v)) for k, v, _n in res}
        R.ob("R2", f"compare(v1 {name} v2) == {rel}", vals == {("return", rel)}, cmpf.where, f"yields {sorted(map(str, vals))}",
             sample=f"R2 compare: string order {name} -> {rel}")
    # the comparison is on the untransformed parameters (no lower(), no slicing): every Compare in the body is over the two names
    for n in walk_local(cmpf.node):
        if isinstance(n, ast.Compare):
            names = {ast.unparse(x) for x in [n.left] + list(n.comparators)}
            R.ob("R2", f"compare uses the raw strings in `{ast.unparse(n)}`", names <= {a, b}, f"{cmpf.module.rel}:{n.lineno}", f"operands {sorted(names)}")
    for q in ("is_newer", "is_older"):
        f = P.func(A.MOD_VERSION, f"ProtocolVersion.{q}")
        want = ">" if q == "is_newer" else "<"
        rets = [s for s in walk_local(f.node) if isinstance(s, ast.Return)]
        ok = len(rets) == 1 and ast.unparse(rets[0].value) == f"ProtocolVersion.compare({f.positional_params()[0]}, {f.positional_params()[1]}) {want} 0"
        R.ob("R2", f"{q} is compare {want} 0", ok, f.where, ast.unparse(rets[0]) if rets else "no return")


# ----------------------------------------------------------------------------- R3
def r3(P: Project, R: Report) -> None:
    # the gate: BatchProcessor.can_process_batch == (not a list) or batching_enabled
    gate = P.func(A.MOD_BATCH, "BatchProcessor.can_process_batch")
    R.fn(gate.fq)
    gp = [x for x in gate.positional_params() if x != "self"]
    R.need(len(gp) == 1, "can_process_batch parameters changed")
    d = gp[0]
    # the quantifier includes the empty batch: the length of the array is an atom too (0 / at least 1)
    len_cells = [c for c in partition([0]) if c.rel(0) in (0, 1)]
    for is_list, enabled, ln in itertools.product((False, True), (False, True), len_cells):
        region = {f"isinstance({d}, list)": is_list, "self.batching_enabled": enabled, f"len({d})": ln, d: ("<list>" if ln.rel(0) == 1 else []) if is_list else "<object>"}
        res = decide(gate.node, region)
        vals = {(k, v) for k, v, _n in res}
        want = (not is_list) or enabled
        R.ob("R3", f"can_process_batch(list={is_list}, len{ln}, enabled={enabled}) == {want}", vals == {("return", want)}, gate.where, f"yields {sorted(map(str, vals))}")

    client = P.cls(A.MOD_STDIO, "StdioClient")
    meths = P.methods(client)
    # the per-message function: the one that consults the gate
    per_msg = [f for f in meths.values() if any(isinstance(c, ast.Call) and call_name(c).endswith(".can_process_batch") for c in walk_local(f.node))]
    R.need(len(per_msg) == 1, f"anchor: expected one StdioClient method consulting can_process_batch, found {len(per_msg)}")
    pm = per_msg[0]
    R.fn(pm.fq)
    # the mode is read per message: the object whose gate is consulted is the client's attribute as it is when this
    # message is processed — not a value the caller read earlier (once per chunk, once per connection) and handed in
    from ..model import local_values as _lv

    lvp = _lv(pm.node)
    pparams = set(pm.params()) - {"self"}
    for c in walk_local(pm.node):
        if isinstance(c, ast.Call) and isinstance(c.func, ast.Attribute) and c.func.attr == "can_process_batch":
            recv = c.func.value
            srcs = [recv]
            if isinstance(recv, ast.Name):
                srcs = [v for v in lvp.get(recv.id, []) if v is not None] + ([recv] if recv.id in pparams else [])
            handed_in = [ast.unparse(x) for x in srcs if any(isinstance(n, ast.Name) and n.id in pparams for n in ast.walk(x))]
            R.ob("R3", "the batching mode consulted for a message is the client's current one", not handed_in, f"{pm.module.rel}:{c.lineno}",
                 f"`{ast.unparse(c)[:60]}` consults an object that can come from the caller (`{handed_in[0] if handed_in else ''}`): a caller that reads the processor once for several lines decides later lines by the mode in force before the version was recorded",
                 sample=f"R3 {pm.qual}: gate consulted on {ast.unparse(recv)}")
    data_p = [x for x in pm.positional_params() if x != "self"]
    R.need(len(data_p) == 1, "per-message function parameters changed")
    data = data_p[0]

    # the router, by role: the method the per-message function hands parsed messages to (its delivery helpers are its own business)
    from . import _stdio

    route_names = {_stdio.router(P).name}

    def event_of(call, st, an):
        nm = call_name(call)
        if nm.startswith("self.") and nm[5:] in route_names:
            arg = subst_text(call.args[0], st) if call.args else "?"
            return "route:" + an.origin(arg)[:160]
        if nm.startswith("self.") and nm.count(".") == 1:
            g = meths.get(nm[5:])
            if g is not None and any(_stdio.is_stdin_write(c, g.node) for c in walk_local(g.node)):
                arg = subst_text(call.args[0], st) if call.args else "?"
                return "write:" + an.origin(arg)[:160]
        if nm.endswith("stdin.send") or _stdio.is_stdin_write(call, pm.node):
            return "write:direct"
        return None

    from ..summaries import fallible_except_contained

    an, out = run_paths(pm.node, event_of=event_of, fallible_pred=fallible_except_contained(P, pm))
    R.paths += len(out.ret) + len(out.normal) + len(out.exc)
    gate_lit = f"self.batch_processor.can_process_batch({data})"
    rejected = [(st, n) for st, n in out.ret if f"not {gate_lit}" in st.lits] + [(st, None) for st in out.normal if f"not {gate_lit}" in st.lits]
    R.need(rejected, "anchor: no normal exit under `not can_process_batch(data)`; the reject branch vanished or is spelled in an unknown way")
    for st, node in rejected:
        writes = [e for e in st.events if e.startswith("write:")]
        routes = [e for e in st.events if e.startswith("route:")]
        ok = len(writes) == 1 and not routes and "create_batch_rejection_error" in writes[0]
        R.ob("R3", "rejected batch: one error write, nothing routed", ok, f"{pm.module.rel}:{getattr(node, 'lineno', pm.node.lineno)}",
             f"events on the reject path: {list(st.events)}", sample=f"R3 {pm.qual}: ¬can_process_batch → {list(st.events)} → return")
    # an exception raised on the reject branch before the error is written means the batch is neither delivered nor answered
    lost = [(t, getattr(n, "lineno", 0), ast.unparse(n)[:50]) for st, t, n in out.exc if f"not {gate_lit}" in st.lits and not any(e.startswith("write:") for e in st.events)]
    R.ob("R3", "nothing on the reject branch can raise before the -32600 error is written", not lost, f"{pm.module.rel}:{lost[0][1] if lost else pm.node.lineno}",
         f"fallible operations before the error write: {sorted(set(lost))[:3]} — for some batch contents the rejection is never sent")
    # escaping exceptions on the reject path would skip the return but also route nothing; paths that pass the gate:
    passed = [st for st, _n in out.ret if gate_lit in st.lits] + [st for st in out.normal if gate_lit in st.lits]
    R.need(passed, "anchor: no path passes the gate")
    for st in passed:
        writes = [e for e in st.events if e.startswith("write:")]
        R.ob("R3", "accepted message: no rejection write", not writes, pm.where, f"events {list(st.events)}")
    # the rejection envelope carries -32600
    rej = P.func(A.MOD_BATCH, "BatchProcessor.create_batch_rejection_error")
    R.fn(rej.fq)
    codes = []
    for n in walk_local(rej.node):
        if isinstance(n, ast.Dict):
            for k, v in zip(n.keys, n.values):
                if isinstance(k, ast.Constant) and k.value == "code":
                    codes.append(try_fold(P, rej.module, v))
    if not codes:
        # built through an error helper (`create_error_data(INVALID_REQUEST, …)`): the code is the argument that folds to a JSON-RPC code
        for n in walk_local(rej.node):
            if isinstance(n, ast.Call):
                for a_ in list(n.args) + [k_.value for k_ in n.keywords]:
                    v_ = try_fold(P, rej.module, a_)
                    if isinstance(v_, int) and not isinstance(v_, bool) and -32768 <= v_ <= -32000:
                        codes.append(v_)
    if not codes:
        raise AnalysisError(f"{rej.module.rel}: the rejection envelope of {rej.qual} is built in a shape this rule cannot read (no `code` member or code argument found)")
    R.ob("R3", "rejection error code is -32600", codes == [-32600], rej.where, f"codes found {codes}")
    # the writer used for the rejection performs exactly one stdin write per call
    for st, _n in rejected[:1]:
        pass
    writer = [g for g in meths.values() if any(_stdio.is_stdin_write(c, g.node) for c in walk_local(g.node)) and g.name != "_stdin_writer" and "writer" not in g.name]
    for g in writer:
        R.fn(g.fq)
        wa, wo = run_paths(g.node, event_of=lambda c, st, an, g=g: "send" if _stdio.is_stdin_write(c, g.node) else None, fallible=False)
        cnts = {st.count("send") for st, _n in wo.ret} | {st.count("send") for st in wo.normal}
        R.ob("R3", f"{g.name}: at most one stdin write per call", cnts <= {0, 1}, g.where, f"write counts per path {sorted(cnts)}")

    # list ∧ enabled: per-item try, routed in list order
    loops = [n for n in walk_local(pm.node) if isinstance(n, (ast.For, ast.AsyncFor)) and ast.unparse(n.iter) == data]
    if not loops:
        # the members may be taken from a view of the batch built by a helper (`for item in self.batch_processor.members(data)`):
        # a view that yields the members unchanged and in order and only leaves out what cannot be a message is the batch
        views = [n for n in walk_local(pm.node) if isinstance(n, (ast.For, ast.AsyncFor)) and isinstance(n.iter, ast.Call) and len(n.iter.args) == 1 and not n.iter.keywords and ast.unparse(n.iter.args[0]) == data]
        for n in views:
            g = P.resolve_call(pm, n.iter)
            R.need(isinstance(g, FuncInfo), f"anchor: the batch is iterated through `{ast.unparse(n.iter)[:50]}`, which is not a function of the package")
            _filtered_view_obligations(P, R, pm, g, n)
        loops = views
    R.need(len(loops) == 1, f"anchor: expected one loop over the batch `{data}`, found {len(loops)}")
    loop = loops[0]
    item = ast.unparse(loop.target)
    # the per-item body is one try; around it only statements that cannot raise (a name bound to the item — what a helper's
    # parameter becomes when the helper is read at its call site —, logging)
    tries = [s_ for s_ in loop.body if isinstance(s_, ast.Try)]
    def _inert(s_):
        if isinstance(s_, ast.Assign) and len(s_.targets) == 1 and isinstance(s_.targets[0], ast.Name) and isinstance(s_.value, (ast.Name, ast.Constant)):
            return True
        if isinstance(s_, ast.Pass):
            return True
        return isinstance(s_, ast.Expr) and isinstance(s_.value, ast.Call) and call_name(s_.value).split(".")[0] in ("logger", "logging")
    body_ok = len(tries) == 1 and all(s_ is tries[0] or _inert(s_) for s_ in loop.body)
    R.ob("R3", "batch loop body is one try", body_ok, f"{pm.module.rel}:{loop.lineno}", "a statement of the per-item body that can raise is outside the try")
    if body_ok:
        t = tries[0]
        # the loop item under the names it is given before the try
        for s_ in loop.body:
            if isinstance(s_, ast.Assign) and isinstance(s_.value, ast.Name) and s_.value.id == item and isinstance(s_.targets[0], ast.Name):
                item = s_.targets[0].id
        covers = any(h.type is None or ast.unparse(h.type) in ("Exception", "BaseException") for h in t.handlers)
        ha_ok = True
        for h in t.handlers:
            for s in walk_local(ast.Module(body=h.body, type_ignores=[])):
                if isinstance(s, (ast.Break, ast.Return, ast.Raise)):
                    ha_ok = False
        R.ob("R3", "invalid batch member dropped alone", covers and ha_ok and not t.finalbody, f"{pm.module.rel}:{t.lineno}",
             "the per-item handler does not cover Exception or leaves the loop")
        routes = [c for s in t.body for c in walk_local(s) if isinstance(c, ast.Call) and call_name(c).startswith("self.") and call_name(c)[5:] in route_names]
        ok_route = len(routes) == 1
        if ok_route:
            # routed value derives from the loop item through the parser
            a2, o2 = run_paths(ast.Module(body=t.body, type_ignores=[]), event_of=event_of, fallible=False)
            evs = {e for st in o2.normal for e in st.events if e.startswith("route:")}
            ok_route = len(evs) == 1 and f"parse_message({item})" in next(iter(evs))
        R.ob("R3", "each member is parsed and routed once, in list order", ok_route and not isinstance(loop, ast.AsyncFor), f"{pm.module.rel}:{loop.lineno}",
             "the routed value is not parse_message(<loop item>) or is routed more than once")
    # the loop is only reached with batching enabled
    guard_ok = False
    for n in walk_local(pm.node):
        if isinstance(n, ast.If) and any(loop is x for b in n.body for x in walk_local(b)) and ast.unparse(n.test) == "self.batch_processor.batching_enabled":
            guard_ok = True
    if not guard_ok:
        # … or on every path: each routing call inside the loop happens under a literal that batching is enabled
        # (the mode itself, or the gate `can_process_batch(<data>)`, which for a list is the mode — decided above)
        in_loop_calls = {id(c) for c in walk_local(loop) if isinstance(c, ast.Call)}
        seen_lits = []

        def gev(call, st, an2):
            if id(call) in in_loop_calls and call_name(call).startswith("self.") and call_name(call)[5:] in route_names:
                seen_lits.append(st.lits)
            return None

        run_paths(pm.node, event_of=gev, fallible=False)
        accepted = ("self.batch_processor.batching_enabled", f"self.batch_processor.can_process_batch({data})")
        guard_ok = bool(seen_lits) and all(any(a in lits for a in accepted) for lits in seen_lits)
    R.ob("R3", "batch loop guarded by the current batching mode", guard_ok, f"{pm.module.rel}:{loop.lineno}", "the loop over the batch is not under `if self.batch_processor.batching_enabled`")
    # mode is read per message: every read of the mode lies in the per-message function or inside the reader loop
    reader = [f for f in meths.values() if any(isinstance(n, ast.AsyncFor) and "stdout" in ast.unparse(n.iter) for n in walk_local(f.node))]
    R.need(len(reader) == 1, "anchor: stdout reader loop not found")
    rd = reader[0]
    R.fn(rd.fq)
    rloop = [n for n in walk_local(rd.node) if isinstance(n, ast.AsyncFor) and "stdout" in ast.unparse(n.iter)][0]
    inside = {id(x) for x in walk_local(rloop)}
    cached = []
    for n in walk_local(rd.node):
        if isinstance(n, ast.Attribute) and n.attr in ("batching_enabled", "can_process_batch", "protocol_version") and id(n) not in inside:
            cached.append(n.lineno)
    R.ob("R3", "batching mode not cached outside the reader loop", not cached, rd.where, f"mode read outside the loop at lines {cached}")
    calls_pm = [c for c in walk_local(rloop) if isinstance(c, ast.Call) and call_name(c) == f"self.{pm.name}"]
    R.ob("R3", "reader hands every parsed line to the per-message gate", len(calls_pm) >= 1 or rd is pm, rd.where, "the reader loop no longer calls the gated per-message function")

    # ------------------------------------------------------------------ R4: before anything is negotiated the reader is unversioned
    R.rule("R4", "until a version has been negotiated batches are accepted: the stdio client's batch processor is built without a version (a constructor parameter that could give it one is never given a value inside the package); the only values that reach it later are a server answer's protocolVersion (C03-R4)")
    from ..model import ClassInfo, kwarg as _kw

    cli = _stdio.client(P)
    builds = [(f, c) for f in P.methods(cli).values() for c in walk_local(f.node) if isinstance(c, ast.Call) and call_name(c).split(".")[-1] == "BatchProcessor"]
    R.need(builds, "anchor: the stdio client no longer builds a BatchProcessor")
    for f, c in builds:
        v = c.args[0] if c.args else _kw(c, "protocol_version")
        where = f"{f.module.rel}:{c.lineno}"
        if v is None or (isinstance(v, ast.Constant) and v.value is None):
            R.ob("R4", f"{f.qual}: the batch processor starts unversioned", True, where, "", sample=f"R4 {f.qual}: {ast.unparse(c)}")
            continue
        if isinstance(v, ast.Name) and f.name == "__init__" and v.id in f.params():
            # a way in for the embedding program; inside the package nobody may use it before the handshake has an answer
            pos = [p for p in f.positional_params() if p != "self"]
            idx = pos.index(v.id) if v.id in pos else None
            d = f.param_default(v.id)
            R.ob("R4", f"{f.qual}: the version parameter defaults to none", isinstance(d, ast.Constant) and d.value is None, where, f"default `{ast.unparse(d) if d is not None else '<required>'}`")
            n_cons = 0
            for g in P.funcs.values():
                for k in walk_local(g.node):
                    if isinstance(k, ast.Call) and P.resolve_call(g, k) is cli or (isinstance(k, ast.Call) and isinstance(P.resolve_call(g, k), ClassInfo) and P.resolve_call(g, k).name == cli.name):
                        n_cons += 1
                        given = _kw(k, v.id) or (k.args[idx] if idx is not None and idx < len(k.args) else None)
                        starred = any(kk.arg is None for kk in k.keywords)
                        ok_ = (given is None or (isinstance(given, ast.Constant) and given.value is None) or (isinstance(given, ast.Attribute) and given.attr == "protocolVersion")) and not starred
                        R.ob("R4", f"{g.qual}: builds the client without a version of its own choosing", ok_, f"{g.module.rel}:{k.lineno}",
                             f"`{ast.unparse(k)[:70]}` starts the reader in version `{ast.unparse(given)[:40] if given is not None else '**…'}` before the server has answered: if that version does not batch, a batch the server sends ahead of (or with) its initialize answer is rejected with -32600 and none of its members is delivered — although nothing has been negotiated, and although the handshake may then settle on a version that batches")
            R.need(n_cons >= 1, "anchor: no construction of the stdio client found in the package")
            continue
        R.ob("R4", f"{f.qual}: the batch processor starts unversioned", False, where, f"built as `{ast.unparse(c)[:60]}`: the reader applies that version's batching rule before anything is negotiated")

    # ------------------------------------------------------------------ R5: the mode changes only when the handshake says so
    R.rule("R5", "the batching mode belongs to the negotiated version: inside the stdio client the batch processor's version is set by `set_protocol_version` alone (called with a handshake's answer, C03-R4) — the reader and the router never set it from what they read")
    setters = []
    for f in P.methods(cli).values():
        for c in walk_local(f.node):
            if not isinstance(c, ast.Call):
                continue
            nm = call_name(c)
            if nm.endswith(".update_protocol_version") or (nm == "self.set_protocol_version") or (nm.endswith("BatchProcessor") and f.name != "__init__"):
                setters.append((f, c))
        for s_ in walk_local(f.node):
            if isinstance(s_, (ast.Assign, ast.AugAssign, ast.AnnAssign)):
                for t_ in (s_.targets if isinstance(s_, ast.Assign) else [s_.target]):
                    tt = ast.unparse(t_)
                    if tt in ("self.batch_processor.protocol_version", "self.batch_processor.batching_enabled") or (tt == "self.batch_processor" and f.name != "__init__"):
                        setters.append((f, s_))
    R.need(any(f.name == "set_protocol_version" for f, _c in setters), "anchor: the stdio client's set_protocol_version no longer updates the batch processor")
    for f, c in setters:
        ok_ = f.name == "set_protocol_version"
        R.ob("R5", f"{f.qual}: does not set the batching mode itself", ok_, f"{f.module.rel}:{c.lineno}",
             f"`{ast.unparse(c)[:70]}` changes the version the batch processor works with from inside {f.name}: the mode then follows whatever that code saw last (a result that merely looks like an initialize answer, a header, a guess) instead of the version the handshake settled on — batches are accepted after a handshake at a version without batching, or refused after one with it",
             sample=f"R5 {f.qual}: {ast.unparse(c)[:50]}")
