"""C04 — a library server never acknowledges a protocol version it does not support."""
from __future__ import annotations

import ast

from .. import anchors as A
from ..consteval import module_const, try_fold
from ..model import AnalysisError, FuncInfo, Project, walk_local, call_name
from ..paths import PState, run_paths, subst_text
from ..report import Report


def find_registered_handler(P: Project, method: str) -> FuncInfo:
    """The ProtocolHandler method registered under `method` in the core-handler table."""
    ci = P.cls(A.MOD_HANDLER, "ProtocolHandler")
    for f in P.methods(ci).values():
        for n in walk_local(f.node):
            if isinstance(n, ast.Dict):
                for k, v in zip(n.keys, n.values):
                    if isinstance(k, ast.Constant) and k.value == method and isinstance(v, ast.Attribute) and isinstance(v.value, ast.Name) and v.value.id == "self":
                        m = P.lookup_method(ci, v.attr)
                        if m is not None:
                            return m
            if isinstance(n, ast.Assign) and isinstance(n.targets[0], ast.Subscript) and ast.unparse(n.targets[0].value) == "self._handlers":
                sl = n.targets[0].slice
                if isinstance(sl, ast.Constant) and sl.value == method and isinstance(n.value, ast.Attribute):
                    m = P.lookup_method(ci, n.value.attr)
                    if m is not None:
                        return m
    raise AnalysisError(f"anchor vanished: no core handler registered for {method!r}")


def check(P: Project, R: Report) -> None:
    R.rule("R1", "every value that reaches the answer's protocolVersion or the session's version is a constant member of SUPPORTED_VERSIONS or a request value on a path that established its membership")
    R.rule("R2", "the session records the same value that is answered")
    supported = module_const(P, A.MOD_VERSION, "SUPPORTED_VERSIONS")
    R.need(isinstance(supported, list) and supported and all(isinstance(v, str) for v in supported), "SUPPORTED_VERSIONS is not a list of strings")
    R.extra["supported_versions"] = supported

    # the sanitiser: ProtocolVersion.is_supported(v) == v in SUPPORTED_VERSIONS
    iss = P.func(A.MOD_VERSION, "ProtocolVersion.is_supported")
    R.fn(iss.fq)
    p = iss.positional_params()[-1]
    ia, io = run_paths(iss.node, fallible=False)
    R.need(io.ret, "is_supported has no return")
    def _search_loop_form() -> bool:
        """for x in SUPPORTED_VERSIONS: if x == p: return True …; return False — membership written as a search"""
        body = [s_ for s_ in iss.node.body if not (isinstance(s_, ast.Expr) and isinstance(s_.value, ast.Constant))]
        if len(body) != 2 or not isinstance(body[0], ast.For) or not isinstance(body[1], ast.Return) or body[0].orelse:
            return False
        loop, last = body
        if ast.unparse(loop.iter) != "SUPPORTED_VERSIONS" or not isinstance(loop.target, ast.Name):
            return False
        if not (isinstance(last.value, ast.Constant) and last.value.value is False):
            return False
        x = loop.target.id
        if len(loop.body) != 1 or not isinstance(loop.body[0], ast.If) or loop.body[0].orelse:
            return False
        i = loop.body[0]
        t = ast.unparse(i.test)
        # (`x is p or x == p` is what `in` itself does: identity first, then equality)
        if t not in (f"{x} == {p}", f"{p} == {x}", f"{x} is {p} or {x} == {p}", f"{p} is {x} or {p} == {x}", f"{x} is {p} or {p} == {x}", f"{p} is {x} or {x} == {p}"):
            return False
        return len(i.body) == 1 and isinstance(i.body[0], ast.Return) and isinstance(i.body[0].value, ast.Constant) and i.body[0].value.value is True

    loop_form = _search_loop_form()

    def _decided_by_comparisons(st: PState, node: ast.Return) -> bool:
        """the search written out (or unrolled from the list): `True` only where the value was found equal to (or to be) a member,
        `False` only where it was found different from every member"""
        v = node.value
        if not (isinstance(v, ast.Constant) and isinstance(v.value, bool)):
            return False
        if v.value:
            return any(st.has(l) for m in supported for l in (f"{m!r} == {p}", f"{p} == {m!r}", f"{m!r} is {p}", f"{p} is {m!r}"))
        return all(st.has(f"{m!r} != {p}") or st.has(f"{p} != {m!r}") for m in supported)

    for st, node in io.ret:
        txt = subst_text(node.value, st) if node.value is not None else "None"
        R.ob("R1", "is_supported is membership of the value itself in SUPPORTED_VERSIONS", txt == f"{p} in SUPPORTED_VERSIONS" or loop_form or _decided_by_comparisons(st, node), f"{iss.module.rel}:{node.lineno}",
             f"is_supported decides `{txt}`: the sanitiser accepts values other than the members of the list (the handler then acknowledges the raw request value)")
    R.ob("R1", "is_supported cannot fall off the end or raise", not io.normal and not io.exc, iss.where, "")
    cur = try_fold(P, P.module(A.MOD_VERSION), ast.Name(id="CURRENT_VERSION", ctx=ast.Load()))
    R.ob("R1", "CURRENT_VERSION is a supported version", cur in supported, A.MOD_VERSION, f"CURRENT_VERSION={cur!r}")

    h = find_registered_handler(P, "initialize")
    R.fn(h.fq)
    hmod = h.module

    def stmt_event(stmt, st, an):
        evs = []
        if isinstance(stmt, ast.Assign):
            for t in stmt.targets:
                if isinstance(t, ast.Subscript) and isinstance(t.slice, ast.Constant) and t.slice.value == "protocolVersion":
                    evs.append("answer:" + subst_text(stmt.value, st))
        for n in walk_local(stmt):
            if isinstance(n, ast.Dict):
                for k, v in zip(n.keys, n.values):
                    if isinstance(k, ast.Constant) and k.value == "protocolVersion":
                        evs.append("answer:" + subst_text(v, st))
        return evs

    def call_event(call, st, an):
        nm = call_name(call)
        if nm.endswith(".create_session"):
            g = P.func(A.MOD_SESSION_MEM, "InMemorySessionManager.create_session") if P.maybe_func(A.MOD_SESSION_MEM, "InMemorySessionManager.create_session") else None
            ver = None
            kw = {k.arg: k.value for k in call.keywords}
            if "protocol_version" in kw:
                ver = kw["protocol_version"]
            elif len(call.args) >= 2:
                ver = call.args[1]
            return "session:" + (subst_text(ver, st) if ver is not None else "<missing>")
        return None

    an, out = run_paths(h.node, event_of=call_event, stmt_event_of=stmt_event, fallible=False)
    R.paths += len(out.ret) + len(out.normal)
    R.need(out.ret, "initialize handler has no return")

    def safe(term: str, st: PState):
        try:
            node = ast.parse(term, mode="eval").body
        except SyntaxError:
            return False, "unparsable term"
        v = try_fold(P, hmod, node)
        if isinstance(v, str):
            return (v in supported), f"constant {v!r}"
        # literals are read through flags (`ok = is_supported(v)` … `if ok:`)
        lits_x = set(st.lits) | {an.origin(l).replace("<", "").replace(">", "") for l in st.lits}
        for lit in (f"ProtocolVersion.is_supported({term})", f"{term} in SUPPORTED_VERSIONS", f"is_version_supported({term})"):
            if lit in lits_x:
                return True, f"request value guarded by `{lit[:40]}…`"
        # a value taken while iterating SUPPORTED_VERSIONS is a member by construction
        d_ = an.defs.get(term)
        if d_ is not None and d_[0].startswith("iter:") and d_[0][5:] in ("SUPPORTED_VERSIONS", "ProtocolVersion.SUPPORTED_VERSIONS", "tuple(SUPPORTED_VERSIONS)", "list(SUPPORTED_VERSIONS)"):
            return True, "an element of SUPPORTED_VERSIONS (loop variable)"
        return False, f"`{an.origin(term)[:100]}` reaches the sink with no membership literal on the path (literals: {sorted(l[:60] for l in st.lits)})"

    for st, node in out.ret:
        answers = [e[len("answer:"):] for e in st.events if e.startswith("answer:")]
        sessions = [e[len("session:"):] for e in st.events if e.startswith("session:")]
        where = f"{h.module.rel}:{node.lineno}"
        R.ob("R1", "one answer and one session per path", len(answers) == 1 and len(sessions) == 1, where, f"answers {answers} sessions {sessions}")
        for kind, terms in (("answer", answers), ("session", sessions)):
            for t in terms:
                ok, why = safe(t, st)
                R.ob("R1", f"{kind} version is supported on every path", ok, where, why, sample=f"R1 {h.qual}: {kind} := {t[:70]} — {why[:80]}")
        if answers and sessions:
            R.ob("R2", "session records the answered version", answers[0] == sessions[0], where, f"answer `{answers[0][:60]}` vs session `{sessions[0][:60]}`")
    R.ob("R1", "handler cannot fall off the end", not out.normal, h.where, "")
    # the answer dict is what is returned as the result of the response
    for st, node in out.ret:
        txt = subst_text(node.value, st) if node.value is not None else ""
        o = an.origin(txt)
        R.ob("R1", "the returned response carries the checked answer", "'protocolVersion'" in o and "create_response(" in o, f"{h.module.rel}:{node.lineno}", f"returns `{o[:120]}`")

    # ------------------------------------------------------------------ R3: the client's half of the handshake
    R.rule("R3", "end to end: the library client accepts the server's answer only if it is the version it proposed or a member of the caller's own supported list, and raises the version-mismatch error otherwise (the proposal and acceptance obligations of C03, read here for the clause 'every handshake ends agreed on a version both sides support or with a version-mismatch error on the client')")
    from . import c03

    sub = Report(prop="C03", tier=R.tier)
    c03.check(P, sub)
    n3 = 0
    for o in sub.obligations:
        if o.rule in ("R1", "R2"):
            n3 += 1
            R.ob("R3", "client: " + o.key, o.ok, o.where, o.detail)
    R.need(n3 >= 4, "anchor: the client-side proposal/acceptance obligations were not produced")


    # ------------------------------------------------------------------ R4: the constants the answer is built from are the ones in force
    R.rule("R4", "the version the server falls back to is supported when it answers: if any function rebinds a module-level version constant at run time (`global CURRENT_VERSION` …), no other module uses a copy of it taken at import time (`from …versioning import CURRENT_VERSION`) — the copy keeps the old value, and the fallback answer is then a version the narrowed list no longer contains")
    from ..tables import table_mutations

    vnames = {"SUPPORTED_VERSIONS", "CURRENT_VERSION", "MINIMUM_VERSION"}
    rebound = {}
    for rel, line, qual, what in table_mutations(P, A.MOD_VERSION, vnames):
        if "rebinds" in what:
            for n_ in vnames:
                if f"module-level {n_}" in what:
                    rebound.setdefault(n_, (rel, line, qual))
    # what a run-time rebinding assigns is taken from the list put in force by the same function
    for f in P.funcs_in(A.MOD_VERSION):
        globals_ = {x_ for n in walk_local(f.node) if isinstance(n, ast.Global) for x_ in n.names}
        if not (globals_ & {"CURRENT_VERSION", "MINIMUM_VERSION"}):
            continue
        lists_ = {"SUPPORTED_VERSIONS"}
        for n in walk_local(f.node):
            if isinstance(n, ast.Assign) and len(n.targets) == 1 and isinstance(n.value, ast.Name):
                t = n.targets[0]
                if (isinstance(t, ast.Name) and t.id == "SUPPORTED_VERSIONS") or (isinstance(t, ast.Subscript) and isinstance(t.value, ast.Name) and t.value.id == "SUPPORTED_VERSIONS" and isinstance(t.slice, ast.Slice)):
                    lists_.add(n.value.id)
        for n in walk_local(f.node):
            if isinstance(n, ast.Assign) and any(isinstance(t, ast.Name) and t.id in globals_ & {"CURRENT_VERSION", "MINIMUM_VERSION"} for t in n.targets):
                v = n.value
                ok_v = isinstance(v, ast.Subscript) and isinstance(v.value, ast.Name) and v.value.id in lists_ and not isinstance(v.slice, ast.Slice)
                R.ob("R4", f"{f.qual}: `{ast.unparse(n)[:50]}` takes the constant from the list in force", ok_v, f"{f.module.rel}:{n.lineno}",
                     "the constant the server falls back to is rebound to a value that is not an element of the supported list set by the same function")

    stale = 0
    for n_, (rel, line, qual) in sorted(rebound.items()):
        for modname, m in sorted(P.modules.items()):
            if modname == A.MOD_VERSION or not modname.startswith("chuk_mcp.server"):
                continue  # (the answer is built by the server side; other importers are not this property's subject)
            for local, (tm, tn) in m.imports.items():
                if tn != n_:
                    continue
                kind, obj = P.resolve_name(modname, local)
                if not (kind == "const" and obj[0].name == A.MOD_VERSION):
                    continue
                users = [f for f in P.funcs_in(modname) if any(isinstance(x, ast.Name) and x.id == local and isinstance(x.ctx, ast.Load) for x in walk_local(f.node))]
                for f in users:
                    stale += 1
                    R.ob("R4", f"{f.qual} reads the {n_} in force", False, f.where,
                         f"`{qual}` ({rel}:{line}) rebinds {n_} at run time, but {m.rel} imported the name by value: `{local}` here is still the value from import time — after the supported list has been narrowed the server answers (and records) a version it no longer supports")
    R.ob("R4", "no stale import-time copy of a version constant that is rebound at run time", stale == 0, P.module(A.MOD_VERSION).rel + ":1", f"rebound at run time: {sorted(rebound) or 'none'}; stale readers: {stale}",
         sample=f"R4 version constants rebound at run time: {sorted(rebound) or 'none'}")

    # ------------------------------------------------------------------ R5: an unsupported request is still answered
    R.rule("R5", "every initialize is answered with a version: between reading the requested version and recording the session nothing can raise — what is computed there for a log line (a diagnosis of the request, a date difference) is either contained or cannot raise; an exception would be turned into -32603 by the dispatcher and the handshake would end with neither an agreed version nor a version-mismatch error")
    from ..paths import calls_in_order, is_benign_call
    from ..flow import ANY_EXC
    from ..summaries import contained

    def arm_pred(node_, st_, an_):
        hv_ = tuple(h_.name for h_ in an_.handler_stack if h_.name)
        for c_ in calls_in_order(node_):
            if is_benign_call(c_, hv_):
                continue
            g_ = P.resolve_call(h, c_)
            if isinstance(g_, FuncInfo) and contained(P, g_):
                continue
            if isinstance(c_.func, ast.Attribute) and c_.func.attr == "get" and len(c_.args) in (1, 2) and all(isinstance(a_, ast.Constant) for a_ in c_.args):
                continue
            return {ANY_EXC}
        return set()

    # the statements between reading the requested version and recording the session: whatever decides the answer
    body_ = h.node.body
    i_req = next((i for i, s_ in enumerate(body_) if "'protocolVersion'" in ast.unparse(s_) and ".get(" in ast.unparse(s_)), None)
    i_ses = next((i for i, s_ in enumerate(body_) if "create_session(" in ast.unparse(s_)), None)
    R.need(i_req is not None and i_ses is not None and i_req < i_ses, "anchor: the handler's statements between reading the requested version and creating the session were not found")
    region = body_[i_req + 1:i_ses]
    if region:
        aa_, ao_ = run_paths(ast.Module(body=region, type_ignores=[]), fallible_pred=arm_pred)
        esc_ = sorted({(getattr(n_, "lineno", 0), ast.unparse(n_)[:70]) for _s, t_, n_ in ao_.exc if t_ != "Cancelled"})
    else:
        esc_ = []
    R.ob("R5", "nothing between reading the requested version and recording the session can raise", not esc_, f"{h.module.rel}:{body_[i_req].lineno}",
         f"`{esc_[0][1] if esc_ else ''}` (line {esc_[0][0] if esc_ else 0}) calls code that can raise for some requested versions (a well-shaped string that is not a calendar date, a non-string): that initialize is answered with -32603 instead of a supported version, no session is recorded, and a library client ends in an error that is neither agreement nor VersionMismatchError",
         sample=f"R5 {len(region)} statement(s) decide the answer; none can raise")

    # ------------------------------------------------------------------ R6: a session record cannot be built without its version
    R.rule("R6", "the session carries the version it was answered: the record type has no default for its version (a record rebuilt or copied field by field cannot silently take the library's current version), and nothing but create_session's caller chooses it")
    kind_, si = P.resolve_name(A.MOD_SESSION_MEM, "SessionInfo")
    R.need(kind_ == "class", "anchor: SessionInfo not found")
    fld = [s_ for s_ in si.node.body if isinstance(s_, ast.AnnAssign) and isinstance(s_.target, ast.Name) and s_.target.id == "protocol_version"]
    R.need(fld, "anchor: SessionInfo has no protocol_version field")
    R.ob("R6", "SessionInfo.protocol_version has no default", fld[0].value is None, f"{si.module.rel}:{fld[0].lineno}",
         f"`{ast.unparse(fld[0])[:70]}`: a record built without naming the version (a revived, migrated or copied session) says `{ast.unparse(fld[0].value)[:30] if fld[0].value is not None else ''}` whatever the handshake answered", sample="R6 SessionInfo.protocol_version is required")
    # every construction of the record inside the package names the version
    n_cons = 0
    for f_ in P.funcs.values():
        for c_ in walk_local(f_.node):
            if isinstance(c_, ast.Call) and P.resolve_call(f_, c_) is si:
                n_cons += 1
                names_it = any(k_.arg == "protocol_version" for k_ in c_.keywords) or len(c_.args) >= 3 or any(k_.arg is None for k_ in c_.keywords)
                R.ob("R6", f"{f_.qual}: the record is built with its version", names_it, f"{f_.module.rel}:{c_.lineno}", f"`{ast.unparse(c_)[:70]}` names no protocol_version")
    R.need(n_cons >= 1, "anchor: no construction of SessionInfo found")
