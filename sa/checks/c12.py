"""C12 — SSE transport: live-or-raise setup, exactly-once delivery, chunk-independent."""
from __future__ import annotations

import ast
import re
from typing import Dict, List

from .. import anchors as A
from ..flow import ANY_EXC, CANCEL
from ..model import AnalysisError, ClassInfo, FuncInfo, Project, call_name, kwarg, walk_local
from ..paths import PState, PathAnalysis, is_benign_call, run_paths, subst_text
from ..report import Report
from ..roles import incoming_send_calls, stream_roles
from ..summaries import contained, fallible_except_contained
from .c11 import grammar_rule

# R5: handlers that absorb CancelledError without re-raising, one reason per symbol
CANCEL_ABSORBERS = {
    "cleanup": "awaits a task it has just cancelled itself; the CancelledError is that task's, the standard cancel-and-join idiom",
    "poster": "waits on a per-request future that only _cleanup cancels; the request ends with the transport",
    "connection-entry": "outermost handler of the connection task's entry function",
    "sender-entry": "outermost handler of the sender task's entry function",
}
RELEASES = {"aclose", "cancel", "__aexit__", "close"}


def check(P: Project, R: Report) -> None:
    R.rule("R1", "live-or-raise: every successful return of __aenter__ carries a literal that the server announced its message endpoint; every failure path runs the cleanup routine before raising")
    R.rule("R2", "register-before-POST and pop-in-finally: on the request path the pending-table insertion precedes the POST and every exit after it has removed the entry")
    R.rule("R3", "terminal accounting over the 200 / 202 / other-status / exception branches: exactly one routing call (the server's message or one synthesised error with the request id) per non-cancelled path; the 202 wait is bounded by the configured timeout")
    R.rule("R4", "release pairing: every resource attribute created when entering the context (HTTP clients, tasks, stream send ends, the event-stream context) is released in the cleanup routine, which __aexit__ calls unconditionally")
    R.rule("R5", "cancellation is not swallowed: a handler for CancelledError that does not re-raise is either the outermost handler of a task entry function or a named, justified site")
    R.rule("R6", "stream parser: the event-stream buffer accumulates across chunks and is cut at LF into complete lines only; the line recogniser follows the event-stream grammar (optional space after the colon)")
    ci = P.cls(A.MOD_SSE, "SSETransport")
    meths = P.methods(ci)
    rel = ci.module.rel
    for need in ("__aenter__", "__aexit__"):
        R.need(need in meths, f"anchor vanished: SSETransport.{need}")
    # roles, found from the public context-manager protocol (private names are the maintainer's to choose):
    # the cleanup routine is the self-method __aexit__ awaits first; the connection task's entry is the self-method
    # __aenter__ starts as a task that is not the sender loop over the outgoing stream
    cleanup = None
    for n_ in walk_local(meths["__aexit__"].node):
        if isinstance(n_, ast.Await) and isinstance(n_.value, ast.Call) and call_name(n_.value).startswith("self.") and call_name(n_.value)[5:] in meths:
            cleanup = meths[call_name(n_.value)[5:]]
            break
    R.need(cleanup is not None, "anchor vanished: __aexit__ awaits no cleanup method of the transport")
    out_recv = "self." + stream_roles(P, ci)["outgoing_recv"]
    conn_entry = sender_entry = None
    for c in walk_local(meths["__aenter__"].node):
        if isinstance(c, ast.Call) and call_name(c).split(".")[-1] in ("create_task", "ensure_future", "start_soon") and c.args:
            a0 = c.args[0]
            nm = call_name(a0) if isinstance(a0, ast.Call) else ast.unparse(a0)
            tgt = meths.get(nm[5:]) if nm.startswith("self.") else None
            if tgt is not None and not any(isinstance(n, (ast.AsyncFor, ast.For)) and out_recv in ast.unparse(n.iter) for n in walk_local(tgt.node)):
                conn_entry = tgt
            elif tgt is not None:
                sender_entry = tgt
    R.need(conn_entry is not None, "anchor vanished: __aenter__ starts no connection task")

    # ------------------------------------------------------------------ R1
    ae = meths["__aenter__"]
    R.fn(ae.fq, cleanup.fq)

    def aev(call, st, an):
        if call_name(call) == f"self.{cleanup.name}":
            return "cleanup"
        return None

    an, out = run_paths(ae.node, event_of=aev, fallible=True)
    an.parents = {**A.exception_parents(P), "asyncio.TimeoutError": "TimeoutError"}
    R.paths += len(out.ret) + len(out.exc)
    R.need(out.ret, "__aenter__ has no successful return")
    # which attributes say "the server announced its endpoint"?  Derived, not named: an attribute qualifies iff every
    # store to it in the class is a falsy constant or sits in code that only runs while events are dispatched — i.e. in a
    # method reachable from the event-stream read loop through self-calls (and in none of __init__/__aenter__/the
    # connection entry/the cleanup, which run whether or not anything was announced)
    readers = [f for f in meths.values() if any(isinstance(n, ast.AsyncFor) and "aiter_" in ast.unparse(n.iter) for n in walk_local(f.node))]
    R.need(len(readers) == 1, "anchor: event-stream reader loop not found")
    reach = {readers[0].name}
    work = [readers[0]]
    while work:
        g = work.pop()
        for c in walk_local(g.node):
            if isinstance(c, ast.Call) and call_name(c).startswith("self.") and call_name(c)[5:] in meths and call_name(c)[5:] not in reach:
                reach.add(call_name(c)[5:])
                work.append(meths[call_name(c)[5:]])
    # only what runs *per event* counts: the reader's own prologue (before its loop) runs on any 200
    event_only = reach - {readers[0].name, "__init__", "__aenter__", conn_entry.name, cleanup.name}

    def _falsy(v):
        return isinstance(v, ast.Constant) and not v.value

    def announced_only(attr: str):
        bad = []
        n_ev = 0
        for f in meths.values():
            for n in walk_local(f.node):
                tgs = n.targets if isinstance(n, ast.Assign) else ([n.target] if isinstance(n, (ast.AnnAssign, ast.AugAssign)) else [])
                for t in tgs:
                    for tt in ast.walk(t):
                        if isinstance(tt, ast.Attribute) and tt.attr == attr and isinstance(tt.value, ast.Name) and tt.value.id == "self":
                            v = getattr(n, "value", None)
                            if v is not None and _falsy(v):
                                continue
                            if f.name in event_only:
                                n_ev += 1
                                continue
                            bad.append(f"{f.name} line {n.lineno}: `{ast.unparse(n)[:60]}`")
        return bad, n_ev

    def guard_attrs(lits):
        out = set()
        for l in lits:
            m = re.fullmatch(r"self\.(\w+)(?: is not None)?", l)
            if m:
                out.add(m.group(1))
            m = re.fullmatch(r"self\.(\w+)\(\)", l)
            if m and m.group(1) in meths:
                rets = [r.value for r in walk_local(meths[m.group(1)].node) if isinstance(r, ast.Return) and r.value is not None]
                if len(rets) == 1:
                    parts = rets[0].values if isinstance(rets[0], ast.BoolOp) and isinstance(rets[0].op, ast.And) else [rets[0]]
                    for p_ in parts:
                        m2 = re.fullmatch(r"self\.(\w+)(?: is not None)?", ast.unparse(p_))
                        if m2:
                            out.add(m2.group(1))
        return out

    for st, node in out.ret:
        cands = guard_attrs(st.lits)
        verdicts = {a: announced_only(a) for a in sorted(cands)}
        good = [a for a, (bad, n_ev) in verdicts.items() if not bad and n_ev > 0]
        why = "; ".join(f"self.{a} is also set outside event handling ({', '.join(bad[:2])})" for a, (bad, _n) in verdicts.items() if bad)
        R.ob("R1", "successful entry only with an announced endpoint", bool(good), f"{rel}:{node.lineno}",
             (f"__aenter__ returns on a path whose tests {sorted(cands)} do not establish an announcement: {why}" if cands else
              f"__aenter__ returns on a path that never tested the message endpoint (literals {sorted(l[:40] for l in st.lits)})") + " — the ready flag is also set when the connection task fails, so a dead connection is handed out",
             sample=f"R1 __aenter__ returns under self.{good[0] if good else '?'} (stored only while dispatching events: {sorted(event_only)[:4]}…)")
    for st, tag, node in out.exc:
        if isinstance(node, ast.Raise) and tag != CANCEL:
            R.ob("R1", f"failure path raising {tag} has cleaned up", "cleanup" in st.events, f"{rel}:{node.lineno}", f"events before the raise: {list(st.events)}")
    waits = [c for c in walk_local(ae.node) if isinstance(c, ast.Call) and call_name(c) == "asyncio.wait_for"]
    R.ob("R1", "the wait for readiness is bounded by the configured timeout", len(waits) == 1 and kwarg(waits[0], "timeout") is not None and ast.unparse(kwarg(waits[0], "timeout")) == "self.timeout", ae.where, f"{[ast.unparse(w)[:70] for w in waits]}")
    # who sets the ready flag, and do they announce an endpoint first?
    for f in meths.values():
        for c in walk_local(f.node):
            if isinstance(c, ast.Call) and call_name(c) == "self._connected.set":
                in_finally = any(isinstance(t, ast.Try) and any(c in list(walk_local(s)) for s in t.finalbody) for t in walk_local(f.node))
                R.sample(f"R1 ready flag set in {f.qual}:{c.lineno}" + (" (finally: also on failure)" if in_finally else ""))

    # ------------------------------------------------------------------ R2 / R3
    posters = [f for f in meths.values() if any(isinstance(c, ast.Call) and call_name(c).endswith(".post") for c in walk_local(f.node))]
    R.need(len(posters) == 1, f"anchor: expected one SSETransport method issuing the POST, found {len(posters)}")
    send = posters[0]
    R.fn(send.fq)
    routers = [f for f in meths.values() if any(isinstance(x, ast.Call) and call_name(x) in incoming_send_calls(P, ci) for x in walk_local(f.node))]
    # in order: a message that does not fit is waited for, not parked for another task to deliver later — a non-blocking
    # send whose "full" arm stores the message lets the messages that arrive afterwards take the slots that free up first
    R.rule("R8", "server messages reach the read stream in arrival order: the router's send is awaited where the message was parsed; a non-blocking send whose `WouldBlock` arm keeps the message for later (a backlog, a queue, a task) is a finding — whatever is delivered later can be overtaken")
    send_attr = "self." + stream_roles(P, ci)["incoming_send"] if "incoming_send" in stream_roles(P, ci) else None
    parked = []
    for f in meths.values():
        for t in walk_local(f.node):
            if not isinstance(t, ast.Try):
                continue
            nowaits = [c for s_ in t.body for c in walk_local(s_) if isinstance(c, ast.Call) and call_name(c).endswith(".send_nowait") and (send_attr is None or call_name(c).startswith(send_attr))]
            if not nowaits:
                continue
            for h in t.handlers:
                if h.type is not None and "WouldBlock" in ast.unparse(h.type):
                    keeps = [c for s_ in h.body for c in walk_local(s_) if isinstance(c, ast.Call) and isinstance(c.func, ast.Attribute) and c.func.attr in ("append", "appendleft", "put_nowait", "put", "extend") and any(isinstance(a, ast.Name) and a.id in {x.id for n_ in nowaits for x in ast.walk(n_) if isinstance(x, ast.Name)} for a in c.args)]
                    for k in keeps:
                        parked.append((f, k))
    for f, k in parked:
        R.ob("R8", f"{f.qual}: a message that does not fit on the read stream is waited for, not parked", False, f"{f.module.rel}:{k.lineno}",
             f"`{ast.unparse(k)[:60]}` keeps the message for later delivery when the stream is full: once the consumer frees a slot, a message parsed afterwards is sent with send_nowait straight away and arrives before the parked ones — the read stream no longer shows the server's order")
    R.ob("R8", "no carrier method parks inbound messages for later delivery", not parked, f"{P.module(A.MOD_SSE).rel}:1", f"{len(parked)} parking site(s)", sample="R8 inbound messages are delivered by an awaited send where they were parsed")
    R.need(len(routers) == 1, "anchor: router onto the incoming stream not found")
    router = routers[0]
    R.ob("R3", "the router is contained", contained(P, router), router.where, "a routing failure would reach the send routine's handler and be answered a second time")

    def sev(call, st: PState, an2: PathAnalysis):
        nm = call_name(call)
        if nm.endswith(".post"):
            return "post"
        if nm == "self._pending_requests.pop":
            return "pop:" + (subst_text(call.args[0], st) if call.args else "?")
        if nm == "asyncio.wait_for":
            t = kwarg(call, "timeout")
            return "wait:" + (ast.unparse(t) if t is not None else "unbounded")
        g = P.resolve_call(send, call)
        if g is router:
            arg = call.args[0] if call.args else None
            t = subst_text(arg, st) if arg is not None else "?"
            d = an2.defs.get(t, ("", None))[1]
            if isinstance(d, ast.Dict) and any(isinstance(k, ast.Constant) and k.value == "jsonrpc" for k in d.keys):
                vals = {k.value: v for k, v in zip(d.keys, d.values) if isinstance(k, ast.Constant)}
                return "synth:" + (subst_text(vals["id"], st) if "id" in vals else "<none>")
            return "deliver:" + an2.origin(t)[:50]
        return None

    def stev(stmt, st, an2):
        if isinstance(stmt, ast.Assign):
            for t in stmt.targets:
                if isinstance(t, ast.Subscript) and ast.unparse(t.value) == "self._pending_requests":
                    return "register:" + subst_text(t.slice, st)
        if isinstance(stmt, ast.Delete):
            for t in stmt.targets:
                if isinstance(t, ast.Subscript) and ast.unparse(t.value) == "self._pending_requests":
                    return "pop:" + subst_text(t.slice, st)
        return None

    def cancel_only_at_wait(node, st, an2):
        tags = set(fallible_except_contained(P, send)(node, st, an2) or ())
        # the only await the transport's own cleanup cancels is the wait on the per-request future
        if any(isinstance(c, ast.Call) and call_name(c) == "asyncio.wait_for" for c in walk_local(node)):
            tags.add(CANCEL)
        return tags

    sa, so = run_paths(send.node, event_of=sev, stmt_event_of=stev, fallible_pred=cancel_only_at_wait, exc_after_events=True, mark_handlers=True)
    sa.parents = {**A.exception_parents(P), "asyncio.TimeoutError": "TimeoutError", "asyncio.CancelledError": "BaseException"}
    R.paths += len(so.ret) + len(so.normal) + len(so.exc)
    exits = [("return", st, n) for st, n in so.ret] + [("end", st, send.node) for st in so.normal] + [(t, st, n) for st, t, n in so.exc]
    seen_req = 0
    ids = set()
    for kind, st, node in exits:
        evs = list(st.events)
        if "post" not in evs:
            continue
        where = f"{rel}:{getattr(node, 'lineno', send.node.lineno)}"
        regs = [i for i, e in enumerate(evs) if e.startswith("register:")]
        pi = evs.index("post")
        if not regs:
            # notification path: nothing registered, nothing routed with an id
            R.ob("R3", "notification path routes nothing", not any(e.startswith(("synth:", "deliver:")) for e in evs), where, f"{evs}")
            continue
        seen_req += 1
        R.ob("R2", "the future is registered before the POST", regs[0] < pi, where, f"{evs}", sample=f"R2 {evs[:4]}")
        pops = [e for e in evs[regs[0]:] if e.startswith("pop:")]
        R.ob("R2", "every exit after registration has removed the pending entry", bool(pops), where, f"exit `{kind}` leaves the entry in the table: {evs}")
        after = evs[pi + 1:]
        routed = [e for e in after if e.startswith(("synth:", "deliver:"))]
        for e in routed:
            if e.startswith("synth:"):
                ids.add(e[6:])
        absorbed_cancel = any(e.startswith("caught:") and "CancelledError" in e for e in after) and kind in ("return", "end")
        if kind == CANCEL or absorbed_cancel:
            R.ob("R3", "a cancelled request routes nothing", not routed, where, f"{after}")
        elif kind in ("return", "end"):
            R.ob("R3", "exactly one routing call per completed request", len(routed) == 1, where, f"after POST: {[e for e in after if not e.startswith('pop:')]}", sample=f"R3 {[e for e in after if not e.startswith('pop:')]}")
        else:
            R.ob("R3", f"no {kind} leaves the send routine", False, where, f"{after}")
        for e in after:
            if e.startswith("wait:"):
                R.ob("R3", "the wait for the event-stream answer is bounded by the configured timeout", e == "wait:self.timeout", where, e)
    R.ob("R3", "request paths were analysed", seen_req > 0, send.where, "")
    R.extra["synthesised_id_terms"] = sorted(ids)
    R.ob("R3", "synthesised errors carry the request's id", bool(ids) and all("message_dict" in sa.origin(i) or "message" in sa.origin(i) for i in ids), send.where, f"{sorted(ids)}")

    # ------------------------------------------------------------------ R4
    created: Dict[str, str] = {}
    for f in (ae, conn_entry):
        if f is None:
            continue
        for s in walk_local(f.node):
            if isinstance(s, ast.Assign):
                tg = s.targets[0]
                names = []
                if isinstance(tg, ast.Attribute) and ast.unparse(tg.value) == "self":
                    names = [tg.attr]
                elif isinstance(tg, ast.Tuple):
                    names = [e.attr for e in tg.elts if isinstance(e, ast.Attribute) and ast.unparse(e.value) == "self"]
                v = ast.unparse(s.value)
                for nme in names:
                    if "httpx.AsyncClient(" in v:
                        created[nme] = "aclose"
                    elif "create_task(" in v:
                        created[nme] = "cancel"
                    elif "create_memory_object_stream(" in v and nme.endswith("_send"):
                        created[nme] = "aclose"
                    elif ".stream(" in v:
                        created[nme] = "__aexit__"
    R.need(len(created) >= 6, f"only {len(created)} resource attributes found (7 confirmed by hand): {sorted(created)}")
    # read the cleanup through its local abbreviations: `ctx = getattr(self, "_x", None)` / `ctx = self._x` … `ctx.aclose()`
    import copy as _copy

    cl_node = _copy.deepcopy(cleanup.node)

    def _abbrev_of(v_):
        if isinstance(v_, ast.Call) and call_name(v_) == "getattr" and len(v_.args) >= 2 and ast.unparse(v_.args[0]) == "self" and isinstance(v_.args[1], ast.Constant):
            return f"self.{v_.args[1].value}"
        if isinstance(v_, ast.Attribute) and ast.unparse(v_.value) == "self":
            return f"self.{v_.attr}"
        return None

    def _spell_out(stmts, cur):
        """statement by statement: a local that stands for `self.<attr>` is written as that attribute until it is bound again
        (the same local may stand for one attribute after another: `s = getattr(self, "_a", None); …; s = getattr(self, "_b", None); …`)"""
        for st_ in stmts:
            if isinstance(st_, ast.Assign) and len(st_.targets) == 1 and isinstance(st_.targets[0], ast.Name):
                ab = _abbrev_of(st_.value)
                if ab is not None:
                    cur[st_.targets[0].id] = ab
                    continue
                cur.pop(st_.targets[0].id, None)
            inner_lists = [getattr(st_, f_) for f_ in ("body", "orelse", "finalbody") if isinstance(getattr(st_, f_, None), list)] + [h_.body for h_ in getattr(st_, "handlers", [])]
            rebound = {x.id for x in ast.walk(st_) if isinstance(x, ast.Name) and isinstance(x.ctx, (ast.Store, ast.Del))} if inner_lists else set()
            if isinstance(st_, (ast.For, ast.AsyncFor, ast.While)):
                for k_ in rebound:
                    cur.pop(k_, None)  # bound somewhere in the loop: not this attribute on every pass
            for x in ast.walk(st_) if not inner_lists else [y for f_ in ("test", "iter", "items", "value") for y in ([getattr(st_, f_)] if isinstance(getattr(st_, f_, None), ast.AST) else [])]:
                for y in ast.walk(x):
                    if isinstance(y, ast.Name) and isinstance(y.ctx, ast.Load) and y.id in cur:
                        y.id = cur[y.id]
            for lst_ in inner_lists:
                _spell_out(lst_, dict(cur))
            for k_ in rebound:
                cur.pop(k_, None)

    _spell_out(cl_node.body, {})
    ctxt = ast.unparse(cl_node)

    def released_in_loop(nme: str, rel_m: str) -> bool:
        """`for x in (self.<nme>, …): x.<rel>()` (and `await x` for tasks); also the loop over attribute *names*:
        `for a in ("<nme>", …): x = getattr(self, a, None); x.<rel>()`."""
        for l in walk_local(cleanup.node):
            if isinstance(l, (ast.For, ast.AsyncFor)) and isinstance(l.target, ast.Name):
                it = ast.unparse(l.iter)
                if f"self.{nme}" in it or f"'{nme}'" in it:
                    body = "\n".join(ast.unparse(x) for x in l.body)
                    holders = [l.target.id]
                    for s_ in walk_local(l):
                        if isinstance(s_, ast.Assign) and len(s_.targets) == 1 and isinstance(s_.targets[0], ast.Name) and isinstance(s_.value, ast.Call) and call_name(s_.value) == "getattr" \
                                and len(s_.value.args) >= 2 and ast.unparse(s_.value.args[0]) == "self" and ast.unparse(s_.value.args[1]) == l.target.id:
                            holders.append(s_.targets[0].id)
                    for h_ in holders:
                        if f"{h_}.{rel_m}(" in body and (rel_m != "cancel" or f"await {h_}" in body):
                            return True
        return False

    for nme, rel_m in sorted(created.items()):
        ok = f"self.{nme}.{rel_m}(" in ctxt
        if rel_m == "cancel":
            ok = ok and f"await self.{nme}" in ctxt
        ok = ok or released_in_loop(nme, rel_m)
        R.ob("R4", f"self.{nme} is released by {rel_m}() in the cleanup routine", ok, cleanup.where, f"no `self.{nme}.{rel_m}(...)` in _cleanup", sample=f"R4 {nme} → {rel_m}")
    # ordering: the pending per-request futures are cancelled before any task is joined — the sender task may be
    # waiting on one of them and (justifiably) absorbs the CancelledError of that wait, so joining it first never returns
    def _expand(t: str) -> str:
        return t  # (positions below are taken in the spelled-out copy, where the abbreviations are already written in full)

    # (positions are taken in the cleanup routine's own statement order, not from line numbers: statements of a helper
    # read at its call site keep the helper's lines)
    _order = {}

    def _dfs(n):
        _order[id(n)] = len(_order)
        for c_ in ast.iter_child_nodes(n):
            if not isinstance(c_, (ast.FunctionDef, ast.AsyncFunctionDef, ast.Lambda)):
                _dfs(c_)

    _dfs(cl_node)

    class _Pos:
        def __init__(self, n):
            self.lineno = _order.get(id(n), 0)
            self.line = getattr(n, "lineno", 0)

    fut_cancel = [_Pos(n).lineno for n in walk_local(cl_node) if isinstance(n, (ast.For,)) and "_pending_requests" in _expand(ast.unparse(n.iter)) and any(isinstance(c, ast.Call) and call_name(c).endswith(".cancel") for c in walk_local(n))]
    def _task_holder(name: str) -> bool:
        """is `name` a task taken from a loop over the task attributes (directly, or by getattr(self, <attribute name>))?"""
        for l in walk_local(cleanup.node):
            if isinstance(l, ast.For) and isinstance(l.target, ast.Name) and "_task" in ast.unparse(l.iter):
                if l.target.id == name:
                    return True
                for s_ in walk_local(l):
                    if isinstance(s_, ast.Assign) and len(s_.targets) == 1 and isinstance(s_.targets[0], ast.Name) and s_.targets[0].id == name and isinstance(s_.value, ast.Call) and call_name(s_.value) == "getattr" and len(s_.value.args) >= 2 and ast.unparse(s_.value.args[1]) == l.target.id:
                        return True
        return False

    joins = [_Pos(n).lineno for n in walk_local(cl_node) if isinstance(n, ast.Await) and ("_task" in _expand(ast.unparse(n.value)) or (isinstance(n.value, ast.Name) and _task_holder(n.value.id)))]
    R.ob("R4", "pending request futures are cancelled before the tasks are joined", bool(fut_cancel) and bool(joins) and min(fut_cancel) < min(joins), cleanup.where,
         f"in the cleanup routine's statement order the futures are cancelled at position {fut_cancel[:1]}, the first task is joined at position {joins[:1]}: a sender blocked in the 202 wait absorbs its cancellation (it is the future's), so joining it before cancelling the futures blocks the shutdown forever")
    ax = meths["__aexit__"]
    first = [s for s in ax.node.body if not (isinstance(s, ast.Expr) and isinstance(s.value, ast.Constant))]
    R.ob("R4", "__aexit__ calls the cleanup routine unconditionally", bool(first) and isinstance(first[0], ast.Expr) and isinstance(first[0].value, ast.Await) and call_name(first[0].value.value) == f"self.{cleanup.name}", ax.where, "")
    rets = [r for r in walk_local(ax.node) if isinstance(r, ast.Return)]
    R.ob("R4", "__aexit__ does not swallow the body's exception", all(r.value is None or ast.unparse(r.value) in ("False", "None") for r in rets), ax.where, "")

    # ------------------------------------------------------------------ R5
    absorbers = {cleanup.fq: CANCEL_ABSORBERS["cleanup"], send.fq: CANCEL_ABSORBERS["poster"], conn_entry.fq: CANCEL_ABSORBERS["connection-entry"]}
    if sender_entry is not None:
        absorbers[sender_entry.fq] = CANCEL_ABSORBERS["sender-entry"]
    for f in sorted(meths.values(), key=lambda f: f.fq):
        for t in walk_local(f.node):
            if not isinstance(t, ast.Try):
                continue
            for h in t.handlers:
                names = PathAnalysis.handler_names(None, h)  # type: ignore[arg-type]
                if not any(n.split(".")[-1] in ("CancelledError", "BaseException") for n in names):
                    continue
                ha, ho = run_paths(ast.Module(body=h.body, type_ignores=[]), fallible=False)
                reraises = not (ho.normal or ho.ret or ho.cont or ho.brk)
                if reraises:
                    R.ob("R5", f"{f.qual}: CancelledError handler re-raises", True, f"{rel}:{h.lineno}", "")
                elif f is send:
                    # the per-message routine runs inside the sender task: a CancelledError caught here may be the request's
                    # future being cancelled (fine to absorb) or the sender task itself being cancelled by the cleanup
                    # routine — absorbed, the task goes on to the next queued message and the cleanup's join never returns.
                    # Every non-raising way out of the handler has established that the task has no pending cancel request.
                    def _not_cancelling(st_) -> bool:
                        for l_ in st_.lits:
                            t_ = ha.origin(l_).replace("<", "").replace(">", "")
                            if t_ in ("not asyncio.current_task().cancelling()", "asyncio.current_task() is None", "not asyncio.current_task()") or t_.endswith(".cancelling() == 0"):
                                return True
                        return False

                    ends_ = list(ho.normal) + [s_ for s_, _n in ho.ret] + list(ho.cont) + list(ho.brk)
                    ok_ = bool(ends_) and all(_not_cancelling(s_) for s_ in ends_)
                    R.ob("R5", f"{f.qual}: a CancelledError absorbed in the per-message routine is the request's, never the sender task's own", ok_, f"{rel}:{h.lineno}",
                         "the handler absorbs every CancelledError without asking whether the current task is being cancelled (`asyncio.current_task().cancelling()`): with a second message queued, the cleanup routine's `task.cancel()` is swallowed here, the sender goes on to the next message, and `await self._outgoing_task` — leaving the context — never returns",
                         sample=f"R5 {f.qual}: absorbs only while the task has no pending cancel request")
                else:
                    R.ob("R5", f"{f.qual}: absorbing CancelledError is justified", f.fq in absorbers, f"{rel}:{h.lineno}", absorbers.get(f.fq, "a handler swallows task cancellation: leaving the context may hang or leak the task"),
                         sample=f"R5 {f.qual}: {absorbers.get(f.fq, 'UNJUSTIFIED')[:70]}")
    # broad `except Exception` does not catch CancelledError on supported Pythons (>= 3.8): nothing to check there

    # ------------------------------------------------------------------ R6
    from .c11 import field_form_event_reset

    field_form_event_reset(P, R, A.MOD_SSE, "R6")  # (a recogniser over (field, value) pairs, read before the buffer rules below)
    ps = [f for f in meths.values() if any(isinstance(n, (ast.AsyncFor,)) and "aiter_text" in ast.unparse(n.iter) for n in walk_local(f.node))]
    # httpx can cut the body into lines itself — where `str.splitlines()` would: at CR, LF, CRLF and also VT, FF, FS, GS, RS,
    # NEL (U+0085), LS (U+2028), PS (U+2029).  JSON may carry the last three raw inside a string, SSE ends lines at CR/LF only.
    by_lines = [(f, n) for f in meths.values() for n in walk_local(f.node) if isinstance(n, ast.AsyncFor) and isinstance(n.iter, ast.Call) and call_name(n.iter).endswith(".aiter_lines")]
    for f_, n_ in by_lines:
        R.fn(f_.fq)
        R.ob("R6", "event-stream lines end at CR/LF only", False, f"{rel}:{n_.lineno}",
             f"`{ast.unparse(n_.iter)[:50]}` cuts lines wherever str.splitlines() does, U+2028 / U+2029 / U+0085 included: a message whose JSON text carries one of them raw inside a string (ensure_ascii=False, orjson) arrives as two `data:` fragments, neither parses, and the message is dropped — a request answered on the stream then ends in the synthesised timeout error")
    if by_lines and not ps:
        return
    R.need(len(ps) == 1, "anchor: event-stream reader loop not found")
    pf = ps[0]
    R.fn(pf.fq)
    loop = [n for n in walk_local(pf.node) if isinstance(n, ast.AsyncFor)][0]
    acc = [s for s in walk_local(loop) if isinstance(s, ast.AugAssign) and isinstance(s.op, ast.Add) and isinstance(s.target, ast.Name)]
    if not acc:
        # no textual accumulation here; if the chunk is handed to other code (`parser.feed(chunk)`, `parts.append(chunk)`)
        # the accumulation happens in a shape this rule cannot read: undecided, not a finding
        cv = loop.target.id if isinstance(loop.target, ast.Name) else None
        handed = [c for c in walk_local(loop) if isinstance(c, ast.Call) and cv and any(isinstance(a, ast.Name) and a.id == cv for a in c.args) and not is_benign_call(c)]
        if handed:
            raise AnalysisError(f"the event-stream reader hands each chunk to `{ast.unparse(handed[0].func)}` — chunk accumulation is written in a shape this rule cannot read (expected `buffer += chunk` in the read loop)")
        # … or joined with what is carried over from the previous read in another spelling (`rest + chunk` handed to a
        # splitter, `"".join((rest, chunk))`): accumulation is there, only not in the shape the rules below read
        joined = [b for b in walk_local(loop) if cv and ((isinstance(b, ast.BinOp) and isinstance(b.op, ast.Add) and any(isinstance(x, ast.Name) and x.id == cv for x in (b.left, b.right)) and any(isinstance(x, ast.Name) and x.id != cv for x in (b.left, b.right)))
                                                       or (isinstance(b, ast.JoinedStr) and any(isinstance(x, ast.Name) and x.id == cv for x in ast.walk(b)) and len([x for x in ast.walk(b) if isinstance(x, ast.Name)]) >= 2))]
        if joined:
            raise AnalysisError(f"the event-stream reader joins each chunk with the carried-over text as `{ast.unparse(joined[0])[:50]}` — a shape this rule cannot read (expected `buffer += chunk` in the read loop)")
    R.ob("R6", "the reader accumulates chunks into a buffer", bool(acc), pf.where, "no `buffer += chunk`: a line cut by a chunk boundary is lost")
    R.need(acc, "anchor: the reader does not accumulate a buffer")
    buf = acc[0].target.id
    init_out = [s for s in walk_local(pf.node) if isinstance(s, ast.Assign) and ast.unparse(s.targets[0]) == buf and s not in list(walk_local(loop))]
    R.ob("R6", "buffer persists across chunks", len(init_out) == 1, pf.where, "")
    wh = [w for w in walk_local(loop) if isinstance(w, ast.While) and ast.unparse(w.test) == f"'\\n' in {buf}"]
    ok_split = False
    if wh:
        for s in wh[0].body[:1]:
            if isinstance(s, ast.Assign) and isinstance(s.targets[0], ast.Tuple) and ast.unparse(s.value) == f"{buf}.split('\\n', 1)" and ast.unparse(s.targets[0].elts[1]) == buf:
                ok_split = True
    if not (wh and ok_split):
        # `*lines, buffer = buffer.split("\n")`: everything before the last LF is complete, the rest is carried over
        for s_ in walk_local(loop):
            if isinstance(s_, ast.Assign) and len(s_.targets) == 1 and isinstance(s_.targets[0], ast.Tuple) and len(s_.targets[0].elts) == 2 and isinstance(s_.targets[0].elts[0], ast.Starred) \
                    and ast.unparse(s_.targets[0].elts[1]) == buf and ast.unparse(s_.value) == f"{buf}.split('\\n')":
                wh, ok_split = [s_], True
    if not (wh and ok_split):
        cuts = [c_ for c_ in walk_local(loop) if isinstance(c_, ast.Call) and isinstance(c_.func, ast.Attribute) and c_.func.attr in ("splitlines", "split", "partition", "rsplit", "rpartition", "find", "index") and ast.unparse(c_.func.value) == buf]
        if not any(c_.func.attr == "splitlines" for c_ in cuts):
            raise AnalysisError(f"{rel}: the event-stream reader cuts its buffer in a shape this rule cannot read ({[ast.unparse(c_)[:40] for c_ in cuts][:2]}; known: `while '\\n' in buffer: line, buffer = buffer.split('\\n', 1)`, `*lines, buffer = buffer.split('\\n')`)")
    R.ob("R6", "only complete lines are cut off the buffer, at LF", bool(wh) and ok_split, pf.where, "the buffer is cut with splitlines(): lines end wherever Unicode says a line ends, and a trailing partial line is taken for a complete one", sample="R6 complete lines are cut off at LF, the rest is carried over")
    from . import _chunks

    _chunks.no_discard_before_accumulate(R, "R6", pf, loop, pf.qual)
    _chunks.line_cut_discipline(R, "R6", pf, loop, [buf], pf.qual)
    # one bad event must not end the event stream: no exception edge, break or return leaves the read loop body
    from ._stdio import TOTAL_STR_METHODS

    def total_str(c: ast.Call) -> bool:
        return isinstance(c.func, ast.Attribute) and c.func.attr in TOTAL_STR_METHODS and len(c.args) <= 2

    la, lo = run_paths(ast.Module(body=loop.body, type_ignores=[]), fallible_pred=fallible_except_contained(P, pf, extra_total=total_str))
    esc = sorted({(t, getattr(n, "lineno", 0), ast.unparse(n)[:40]) for _s, t, n in lo.exc})
    R.ob("R6", "no exception edge leaves the event-stream read loop body (one bad event does not end the stream)", not esc, f"{rel}:{loop.lineno}", f"escaping: {esc[:3]}")
    R.ob("R6", "no break/return leaves the event-stream read loop", not lo.brk and not lo.ret, f"{rel}:{loop.lineno}", "")
    decodes = [c for c in walk_local(pf.node) if isinstance(c, ast.Call) and isinstance(c.func, ast.Attribute) and c.func.attr == "decode"]
    R.ob("R6", "no stateless per-chunk decode (httpx's aiter_text decodes incrementally)", not decodes and "aiter_text" in ast.unparse(loop.iter), pf.where, "")
    grammar_rule(P, R, A.MOD_SSE, "R6", "")
    from .c11 import blank_line_resets_event

    blank_line_resets_event(P, R, A.MOD_SSE, "R6")

    # ------------------------------------------------------------------ R7: what is parsed off the event stream is delivered
    R.rule("R7", "server messages on the event stream are delivered once: every path of the message-event handler that has parsed a message either routes it to the read stream or hands it to the waiter of a pending request; the only path that may let it go is the one for an answer whose waiter is already done (a hit in the pending table)")
    senders = {f.name for f in meths.values() if any(isinstance(c, ast.Call) and call_name(c) in incoming_send_calls(P, ci) for c in walk_local(f.node))}
    handlers = [f for f in meths.values() if f.name not in senders and any(isinstance(c, ast.Call) and call_name(c).split(".")[-1] == "loads" for c in walk_local(f.node))
                and any(isinstance(c, ast.Call) and call_name(c).startswith("self.") and call_name(c)[5:] in senders for c in walk_local(f.node))]
    R.need(handlers, "anchor: no event handler that parses a message and routes it")
    for hf in handlers:
        R.fn(hf.fq)

        def hev(call, st, an, hf=hf):
            nm = call_name(call)
            if nm.split(".")[-1] == "loads":
                return "parse"
            if nm.startswith("self.") and nm[5:] in senders:
                return "route"
            if nm.endswith((".set_result", ".put_nowait", ".put")):
                return "handoff"
            return None

        ha, ho = run_paths(hf.node, event_of=hev, fallible=False)
        n_drop = 0
        for st, node in [(s_, n_) for s_, n_ in ho.ret] + [(s_, hf.node) for s_ in ho.normal]:
            if "parse" not in st.events or "route" in st.events or "handoff" in st.events:
                continue
            pend = [l for l in st.lits if " in self._pending_requests" in l and " not in " not in l]
            # … or the hit established by what the lookup gave back: `fut = self._pending_requests.pop(k, None)` … `fut is not None`
            for l in st.lits:
                t_ = l[:-len(" is not None")] if l.endswith(" is not None") else (l if not l.startswith("not ") and " " not in l else None)
                if t_ and "self._pending_requests" in ha.origin(t_):
                    pend.append(l)
            n_drop += 1
            R.ob("R7", f"{hf.qual}: a parsed message is let go only as the answer of a pending request whose waiter is done", bool(pend), f"{hf.module.rel}:{getattr(node, 'lineno', hf.node.lineno)}",
                 f"a path parses a message and returns without routing it or handing it to a waiter, under {sorted(l[:60] for l in st.lits if 'self.' in l)[:4]}: a message the server sent on the event stream (a request of its own whose id happens to be in that table, a notification) is never delivered",
                 sample=f"R7 {hf.qual}: undelivered only under {pend[:1]}")
        R.ob("R7", f"{hf.qual}: some path delivers", any("route" in st.events for st, _n in ho.ret) or any("route" in st.events for st in ho.normal), hf.where, "")
