"""C02 — everything emitted is valid JSON-RPC 2.0 and survives the library's own parser."""
from __future__ import annotations

import ast
import re
import itertools
from typing import Dict, List, Optional

from .. import anchors as A
from ..consteval import try_fold
from ..dectree import decide
from ..envelopes import ENVELOPE_CLASSES, envelope_call
from ..model import AnalysisError, ClassInfo, FuncInfo, Project, call_name, kwarg, local_values, resolved_call_name, walk_local
from ..models import ModelTable
from ..paths import PState, PathAnalysis, relevance_filter, run_paths, subst_text
from ..report import Report

SHAPES = {
    "request": ({"jsonrpc", "id", "method"}, {"params"}),
    "notification": ({"jsonrpc", "method"}, {"params"}),
    "response": ({"jsonrpc", "id", "result"}, set()),
    "error": ({"jsonrpc", "id", "error"}, set()),
}


ANSWERS_ITS_REQUEST = {
    "chuk_mcp.protocol.types.elicitation:ElicitationClient.handle_elicitation_request": "answers the elicitation request it was handed: that request's id is the id to answer (demanding a guard would ask more than the property)",
}


def _ifexp_non_none(n: ast.IfExp) -> bool:
    """`L if x is None else x` / `x if x is not None else L` with L a non-None literal"""
    t = ast.unparse(n.test)
    lit = lambda e: isinstance(e, (ast.Dict, ast.List, ast.Tuple, ast.JoinedStr)) or (isinstance(e, ast.Constant) and e.value is not None)  # noqa: E731
    body, other = ast.unparse(n.body), ast.unparse(n.orelse)
    if t == f"{other} is None" and lit(n.body):
        return True
    if t == f"{body} is not None" and lit(n.orelse):
        return True
    return False


def classify_keys(keys: set) -> Optional[str]:
    for kind, (req, opt) in SHAPES.items():
        if req <= keys <= req | opt:
            return kind
    return None


def check(P: Project, R: Report) -> None:
    R.rule("R1", "envelope declarations: jsonrpc: Literal['2.0'] on all four; id: Union[int, str] (no None/float/bool) on request/response/error and no id on the notification; method: str; the error class rejects a non-int code or non-str message in a hook both backends run")
    R.rule("R2", "emitter census: every dict display with a 'jsonrpc' key and every envelope constructor/helper call in the package has jsonrpc == '2.0', a key set that is exactly one of the four shapes (never result and error together), an int-constant error code with a string message, and — for requests and success responses — an id that is not nullable on its path", min_obs=20)
    R.rule("R3", "kind table: over the 81 combinations of (id, method, result, error) ∈ {absent, null, value} the parser (legacy unified class first, then the field-presence cascade) maps each of the four emitted shapes to its own kind and rejects both-present and neither-present responses")
    R.rule("R4", "serialiser flags: every site that turns an envelope into wire data passes exclude_none=True and no indent")
    T = ModelTable(P)
    jm = P.module(A.MOD_JSONRPC)

    # ------------------------------------------------------------------ R1
    for cname, kind in ENVELOPE_CLASSES.items():
        mi = T.models.get(f"{A.MOD_JSONRPC}:{cname}")
        R.need(mi is not None, f"anchor vanished: {cname}")
        where = f"{jm.rel}:{mi.ci.node.lineno}"
        jf = mi.fields.get("jsonrpc")
        R.ob("R1", f"{cname}.jsonrpc is Literal['2.0']", jf is not None and jf.ann_text == "Literal['2.0']" and ast.unparse(jf.default) == "'2.0'", where, jf.ann_text if jf else "missing")
        idf = mi.fields.get("id")
        if kind == "notification":
            R.ob("R1", f"{cname} has no id member", idf is None, where, "a notification class with an id field")
        else:
            R.ob("R1", f"{cname}.id is a required Union[int, str]", idf is not None and idf.ann_text == "Union[int, str]" and idf.required, where, f"{idf.ann_text if idf else 'missing'} required={idf.required if idf else None}", sample=f"R1 {cname}.id: {idf.ann_text if idf else None}")
        if kind in ("request", "notification"):
            mf = mi.fields.get("method")
            R.ob("R1", f"{cname}.method is a required str", mf is not None and mf.ann_text == "str" and mf.required, where, "")
        if kind == "response":
            R.ob("R1", f"{cname} has result and no error member", "result" in mi.fields and "error" not in mi.fields, where, "")
        if kind == "error":
            R.ob("R1", f"{cname} has error and no result member", "error" in mi.fields and "result" not in mi.fields, where, "")
            hook = mi.methods.get("model_post_init")
            ok = False
            why_hook = "no model_post_init hook"
            if hook is not None:
                # every way out of the hook that is not a raise has established, on the error object, an int code and a str
                # message (or that there is no error object to look at)
                me_ = hook.node.args.args[0].arg if hook.node.args.args else "self"
                han, hout = run_paths(hook.node)
                exits = [st for st, _n in hout.ret] + list(hout.normal)
                bad_ = []
                for st in exits:
                    lits_ = set(st.lits)
                    if f"not {me_}.error" in lits_ or f"{me_}.error is None" in lits_:
                        continue
                    has_code = any(f"isinstance({me_}.error{a_}, int)" in lits_ for a_ in ("['code']", ".get('code')"))
                    has_msg = any(f"isinstance({me_}.error{a_}, str)" in lits_ for a_ in ("['message']", ".get('message')"))
                    if not (has_code and has_msg):
                        bad_.append(sorted(l_[:50] for l_ in lits_)[:6])
                raising = {t_.split(".")[-1] for _s, t_, _n in hout.exc}
                ok = bool(exits) and not bad_ and "ValueError" in raising
                why_hook = f"a path leaves the hook normally without both type tests: {bad_[0]}" if bad_ else f"raising exits: {sorted(raising)}"
            R.ob("R1", f"{cname} rejects a non-int code / non-str message in model_post_init", ok, where, why_hook)

    # ------------------------------------------------------------------ R2: dict displays
    n_dict = 0
    n_call = 0
    for f in sorted(P.funcs.values(), key=lambda f: f.fq):
        dicts = [n for n in walk_local(f.node) if isinstance(n, ast.Dict) and any(isinstance(k, ast.Constant) and k.value == "jsonrpc" for k in n.keys)]
        calls = [c for c in walk_local(f.node) if isinstance(c, ast.Call) and call_name(c).split(".")[-1] in set(ENVELOPE_CLASSES) | {"create_request", "create_notification", "create_response", "create_error_response"}]
        if not dicts and not calls:
            continue
        if f.fq in getattr(getattr(P, "inliner", None), "read_elsewhere", ()):
            continue  # a helper kept only for export: each of its uses in the package was read, with its arguments, at the call site
        R.fn(f.fq)
        sites: Dict[int, tuple] = {}
        results: Dict[int, list] = {}

        def sev(stmt, st: PState, an: PathAnalysis, dicts=dicts, sites=sites):
            for n in walk_local(stmt):
                if isinstance(n, ast.Dict) and n in dicts:
                    idv = [v for k, v in zip(n.keys, n.values) if isinstance(k, ast.Constant) and k.value == "id"]
                    sites.setdefault(id(n), []).append((subst_text(idv[0], st) if idv else None, frozenset(st.lits), an))
            return None

        def cev(call, st: PState, an: PathAnalysis, calls=calls, sites=sites, f=f, results=results):
            if call in calls:
                env = envelope_call(P, f, call)
                idn = env.get("id") if env else None
                sites.setdefault(id(call), []).append((subst_text(idn, st) if idn is not None else None, frozenset(st.lits), an))
                if env and env["kind"] == "response" and isinstance(P.resolve_call(f, call), ClassInfo):
                    rn = env.get("result")
                    results.setdefault(id(call), []).append((subst_text(rn, st) if rn is not None else None, frozenset(st.lits)))
            return None

        try:
            seeds = [v for d in dicts for k, v in zip(d.keys, d.values) if isinstance(k, ast.Constant) and k.value == "id"]
            seeds += [a for c in calls for a in list(c.args) + [k.value for k in c.keywords]]
            run_paths(f.node, event_of=cev, stmt_event_of=sev, fallible=True, lit_filter=relevance_filter(f.node, seeds))
        except AnalysisError:
            raise
        for d in dicts:
            n_dict += 1
            where = f"{f.module.rel}:{d.lineno}"
            keys = {k.value for k in d.keys if isinstance(k, ast.Constant)}
            dyn = [k for k in d.keys if not isinstance(k, ast.Constant)]
            vals = {k.value: v for k, v in zip(d.keys, d.values) if isinstance(k, ast.Constant)}
            kind = classify_keys(keys) if not dyn else None
            tag = f"{f.fq} dict[{','.join(sorted(keys))}]"
            R.ob("R2", f"{tag}: jsonrpc is the constant '2.0'", isinstance(vals.get("jsonrpc"), ast.Constant) and vals["jsonrpc"].value == "2.0", where, ast.unparse(vals.get("jsonrpc")) if vals.get("jsonrpc") is not None else "missing")
            R.ob("R2", f"{tag}: key set is one of the four shapes", kind is not None, where, f"keys {sorted(keys)}" + (" plus ** or computed keys" if dyn else ""), sample=f"R2 {f.fq}:{d.lineno} → {kind}")
            if kind == "error":
                ev = vals["error"]
                evs_ = [ev]
                if isinstance(ev, ast.Name):
                    # the error object bound to a local first: read its definition(s) — one per arm when the arms differ
                    ds_ = [s_ for s_ in walk_local(f.node) if isinstance(s_, (ast.Assign, ast.AnnAssign)) and ast.unparse(s_.targets[0] if isinstance(s_, ast.Assign) else s_.target) == ev.id]
                    touched_ = [x for x in walk_local(f.node) if isinstance(x, ast.Subscript) and isinstance(x.ctx, ast.Store) and isinstance(x.value, ast.Name) and x.value.id == ev.id and not (isinstance(x.slice, ast.Constant) and x.slice.value == "data")]
                    if ds_ and all(isinstance(s_.value, ast.Dict) for s_ in ds_) and not touched_:
                        evs_ = [s_.value for s_ in ds_]
                # … or made by a package helper that returns {"code": <its 1st argument>, "message": <its 2nd>} (plus optional data)
                def _via_error_helper(e_):
                    if not isinstance(e_, ast.Call):
                        return None
                    g_ = P.resolve_call(f, e_)
                    if not isinstance(g_, FuncInfo) or g_.cls is not None or any(isinstance(a_, ast.Starred) for a_ in e_.args):
                        return None
                    ps_ = g_.positional_params()
                    disp = [n_ for n_ in walk_local(g_.node) if isinstance(n_, ast.Dict)]
                    rets_ = [r_ for r_ in walk_local(g_.node) if isinstance(r_, ast.Return)]
                    if len(disp) != 1 or len(rets_) != 1 or len(ps_) < 2:
                        return None
                    d_ = disp[0]
                    km = {k_.value: v_ for k_, v_ in zip(d_.keys, d_.values) if isinstance(k_, ast.Constant)}
                    if set(km) - {"code", "message", "data"} or not (isinstance(km.get("code"), ast.Name) and isinstance(km.get("message"), ast.Name)):
                        return None
                    others = [x_ for x_ in walk_local(g_.node) if isinstance(x_, ast.Subscript) and isinstance(x_.ctx, ast.Store) and not (isinstance(x_.slice, ast.Constant) and x_.slice.value == "data")]
                    if others:
                        return None
                    bound = {}
                    for p_, a_ in zip(ps_, e_.args):
                        bound[p_] = a_
                    for k_ in e_.keywords:
                        if k_.arg:
                            bound[k_.arg] = k_.value
                    if km["code"].id not in bound or km["message"].id not in bound:
                        return None
                    return ast.Dict(keys=[ast.Constant(value="code"), ast.Constant(value="message")], values=[bound[km["code"].id], bound[km["message"].id]])

                if len(evs_) == 1 and isinstance(evs_[0], ast.Name):
                    ds2_ = [s_ for s_ in walk_local(f.node) if isinstance(s_, (ast.Assign, ast.AnnAssign)) and ast.unparse(s_.targets[0] if isinstance(s_, ast.Assign) else s_.target) == evs_[0].id]
                    if ds2_ and all(s_.value is not None and (_via_error_helper(s_.value) is not None or isinstance(s_.value, ast.Dict)) for s_ in ds2_):
                        evs_ = [s_.value for s_ in ds2_]
                evs_ = [(_via_error_helper(e_) or e_) for e_ in evs_]
                for ev in evs_:
                  if isinstance(ev, ast.Dict):
                      ek = {k.value: v for k, v in zip(ev.keys, ev.values) if isinstance(k, ast.Constant)}
                      code = try_fold(P, f.module, ek["code"]) if "code" in ek else None
                      R.ob("R2", f"{tag}: error.code is an integer constant", isinstance(code, int) and not isinstance(code, bool), where, f"code `{ast.unparse(ek['code']) if 'code' in ek else None}` folds to {code!r}")
                      m = ek.get("message")
                      if isinstance(m, ast.Name):
                          # the text bound to a local first (also what a helper's parameter becomes when it is read at its call site)
                          mv_ = [v_ for v_ in local_values(f.node).get(m.id, []) if v_ is not None]
                          if len(mv_) == 1:
                              m = mv_[0]
                      ok_m = isinstance(m, ast.JoinedStr) or (isinstance(m, ast.Constant) and isinstance(m.value, str)) or (isinstance(m, ast.Call) and call_name(m) == "str")
                      R.ob("R2", f"{tag}: error.message is a string", ok_m, where, f"message `{ast.unparse(m) if m is not None else None}`")
                      extra = set(ek) - {"code", "message", "data"}
                      R.ob("R2", f"{tag}: error object has only code/message/data", not extra, where, f"{sorted(extra)}")
                  else:
                      R.ob("R2", f"{tag}: error member is an explicit {{code, message}} display", False, where, f"error := `{ast.unparse(ev)[:60]}`")
            if kind in ("request", "response"):
                for idt, lits, an in sites.get(id(d), []):
                    ok, why = id_not_nullable(P, f, idt, lits, an)
                    R.ob("R2", f"{tag}: id is not nullable on its path", ok, where, why)
            if kind in ("request", "notification"):
                mv = vals.get("method")
                ok_m = isinstance(mv, ast.Constant) and isinstance(mv.value, str) or isinstance(mv, (ast.Name, ast.Attribute, ast.JoinedStr))
                R.ob("R2", f"{tag}: method is a string", ok_m, where, ast.unparse(mv) if mv is not None else "missing")
        for c in calls:
            env = envelope_call(P, f, c)
            if env is None:
                continue
            n_call += 1
            R.call_sites += 1
            where = f"{f.module.rel}:{c.lineno}"
            tag = f"{f.fq} {call_name(c).split('.')[-1]}(...)"
            jr = kwarg(c, "jsonrpc")
            if jr is not None:
                jv = try_fold(P, f.module, jr)
                R.ob("R2", f"{tag}: jsonrpc argument is '2.0'", jv == "2.0" or (f.module.name == A.MOD_JSONRPC and ast.unparse(jr) in ("self.jsonrpc", "msg.jsonrpc")), where, ast.unparse(jr))
            if env["kind"] in ("response", "error", "request"):
                idn = env.get("id")
                is_none = isinstance(idn, ast.Constant) and idn.value is None
                helper_generates = call_name(c).split(".")[-1] in ("create_request",)
                R.ob("R2", f"{tag}: id argument is not the constant None", not is_none or helper_generates, where, "an envelope built with id=None fails validation (requests/responses need a string or integer id)", sample=f"R2 {f.fq}:{c.lineno} {env['kind']} id={ast.unparse(idn) if idn is not None else '<generated>'}")
            for rt, lits in results.get(id(c), []):
                ok_r = rt is not None
                why = "no result argument"
                if rt is not None:
                    try:
                        rnode = ast.parse(rt, mode="eval").body
                    except SyntaxError:
                        rnode = None
                    if isinstance(rnode, (ast.Dict, ast.List, ast.Tuple, ast.JoinedStr)) or (isinstance(rnode, ast.Constant) and rnode.value is not None):
                        ok_r, why = True, f"result is the literal `{rt[:30]}`"
                    elif isinstance(rnode, ast.IfExp) and _ifexp_non_none(rnode):
                        ok_r, why = True, f"result `{rt[:40]}` replaces None by a literal"
                    elif isinstance(rnode, ast.BoolOp) and isinstance(rnode.op, ast.Or) and isinstance(rnode.values[-1], (ast.Dict, ast.List)) :
                        ok_r, why = True, f"result `{rt[:40]}` falls back to a literal"
                    elif f"{rt} is not None" in lits or rt in lits:
                        ok_r, why = True, f"result `{rt[:30]}` is known not to be None on the path"
                    else:
                        ok_r, why = False, f"result `{rt[:40]}` may be None here: serialised with exclude_none=True the response has neither result nor error, which is not valid JSON-RPC and is rejected by the library's own parser"
                R.ob("R2", f"{tag}: a success response is never built with result None", ok_r, where, why)
            if env["kind"] == "error":
                code = env.get("code")
                if code is not None and not (isinstance(code, ast.Name) and code.id.startswith("<unbound")):
                    cv = try_fold(P, f.module, code)
                    if cv is not None or isinstance(code, ast.Constant):
                        R.ob("R2", f"{tag}: error code is an integer", isinstance(cv, int) and not isinstance(cv, bool), where, f"code `{ast.unparse(code)}` = {cv!r}")
    R.need(n_dict >= 15, f"only {n_dict} dict displays with a 'jsonrpc' key found (17 confirmed by hand)")
    R.need(n_call >= 20, f"only {n_call} envelope constructor calls found")
    R.extra["dict_emitters"] = n_dict
    R.extra["constructor_emitters"] = n_call

    # ------------------------------------------------------------------ R3
    presence_not_truthiness(P, R)
    kind_table(P, R)

    # ------------------------------------------------------------------ R5
    R.rule("R5", "envelope classes that override model_dump/model_dump_json only filter absent top-level members: the payload values (params, result, error.data) are never rewritten")
    n_over = 0
    for cname in list(ENVELOPE_CLASSES) + ["JSONRPCMessage"]:
        mi = T.models.get(f"{A.MOD_JSONRPC}:{cname}")
        if mi is None:
            continue
        for mname in ("model_dump", "model_dump_json", "dict", "json"):
            f = mi.methods.get(mname)
            if f is None:
                continue
            n_over += 1
            R.fn(f.fq)
            bad = []
            for n in walk_local(f.node):
                if isinstance(n, ast.Call):
                    cn = call_name(n)
                    if cn == "super" or cn.startswith("super().") or cn in ("kwargs.get", "isinstance", "json.dumps") or cn.endswith((".items", ".get")):
                        continue
                    bad.append(f"line {n.lineno}: call `{cn}(…)`")
                if isinstance(n, (ast.DictComp, ast.ListComp)):
                    # a single-level filter `{k: v for k, v in result.items() if v is not None}` is fine
                    ok = isinstance(n, ast.DictComp) and len(n.generators) == 1 and isinstance(n.value, ast.Name) and isinstance(n.key, ast.Name)
                    if not ok:
                        bad.append(f"line {n.lineno}: `{ast.unparse(n)[:50]}` transforms values")
                if isinstance(n, (ast.Assign, ast.Delete)):
                    tg = n.targets if isinstance(n, ast.Assign) else n.targets
                    for t in tg:
                        if isinstance(t, ast.Subscript) and not ast.unparse(t).startswith("kwargs["):
                            bad.append(f"line {n.lineno}: `{ast.unparse(t)[:40]}` is assigned/deleted")
            R.ob("R5", f"{cname}.{mname} leaves payload values alone", not bad, f.where,
                 "the override post-processes the dumped payload: " + "; ".join(bad) + " — explicit nulls (or other values) nested inside params/result would not survive emission", sample=f"R5 {cname}.{mname}: top-level filter only")
    R.ob("R5", "envelope dump overrides were examined", True, jm.rel, f"{n_over} overrides")

    # ------------------------------------------------------------------ R4
    ser_sites = 0
    for modname, fname_hint in ((A.MOD_STDIO, None), (A.MOD_HTTP, None), (A.MOD_SSE, None)):
        for f in P.funcs_in(modname):
            for c in walk_local(f.node):
                if not isinstance(c, ast.Call):
                    continue
                nm = resolved_call_name(f.node, c)
                is_dump = nm.endswith(".model_dump") or nm.endswith(".model_dump_json")
                if not is_dump:
                    continue
                # only sites that serialise the outgoing message object
                ser_sites += 1
                R.call_sites += 1
                en = kwarg(c, "exclude_none")
                R.ob("R4", f"{f.fq}: `{nm}` passes exclude_none=True", isinstance(en, ast.Constant) and en.value is True, f"{f.module.rel}:{c.lineno}", "absent optional members (params, result…) would be sent as null", sample=f"R4 {f.fq}: {ast.unparse(c)[:60]}")
                R.ob("R4", f"{f.fq}: `{nm}` passes no indent", kwarg(c, "indent") is None, f"{f.module.rel}:{c.lineno}", "")
    R.need(ser_sites >= 4, f"only {ser_sites} transport serialisation sites found (4 confirmed by hand)")


def id_not_nullable(P: Project, f: FuncInfo, idt: Optional[str], lits, an: PathAnalysis):
    if idt is None:
        return False, "no id member"
    try:
        node = ast.parse(idt, mode="eval").body
    except SyntaxError:
        return True, f"id := {idt}"
    if isinstance(node, ast.Constant):
        return (node.value is not None and not isinstance(node.value, (bool, float))), f"id is the constant {node.value!r}"
    guards = {idt, f"{idt} is not None"}
    if guards & set(lits):
        return True, f"id `{idt[:50]}` guarded on the path"
    if isinstance(node, ast.Name) and node.id in f.params():
        d = f.param_default(node.id)
        if isinstance(d, ast.Constant) and d.value is None:
            return False, f"id is the parameter `{node.id}` whose default is None and no guard dominates the construction"
        return True, f"id is the parameter `{node.id}` (no None default)"
    # an id projected out of a message with a None default is nullable by construction, unless the function's
    # contract is to answer exactly that request (frozen table, one reason per symbol)
    o = an.origin(idt)
    if (".get('id')" in o or "'id', None)" in o) and f.fq not in ANSWERS_ITS_REQUEST:
        return False, f"id `{o[:60]}` may be None (the function handles messages with and without id) and no guard dominates the construction"
    if f.fq in ANSWERS_ITS_REQUEST:
        return True, f"id := {o[:50]} — {ANSWERS_ITS_REQUEST[f.fq]}"
    # an id the function itself treats as possibly absent elsewhere
    treats_absent = any(l in (f"not {idt}", f"{idt} is None") for l in lits)
    src = ast.unparse(f.node)
    tests_elsewhere = f"if not {ast.unparse(node)}" in src or f"{ast.unparse(node)} is None" in src
    o = an.origin(idt)
    if treats_absent:
        return False, f"id `{idt[:50]}` is known to be absent on this path"
    # an id read from the message being answered / a fresh uuid / a counter
    return True, f"id := {o[:70]}"


# ----------------------------------------------------------------------------- kind table
def presence_not_truthiness(P: Project, R: Report) -> None:
    """R3, reading discipline of the parser: which kind a message is depends on which members are *present* (or null),
    never on whether a member's value is truthy — 0 and "" are legal ids, [] / 0 / false / "" are legal results."""
    pm = P.func(A.MOD_JSONRPC, "parse_message")
    dp = pm.positional_params()[0]
    fns = [pm] + [g for g in P.funcs_in(A.MOD_JSONRPC) if g.parent is None and g.cls is None and g is not pm and any(isinstance(c, ast.Call) and P.resolve_call(pm, c) is g for c in walk_local(pm.node))]
    LEGAL_FALSY = {"id", "result"}
    n = 0
    for f in fns:
        params = set(f.positional_params())
        lv = None

        def member_read(e):
            """('k', text) if `e` is `<message>.get('k'[, d])` / `<message>['k']` on a parameter (the parsed object)"""
            if isinstance(e, ast.Call) and isinstance(e.func, ast.Attribute) and e.func.attr == "get" and isinstance(e.func.value, ast.Name) and e.func.value.id in params and e.args and isinstance(e.args[0], ast.Constant):
                return str(e.args[0].value)
            if isinstance(e, ast.Subscript) and isinstance(e.value, ast.Name) and e.value.id in params and isinstance(e.slice, ast.Constant):
                return str(e.slice.value)
            return None

        def truth_uses(test):
            """member reads whose truth value decides `test`"""
            out = []
            if isinstance(test, ast.UnaryOp) and isinstance(test.op, ast.Not):
                return truth_uses(test.operand)
            if isinstance(test, ast.BoolOp):
                for v in test.values:
                    out += truth_uses(v)
                return out
            k = member_read(test)
            if k is not None:
                out.append((k, test))
            return out

        sites = []
        for x in walk_local(f.node):
            if isinstance(x, (ast.If, ast.IfExp, ast.While)):
                sites += truth_uses(x.test)
            if isinstance(x, ast.comprehension):
                for c in x.ifs:
                    sites += truth_uses(c)
            if isinstance(x, ast.Call) and call_name(x) in ("filter", "any", "all", "bool") and x.args:
                a0 = x.args[0]
                if call_name(x) == "filter" and isinstance(a0, ast.Attribute) and a0.attr == "get" and isinstance(a0.value, ast.Name) and a0.value.id in params and len(x.args) == 2:
                    keys = try_fold(P, f.module, x.args[1])
                    for k in (keys if isinstance(keys, (list, tuple, set, frozenset)) else ["?"]):
                        sites.append((str(k), x))
                elif call_name(x) == "bool":
                    sites += truth_uses(a0)
        # … nor on whether it is null: `"result": null` is what a method with nothing to return answers
        for x in walk_local(f.node):
            if isinstance(x, ast.Compare) and len(x.ops) == 1 and isinstance(x.ops[0], (ast.Is, ast.IsNot, ast.Eq, ast.NotEq)):
                a_, b_ = x.left, x.comparators[0]
                for m_, o_ in ((a_, b_), (b_, a_)):
                    k_ = member_read(m_)
                    if k_ is not None and isinstance(o_, ast.Constant) and o_.value is None and isinstance(m_, ast.Call) and len(m_.args) == 1:
                        n += 1
                        R.ob("R3", f"{f.qual}: member `{k_}` is classified by presence, not by whether its value is null", k_ != "result", f"{f.module.rel}:{x.lineno}",
                             f"`{ast.unparse(x)[:70]}` takes a null `{k_}` for an absent member: the success response `{{\"id\": 3, \"result\": null}}` (a method with nothing to return) has no result by this test and is rejected as an invalid structure")
        for k, node in sites:
            n += 1
            R.ob("R3", f"{f.qual}: member `{k}` is classified by presence, not by the truth of its value", k not in LEGAL_FALSY and k != "?", f"{f.module.rel}:{node.lineno}",
                 f"`{ast.unparse(node)[:70]}` decides on the truth value of `{k}`: a legal falsy value (id 0 or \"\", result [] / 0 / false / \"\") is taken for an absent member, so a response the library itself emits is rejected or classified as another kind")
    R.extra["truthiness_reads_in_parser"] = n


def kind_table(P: Project, R: Report) -> None:
    legacy = P.cls(A.MOD_JSONRPC, "JSONRPCMessage")
    meths = P.methods(legacy)
    for need in ("model_post_init", "is_request", "is_notification", "is_response", "is_error_response"):
        R.need(need in meths, f"anchor vanished: JSONRPCMessage.{need}")
    pm = P.func(A.MOD_JSONRPC, "parse_message")
    R.fn(pm.fq, *(m.fq for m in meths.values()))
    dp = pm.positional_params()[0]
    # the cascade: statements after the backward-compatibility try
    compat = None
    for i, s in enumerate(pm.node.body):
        if isinstance(s, ast.Try) and any(isinstance(r, ast.Return) and "model_validate" in ast.unparse(r) for r in walk_local(s)):
            compat = i
    R.need(compat is not None, "anchor: parse_message no longer tries the unified class first")
    cascade_fn = ast.FunctionDef(name="cascade", args=pm.node.args, body=pm.node.body[compat + 1:], decorator_list=[], lineno=pm.node.lineno, col_offset=0)
    ast.fix_missing_locations(cascade_fn)
    states = ("absent", "null", "value")
    n = 0
    bad = 0
    agree = {"request": 0, "notification": 0, "response": 0, "error": 0}
    for idv, mv, rv, ev in itertools.product(states, repeat=4):
        n += 1
        # --- legacy unified class (field defaults are None, so absent and null coincide)
        val = lambda s: None if s in ("absent", "null") else "<v>"
        region = {"self.id": val(idv), "self.method": val(mv), "self.result": val(rv), "self.error": val(ev),
                  "isinstance(self.id, (str, int))": True, "os.environ.get('SKIP_JSONRPC_VALIDATION', 'false').lower() == 'true'": False,
                  "self.is_response()": (val(mv) is None and val(idv) is not None)}
        res = decide(meths["model_post_init"].node, region)
        legacy_accepts = not any(k == "raise" for k, _v, _n in res)
        # the legacy model_validate classmethod additionally requires code+message in a dict error: emitted errors have both
        kinds = []
        if legacy_accepts:
            for kind, mname in (("request", "is_request"), ("notification", "is_notification"), ("response", "is_response"), ("error", "is_error_response")):
                rr = decide(meths[mname].node, region)
                vals = {v for k, v, _n in rr if k == "return"}
                if vals == {True}:
                    kinds.append(kind)
                elif vals != {False}:
                    raise AnalysisError(f"{mname} is undecided on region {region}")
            if "error" in kinds and "response" in kinds:
                kinds.remove("response")  # an error response is the more specific kind
            got = kinds[0] if len(kinds) == 1 else ("none" if not kinds else "ambiguous:" + "+".join(kinds))
            via = "legacy"
        else:
            has = lambda s: s != "absent"
            region2 = {f"'id' in {dp}": has(idv), f"'method' in {dp}": has(mv), f"'result' in {dp}": has(rv), f"'error' in {dp}": has(ev),
                       f"{dp}.get('jsonrpc') != '2.0'": False, f"isinstance({dp}, list)": False, f"isinstance({dp}, dict)": True, f"not isinstance({dp}, dict)": False}
            for k_, s_ in (("id", idv), ("method", mv), ("result", rv), ("error", ev)):
                # `.get(k) is None` holds for an absent member and for an explicit null alike
                region2[f"{dp}.get('{k_}') is None"] = s_ != "value"
                region2[f"{dp}.get('{k_}') is not None"] = s_ == "value"
            rr = decide(cascade_fn, region2)
            outs = set()
            for k, v, _nd in rr:
                if k == "raise":
                    outs.add("rejected")
                elif k == "return":
                    txt = v[1] if isinstance(v, tuple) and len(v) == 2 and v[0] == "<opaque>" else str(v)
                    for cname, kind in ENVELOPE_CLASSES.items():
                        if txt.startswith(cname + "."):
                            outs.add(kind)
                else:
                    outs.add("falloff")
            got = next(iter(outs)) if len(outs) == 1 else "ambiguous:" + "+".join(sorted(outs))
            via = "cascade"
        # --- oracle: what an emitter of each shape puts on the wire (exclude_none drops nulls, so emitted members are values;
        #     a result may legitimately be JSON null only when the server emits it explicitly)
        want = None
        if idv == "value" and mv == "value" and rv == "absent" and ev == "absent":
            want = "request"
        elif idv == "absent" and mv == "value" and rv == "absent" and ev == "absent":
            want = "notification"
        elif idv == "value" and mv == "absent" and rv in ("value", "null") and ev == "absent":
            want = "response"
        elif idv == "value" and mv == "absent" and rv == "absent" and ev == "value":
            want = "error"
        elif idv == "value" and mv == "absent" and rv == "value" and ev == "value":
            want = "rejected"
        elif idv == "value" and mv == "absent" and rv == "absent" and ev == "absent":
            want = "rejected"
        if want is None:
            continue
        ok = got == want
        if ok and want in agree:
            agree[want] += 1
        if not ok:
            bad += 1
        R.ob("R3", f"(id={idv}, method={mv}, result={rv}, error={ev}) parses as {want}", ok, f"{pm.module.rel}:{pm.node.lineno}", f"parser ({via}) yields {got}",
             sample=f"R3 id={idv} method={mv} result={rv} error={ev} → {got} via {via}")
    R.extra["kind_table_regions"] = n
    R.paths += n
    R.ob("R3", "each of the four emitted shapes keeps its kind", all(v >= 1 for v in agree.values()) and bad == 0, pm.where, f"{agree}, {bad} disagreements")
    # to_specific_type agrees with the is_* predicates
    ts = meths.get("to_specific_type")
    if ts is not None:
        for kind, (idv, mv, rv, ev) in (("request", ("v", "v", None, None)), ("notification", (None, "v", None, None)), ("response", ("v", None, "v", None)), ("error", ("v", None, None, "v"))):
            region = {"self.id": idv, "self.method": mv, "self.result": rv, "self.error": ev}
            rr = decide(ts.node, region)
            outs = set()
            for k, v, _nd in rr:
                txt = v[1] if isinstance(v, tuple) and len(v) == 2 else str(v)
                for cname, kk in ENVELOPE_CLASSES.items():
                    if k == "return" and txt.startswith(cname + "("):
                        outs.add(kk)
                if k == "raise":
                    outs.add("rejected")
            R.ob("R3", f"to_specific_type maps a {kind} to the {kind} class", outs == {kind}, ts.where, f"yields {sorted(outs)}")

    # ------------------------------------------------------------------ R6: builders hand the payload through
    R.rule("R6", "the message builders (create_request / create_notification / create_response / create_error_response, module-level and classmethod) put the caller's payload object — or a structural copy of it — into the envelope: on the way from the parameter to the constructor it passes through nothing but dict/list copies; a serialise-and-parse round trip or any other call on the payload is a finding (the codecs are not value-preserving for every JSON value, C17)")
    COPIES = {"dict", "list", "copy.copy", "copy.deepcopy", "deepcopy", "copy"}
    n_b = 0
    for f in sorted(P.funcs_in(A.MOD_JSONRPC), key=lambda f: f.fq):
        if not f.name.startswith("create_") or f.parent is not None:
            continue
        R.fn(f.fq)

        def bev(call, st, an, f=f):
            if kwarg(call, "jsonrpc") is None:
                return None
            seen_calls = []

            def walk_val(e, depth=0):
                if depth > 8:
                    return
                for n in ast.walk(e):
                    if isinstance(n, ast.Call):
                        seen_calls.append(n)
                    if isinstance(n, ast.Name):
                        d = an.defs.get(st.term(n.id) or "", ("", None))[1]
                        if d is not None:
                            walk_val(d.value if isinstance(d, ast.Await) else d, depth + 1)

            for k in call.keywords:
                if k.arg in ("params", "result", "error"):
                    walk_val(k.value)
            bad = []
            for c in seen_calls:
                nm = call_name(c)
                if nm in COPIES or (isinstance(c.func, ast.Attribute) and c.func.attr in ("copy", "get", "setdefault", "items")) or nm in ("str", "uuid.uuid4"):
                    continue
                g = P.resolve_call(f, c)
                codec = nm.split(".")[-1] in ("dumps", "loads", "dump", "load") or (isinstance(g, FuncInfo) and g.module.name in (A.MOD_FASTJSON, "json"))
                bad.append(("codec:" if codec else "other:") + ast.unparse(c)[:60])
            return "build:" + "|".join(sorted(set(bad)))

        ba, bo = run_paths(f.node, event_of=bev, fallible=False)
        for st, node in bo.ret:
            evs = [e for e in st.events if e.startswith("build:")]
            if not evs:
                continue
            n_b += 1
            bad = [x for e in evs for x in e[len("build:"):].split("|") if x]
            other = [x for x in bad if x.startswith("other:")]
            if other and not any(x.startswith("codec:") for x in bad):
                raise AnalysisError(f"{f.module.rel}:{node.lineno}: {f.qual} passes the payload through `{other[0][6:]}`, which this rule cannot classify as a copy")
            R.ob("R6", f"{f.qual}: the payload reaches the envelope untouched", not bad, f"{f.module.rel}:{node.lineno}",
                 f"on the way into the envelope the payload goes through `{bad[0].split(':', 1)[1] if bad else ''}`: a JSON encode/decode round trip changes values the codecs do not preserve (integers beyond 64 bits become floats under the fast backend), so parsing the emitted form no longer gives back the payload",
                 sample=f"R6 {f.qual}: payload handed through")
    R.need(n_b >= 6, f"only {n_b} builder paths found (8 builders confirmed by hand)")
    # … and the caller's id: whatever id a builder is given (0 and "" included) is the id of the envelope; one is made up only
    # for a caller that gave none
    n_id = 0
    for f in sorted(P.funcs_in(A.MOD_JSONRPC), key=lambda f: f.fq):
        if not f.name.startswith("create_") or f.parent is not None or "id" not in f.params():
            continue

        def iev(call, st, an, f=f):
            k = kwarg(call, "id")
            if k is None or kwarg(call, "jsonrpc") is None:
                return None
            return "envid:" + subst_text(k, st)

        ia, io = run_paths(f.node, event_of=iev, fallible=False)
        for st, node in io.ret:
            evs = [e[len("envid:"):] for e in st.events if e.startswith("envid:")]
            if not evs:
                continue
            n_id += 1
            given = "id is not None" in st.lits or "id is None" not in st.lits
            if "id is None" in st.lits:
                continue  # the caller gave none: any fresh id will do (its origin is C01/C18's subject)
            R.ob("R6", f"{f.qual}: an id the caller gave is the id of the envelope", all(e == "id" for e in evs), f"{f.module.rel}:{node.lineno}",
                 f"on a path where the caller's id is not None the envelope gets `{evs[0][:60]}` (path: {sorted(l[:40] for l in st.lits)[:4]}): a legal id that is falsy — 0 or \"\" — is replaced by a made-up one, so the request the caller gets back (and the response it waits for) carries another id, of another JSON type",
                 sample=f"R6 {f.qual}: id passed through unless None")
    R.need(n_id >= 2, f"only {n_id} builder paths with an id found")

    # envelope classes: configuration that rewrites strings changes ids and method names on the way in
    from ..models import config_findings

    cf = [x for x in config_findings(ModelTable(P)) if x[0].ci.module.name == A.MOD_JSONRPC]
    for m, k, v, effect in cf:
        R.ob("R1", f"{m.name}: the envelope's configuration leaves id, method and payload keys as sent", False, f"{m.ci.module.rel}:{m.ci.node.lineno}",
             f"model_config[{k!r}] = {v!r} {effect}: an id or method name is no longer the one on the wire, so parsing the emitted form does not give back the message")
    if not cf:
        R.ob("R1", "envelope configuration rewrites nothing", True, P.module(A.MOD_JSONRPC).rel, "")


    # ------------------------------------------------------------------ R7: what the caller hands to an emitting helper is what goes out
    R.rule("R7", "params are emitted as given: an emitting helper of protocol/messages does not pass a caller's number through a model field typed `float` on its way into the envelope (Pydantic turns an int into a float there: above 2**53 the value changes, below it the JSON type does) — params are built from the arguments themselves")
    from ..models import ModelTable as _MT7

    T7 = _MT7(P)
    by_name7 = {}
    for m7 in T7.models.values():
        by_name7.setdefault(m7.name, []).append(m7)
    n7 = 0
    for f7 in P.funcs.values():
        if not f7.module.name.startswith("chuk_mcp.protocol.messages") or f7.cls is not None:
            continue
        dumps7 = [c7 for c7 in walk_local(f7.node) if isinstance(c7, ast.Call) and isinstance(c7.func, ast.Attribute) and c7.func.attr in ("model_dump", "model_dump_json", "dict") and isinstance(c7.func.value, ast.Name)]
        for c7 in dumps7:
            ctor = [x.value for x in walk_local(f7.node) if isinstance(x, ast.Assign) and len(x.targets) == 1 and isinstance(x.targets[0], ast.Name) and x.targets[0].id == c7.func.value.id and isinstance(x.value, ast.Call)]
            if len(ctor) != 1:
                continue
            kind7, cls7 = P.resolve_name(f7.module.name, call_name(ctor[0]).split(".")[-1])
            ms7 = [m_ for m_ in by_name7.get(getattr(cls7, "name", ""), []) if kind7 == "class" and m_.ci is cls7]
            if not ms7:
                continue
            n7 += 1
            params7 = set(f7.params())
            for k7 in ctor[0].keywords:
                fi7 = ms7[0].fields.get(k7.arg) if k7.arg else None
                if fi7 is None or not (isinstance(k7.value, ast.Name) and k7.value.id in params7):
                    continue
                ann7 = fi7.ann_text.replace("typing.", "")
                floaty = ann7 in ("float", "Optional[float]", "float | None", "None | float", "Union[float, None]")
                R.ob("R7", f"{f7.qual}: `{k7.arg}` goes out as the caller gave it", not floaty, f"{f7.module.rel}:{ctor[0].lineno}",
                     f"the caller's `{k7.value.id}` is passed through {ms7[0].name}.{k7.arg}: {ann7} before it is dumped into the params: an integer becomes a float on the way (9007199254740993 → 9007199254740992.0; 50 → 50.0), so the emitted params are not the ones the helper was given")
    R.extra["emitting_helpers_that_dump_a_model_built_from_arguments"] = n7
    if not any(o.rule == "R7" for o in R.obligations):
        R.ob("R7", "no emitting helper passes an argument through a float-typed model field", True, "", "", sample=f"R7 {n7} helper(s) dump a model built from their arguments; none narrows a number")
