"""C08 — server dispatch: one response per request, none per notification, never a crash."""
from __future__ import annotations

import ast

from .. import anchors as A
from ..consteval import try_fold
from ..envelopes import envelope_call
from ..flow import ANY_EXC
from ..model import AnalysisError, ClassInfo, FuncInfo, Project, call_name, walk_local
from ..paths import PState, PathAnalysis, run_paths, subst, subst_text, calls_in_order
from ..report import Report


def nonnull(st: PState, term: str) -> bool:
    if f"{term} is not None" in st.lits:
        return True
    try:
        n = ast.parse(term, mode="eval").body
    except SyntaxError:
        return False
    return isinstance(n, ast.Constant) and n.value is not None


_RENDERERS = {"str", "repr", "json.dumps", "dumps", "isinstance", "len", "type", "bool"}


def _unrendered_uses(P: Project, cls, f: FuncInfo, names: set, seen: set):
    """[(node, why)]: uses of the user's value(s) `names` in `f` that are neither a rendering to text (str/repr/json.dumps,
    an f-string), a type test, an iteration over it (whose items are the user's too), nor a hand-over to a method of the
    same class that itself only renders it."""
    if (f.fq, tuple(sorted(names))) in seen:
        return []
    seen = seen | {(f.fq, tuple(sorted(names)))}
    user = set(names)
    changed = True
    while changed:
        changed = False
        for n in walk_local(f.node):
            if isinstance(n, (ast.For, ast.AsyncFor)) and isinstance(n.iter, ast.Name) and n.iter.id in user and isinstance(n.target, ast.Name) and n.target.id not in user:
                user.add(n.target.id)
                changed = True
            if isinstance(n, ast.Assign) and len(n.targets) == 1 and isinstance(n.targets[0], ast.Name) and isinstance(n.value, ast.Name) and n.value.id in user and n.targets[0].id not in user:
                user.add(n.targets[0].id)
                changed = True
            if isinstance(n, ast.comprehension) and isinstance(n.iter, ast.Name) and n.iter.id in user and isinstance(n.target, ast.Name) and n.target.id not in user:
                user.add(n.target.id)  # `[… for item in result …]`: the items are the user's too
                changed = True
    parents = {}
    for x in ast.walk(f.node):
        for c_ in ast.iter_child_nodes(x):
            parents[id(c_)] = x
    out = []
    meths = P.methods(cls) if cls is not None else {}
    for n in walk_local(f.node):
        if not (isinstance(n, ast.Name) and n.id in user and isinstance(n.ctx, ast.Load)):
            continue
        par = parents.get(id(n))
        if isinstance(par, ast.FormattedValue):
            continue
        # under `if isinstance(v, str):` the value is text already
        is_text = False
        cur, child = par, n
        while cur is not None and cur is not f.node:
            if isinstance(cur, ast.If) and any(child is b for b in cur.body) and ast.unparse(cur.test) in (f"isinstance({n.id}, str)", f"type({n.id}) is str"):
                is_text = True
                break
            child, cur = cur, parents.get(id(cur))
        if is_text:
            continue
        if isinstance(par, (ast.For, ast.AsyncFor)) and par.iter is n:
            continue
        if isinstance(par, ast.comprehension) and par.iter is n:
            continue
        if isinstance(par, ast.Assign) and par.value is n:
            continue  # (renaming, followed above)
        if isinstance(par, ast.Call) and n in par.args:
            gp_ = parents.get(id(par))
            while isinstance(gp_, (ast.BoolOp, ast.UnaryOp)):
                par_b, gp_ = gp_, parents.get(id(gp_))
            if isinstance(gp_, (ast.If, ast.IfExp, ast.While)) and any(x is par for x in ast.walk(gp_.test)):
                continue  # a question asked about the value (`if is_image(v):`), not a use of it
            if isinstance(gp_, ast.Assign) and len(gp_.targets) == 1 and isinstance(gp_.targets[0], ast.Name):
                flag = gp_.targets[0].id
                loads = [x for x in walk_local(f.node) if isinstance(x, ast.Name) and x.id == flag and isinstance(x.ctx, ast.Load)]

                def tested(x):
                    q = parents.get(id(x))
                    while isinstance(q, (ast.BoolOp, ast.UnaryOp)):
                        q = parents.get(id(q))
                    return isinstance(q, (ast.If, ast.IfExp, ast.While)) and any(y is x for y in ast.walk(q.test))

                if loads and all(tested(x) for x in loads):
                    continue  # … the answer kept in a flag that is only ever tested
            cn = call_name(par)
            if cn in _RENDERERS or cn.split(".")[-1] in ("dumps",):
                continue
            g = None
            if cn.startswith("self."):
                g = meths.get(cn[5:]) or (P.lookup_method(cls, cn[5:]) if cls is not None else None) or (P.lookup_method(f.cls, cn[5:]) if f.cls is not None else None)
            if g is not None:
                idx = par.args.index(n)
                gp = [p_ for p_ in g.positional_params() if p_ != "self"]
                if idx < len(gp):
                    inner = _unrendered_uses(P, cls, g, {gp[idx]}, seen)
                    out.extend(inner)
                    continue
            out.append((par, f"`{ast.unparse(par)[:60]}` hands the callable's return value to code that does not render it"))
            continue
        if isinstance(par, ast.Compare) or isinstance(par, ast.BoolOp) or isinstance(par, ast.UnaryOp) or (isinstance(par, ast.If) and par.test is n) or (isinstance(par, ast.IfExp) and par.test is n):
            continue
        out.append((par if par is not None else n, f"`{ast.unparse(par)[:60] if par is not None else n.id}` uses the callable's return value as it is"))
    return out


def check(P: Project, R: Report) -> None:
    R.rule("R1", "in the dispatcher a nullable id never reaches the id of an envelope constructor (whose field is non-Optional) without a dominating `is not None` literal — also inside except blocks")
    R.rule("R5", "the response can be written: what a registered tool/resource callable returns is the user's and reaches the response only rendered to text (str / json.dumps / an f-string) inside the handler's try — directly or through a method of the server that itself only renders it; the value itself, or a member of it, is never placed in the response")
    R.rule("R2", "containment: under the fallibility model (invoking a registry handler, an envelope constructor fed a nullable id, attribute access on the message without a getattr default) no exception edge leaves handle_message")
    R.rule("R3", "response accounting over all paths: with an id the dispatcher returns exactly one envelope carrying that id (an error it builds itself, or the handler's answer); without an id it returns None as the response")
    R.rule("R4", "codes: handler-lookup miss → -32601, exception from a handler → -32603, unknown tool/resource name → -32602")
    ph = P.cls(A.MOD_HANDLER, "ProtocolHandler")
    hm = P.func(A.MOD_HANDLER, "ProtocolHandler.handle_message")
    R.fn(hm.fq)
    msg_p = [p for p in hm.positional_params() if p != "self"][0]
    ID = f"getattr({msg_p}, 'id', None)"

    # envelope id field really is non-Optional (otherwise a null id would not raise, and R1 would be moot)
    for cname in ("JSONRPCResponse", "JSONRPCError"):
        ci = P.cls(A.MOD_JSONRPC, cname)
        ann = [s for s in ci.node.body if isinstance(s, ast.AnnAssign) and ast.unparse(s.target) == "id"]
        R.need(ann, f"{cname} lost its id field")
        R.sample(f"{cname}.id: {ast.unparse(ann[0].annotation)}")

    def is_registry_value(term: str, an: PathAnalysis) -> bool:
        d = an.defs.get(term, ("", None))[0]
        return "self._handlers" in d or "self._handlers" in term

    def fallible(node, st: PState, an: PathAnalysis):
        tags = set()
        for c in calls_in_order(node):
            if isinstance(c.func, ast.Name):
                t = st.term(c.func.id) or c.func.id
                if is_registry_value(t, an):
                    tags.add(ANY_EXC)
            env = envelope_call(P, hm, c)
            if env is not None and env.get("id") is not None:
                idt = subst_text(env["id"], st)
                if env["kind"] in ("response", "error", "request") and not nonnull(st, idt):
                    tags.add("ValidationError")
        for n in walk_local(node):
            if isinstance(n, ast.Attribute) and isinstance(n.value, ast.Name) and n.value.id == msg_p and isinstance(n.ctx, ast.Load):
                tags.add("AttributeError")
        # a function of the package called by the dispatcher (a context object built from the message, a metrics hook, …)
        # raises into it unless nothing in that function can raise
        hv_ = tuple(h.name for h in an.handler_stack if h.name)
        for c in calls_in_order(node):
            if envelope_call(P, hm, c) is not None:
                continue
            g = P.resolve_call(hm, c)
            if isinstance(g, FuncInfo) and g is not hm and g.name not in helpers_names and g.module.name.startswith("chuk_mcp.") and not _abstract(g) and not contained(P, g):
                tags.add(ANY_EXC)
            elif g is None and isinstance(c.func, ast.Attribute) and not is_benign_call(c, hv_):
                # a method called on a value of unknown shape (`x.get(...)` on something that need not be a mapping)
                recv = c.func.value
                on_self_dict = isinstance(recv, ast.Attribute) and isinstance(recv.value, ast.Name) and recv.value.id == "self" and recv.attr in self_dicts
                if not (on_self_dict or is_mapping_get(c, maps_) or is_mapping_get_here(c, st)) and not (isinstance(recv, ast.Name) and is_registry_value(st.term(recv.id) or recv.id, an)):
                    tags.add(ANY_EXC)
        return tags

    from ..paths import is_benign_call, is_mapping_get, is_mapping_get_here, mapping_names

    maps_ = mapping_names(hm.node)
    init_ = P.methods(ph).get("__init__")
    self_dicts = {t.attr for s_ in (walk_local(init_.node) if init_ is not None else []) if isinstance(s_, (ast.Assign, ast.AnnAssign)) and isinstance(getattr(s_, "value", None), ast.Dict)
                  for t in (s_.targets if isinstance(s_, ast.Assign) else [s_.target]) if isinstance(t, ast.Attribute)}

    def _abstract(g) -> bool:
        body = [x for x in g.node.body if not (isinstance(x, ast.Expr) and isinstance(x.value, ast.Constant))]
        return all(isinstance(x, (ast.Pass, ast.Raise)) or (isinstance(x, ast.Expr) and isinstance(x.value, ast.Constant)) for x in body)

    from ..summaries import contained

    helpers_names = {f.name for f in P.methods(ph).values() if f is not hm and any(isinstance(r, ast.Return) and isinstance(r.value, ast.Tuple) for r in walk_local(f.node))} | {"create_error_response", "create_response"}

    # reply helpers: other methods of the class that return (envelope-or-None, session) for an id they are given
    helpers = {}
    for f in P.methods(ph).values():
        if f is hm:
            continue
        idp = None
        for r in walk_local(f.node):
            if isinstance(r, ast.Return) and isinstance(r.value, ast.Tuple) and r.value.elts and isinstance(r.value.elts[0], ast.Call):
                env = envelope_call(P, f, r.value.elts[0])
                if env is not None and isinstance(env.get("id"), ast.Name) and env["id"].id in f.params():
                    idp = env["id"].id
        has_none = any(isinstance(r, ast.Return) and isinstance(r.value, ast.Tuple) and r.value.elts and isinstance(r.value.elts[0], ast.Constant) and r.value.elts[0].value is None for r in walk_local(f.node))
        if idp is not None and has_none:
            helpers[f.name] = (f, idp)
    for hname, (hf, idp) in sorted(helpers.items()):
        R.fn(hf.fq)
        ha0, ho0 = run_paths(hf.node, fallible=False)
        for st, node in ho0.ret:
            first = node.value.elts[0] if isinstance(node.value, ast.Tuple) and node.value.elts else node.value
            where = f"{hf.module.rel}:{node.lineno}"
            if isinstance(first, ast.Constant) and first.value is None:
                R.ob("R3", f"reply helper {hname}: no response only when the id is None", f"{idp} is None" in st.lits, where,
                     f"returns no response under {sorted(l for l in st.lits if idp in l)}: a request whose id is falsy but legal (0 or '') is treated as a notification and gets no response")
            else:
                R.ob("R1", f"reply helper {hname}: envelope only with a non-null id", f"{idp} is not None" in st.lits or idp in st.lits, where, f"literals {sorted(st.lits)}")
        R.ob("R3", f"reply helper {hname} cannot fall off the end", not ho0.normal, hf.where, "")

    sites = []

    def ev(call, st: PState, an: PathAnalysis):
        nm0 = call_name(call)
        if nm0.startswith("self.") and nm0[5:] in helpers:
            hf, idp = helpers[nm0[5:]]
            b = {p: a for p, a in zip([x for x in hf.positional_params() if x != "self"], call.args)}
            b.update({k.arg: k.value for k in call.keywords if k.arg})
            idt = subst_text(b[idp], st) if idp in b else "<none>"
            code = try_fold(P, hm.module, subst(b.get("code"), st)) if b.get("code") is not None else None
            return f"reply:{nm0[5:]}:{idt}:{code}"
        env = envelope_call(P, hm, call)
        if env is not None:
            idt = subst_text(env["id"], st) if env.get("id") is not None else "<none>"
            code = try_fold(P, hm.module, subst(env["code"], st)) if env.get("code") is not None else None
            sites.append((call, st, env, idt, code))
            return f"envelope:{env['kind']}:{idt}:{code}"
        if isinstance(call.func, ast.Name):
            t = st.term(call.func.id) or call.func.id
            if is_registry_value(t, an):
                return "invoke:" + ",".join(subst_text(a, st) for a in call.args)
        return None

    an, out = run_paths(hm.node, event_of=ev, fallible_pred=fallible)
    an.parents = A.exception_parents(P)
    R.paths += len(out.ret) + len(out.exc) + len(out.normal)

    # ------------------------------------------------------------------ R1
    delegated = any(e.startswith("reply:") for st, _n in out.ret for e in st.events)
    R.need(sites or delegated, "anchor: handle_message builds no envelope and delegates to no reply helper")
    for call, st, env, idt, code in sites:
        in_except = any(call in list(walk_local(h)) for t in walk_local(hm.node) if isinstance(t, ast.Try) for h in t.handlers)
        # … or built after the try on a path that carries a caught exception object (`failure = e` … `if failure is not None:`)
        in_except = in_except or any(l.endswith(" is not None") and an.defs.get(l[: -len(" is not None")], ("",))[0] == "caught" for l in st.lits)
        key = f"{env['kind']} envelope code {code}" + (" (in except block)" if in_except else "")
        R.ob("R1", key + ": id is non-null on the path", nonnull(st, idt), f"{hm.module.rel}:{call.lineno}",
             f"id term `{idt}` reaches the envelope with no `is not None` literal (literals {sorted(l[:50] for l in st.lits)})",
             sample=f"R1 {hm.qual}: {env['kind']}(id={idt}, code={code}) under {sorted(l for l in st.lits if 'id' in l)}")

    # ------------------------------------------------------------------ R2
    escapes = {}
    for st, tag, node in out.exc:
        escapes.setdefault((tag, getattr(node, "lineno", 0)), ast.unparse(node)[:70])
    R.ob("R2", "no exception edge leaves handle_message", not escapes, hm.where,
         "escaping: " + "; ".join(f"{t} from line {l} `{src}`" for (t, l), src in sorted(escapes.items())))
    invokes = [c for c in walk_local(hm.node) if isinstance(c, ast.Call) and isinstance(c.func, ast.Name) and c.func.id not in ("getattr", "isinstance", "str")]
    trys = [t for t in walk_local(hm.node) if isinstance(t, ast.Try)]
    inv_in_try = [c for c in invokes if any(c in list(walk_local(s)) for t in trys for s in t.body)]
    R.ob("R2", "the handler invocation is inside a try covering Exception", len(inv_in_try) >= 1 and all(any(h.type is None or ast.unparse(h.type) in ("Exception", "BaseException") for h in t.handlers) for t in trys), hm.where, f"{len(inv_in_try)} of {len(invokes)} invocations inside a try")
    R.ob("R2", "dispatcher cannot fall off the end", not out.normal, hm.where, "")
    # the envelope builders the dispatcher (and the library handlers) answer through add no failure of their own: what can
    # raise in them is the envelope class's validation, which the model above accounts for (a nullable id); anything else
    # they call — a helper that trims, translates or decorates the message — must not be able to raise, because the
    # dispatcher calls them from its `except` arm, where nothing is left to catch it
    builders = {}

    def _collect_builders(host: FuncInfo, call: ast.Call, depth: int = 0):
        g_ = P.resolve_call(host, call)
        if isinstance(g_, FuncInfo) and envelope_call(P, host, call) is not None and g_.fq not in builders and depth < 4:
            builders[g_.fq] = g_
            for c_ in walk_local(g_.node):
                if isinstance(c_, ast.Call):
                    _collect_builders(g_, c_, depth + 1)

    for c_ in walk_local(hm.node):
        if isinstance(c_, ast.Call):
            _collect_builders(hm, c_)
    R.need(builders, "anchor: the dispatcher builds no envelope through a builder function")
    for fq_, g_ in sorted(builders.items()):
        R.fn(g_.fq)
        bad_ = []
        for c_ in (x for st_ in g_.node.body for x in calls_in_order(st_)):
            tgt_ = P.resolve_call(g_, c_)
            if envelope_call(P, g_, c_) is not None or isinstance(tgt_, ClassInfo) and tgt_.module.name == A.MOD_JSONRPC:
                continue
            if isinstance(c_.func, ast.Name) and c_.func.id == "cls":
                continue  # the class the factory was called on
            if is_benign_call(c_, ()):
                continue
            if isinstance(tgt_, FuncInfo) and contained(P, tgt_):
                continue
            bad_.append(c_)
        R.ob("R2", f"{g_.qual}: building the envelope cannot fail except in the envelope's own validation", not bad_, f"{g_.module.rel}:{(bad_[0].lineno if bad_ else g_.node.lineno)}",
             (f"`{ast.unparse(bad_[0])[:60]}` may raise: the dispatcher builds its -32601/-32603 answers through this function, the latter from inside its `except` arm, so the exception leaves handle_message and the request gets no response" if bad_ else ""),
             sample=f"R2 builder {g_.qual}: only the envelope constructor can raise")

    # ------------------------------------------------------------------ R3
    R.need(out.ret, "handle_message has no return")
    kinds = set()
    for st, node in out.ret:
        where = f"{hm.module.rel}:{node.lineno}"
        v = node.value
        if isinstance(v, ast.Name):
            # a pair kept under a name (`no_reply = (None, None)` … `return no_reply`): read as the pair it holds on this path
            t_ = subst_text(v, st)
            try:
                pv_ = ast.parse(t_, mode="eval").body
                if isinstance(pv_, ast.Tuple) and len(pv_.elts) == 2:
                    v = pv_
            except SyntaxError:
                pass
            dn_ = an.defs.get(t_, ("", None))[1]
            if isinstance(v, ast.Name) and isinstance(dn_, ast.Tuple) and len(dn_.elts) == 2:
                v = dn_  # (the pair holds a call: it is kept as the term of its definition)
        resp = v.elts[0] if isinstance(v, ast.Tuple) and v.elts else v
        resp_t = subst_text(resp, st) if resp is not None else "None"
        is_list = f"isinstance({msg_p}, list)" in st.lits
        has_id = f"{ID} is not None" in st.lits
        no_id = f"{ID} is None" in st.lits
        if is_list:
            R.ob("R3", "a batch list gets no single response", resp_t == "None", where, f"returns `{resp_t}`")
            continue
        replies = [e for e in st.events if e.startswith("reply:")]
        if replies and isinstance(v, ast.Call) and call_name(v).startswith("self.") and call_name(v)[5:] in helpers:
            # both kinds of message are decided inside the reply helper (checked above); the id handed to it must be the message's
            R.ob("R3", "the reply helper is given the message's id", replies[-1].split(":")[2] == ID, where, f"{replies[-1]}", sample=f"R3 delegated: {replies[-1]}")
            kinds.update({"notification", "request"})
            code = replies[-1].split(":")[3]
            in_except = any(v in list(walk_local(h)) for t in walk_local(hm.node) if isinstance(t, ast.Try) for h in t.handlers)
            miss = any("handler" in l and l.startswith("not ") for l in st.lits) or any(l.startswith("not ") and "_handlers" in l for l in st.lits)
            no_method = any(l.startswith("not getattr(") and "'method'" in l for l in st.lits)
            if in_except:
                R.ob("R4", "handler raised → -32603", code == "-32603", where, f"code {code}")
            elif no_method:
                R.ob("R4", "no method → -32600", code == "-32600", where, f"code {code}")
            elif miss:
                R.ob("R4", "unregistered method → -32601", code == "-32601", where, f"code {code}")
            continue
        if not has_id and not no_id:
            R.ob("R3", "every return knows whether the message has an id", False, where, f"return `{ast.unparse(node)[:60]}` on a path that never tested the id (literals {sorted(l[:50] for l in st.lits)})")
            continue
        if no_id:
            kinds.add("notification")
            R.ob("R3", "notification: no response", resp_t == "None", where, f"a message without id is answered with `{an.origin(resp_t)[:80]}`",
                 sample=f"R3 id is None → returns {resp_t}; events {list(st.events)}")
            continue
        kinds.add("request")
        envs = [e for e in st.events if e.startswith("envelope:")]
        invs = [e for e in st.events if e.startswith("invoke:")]
        d = an.defs.get(resp_t, ("", None))[0]
        if not d and isinstance(resp, ast.Await):
            d = "await " + resp_t  # `return await handler(…)`: the handler's answer handed on as it is
        if envs and isinstance(resp, ast.Call):
            kind, idt = envs[-1].split(":")[1], envs[-1].split(":")[2]
            ok = len(envs) == 1 and kind in ("error", "response") and idt == ID
            R.ob("R3", "request: exactly one envelope with the request's id", ok, where, f"envelopes on path {envs}", sample=f"R3 id present → {envs[-1]}")
        elif invs and "await" in d and not envs:
            ok = len(invs) == 1 and invs[0].startswith(f"invoke:{msg_p},")
            R.ob("R3", "request: the handler's answer for this message is returned", ok, where, f"invocations {invs}; returns `{an.origin(resp_t)[:80]}`", sample=f"R3 id present → handler({invs[0][7:]}) result")
        else:
            R.ob("R3", "request: a response is returned", False, where, f"a message with an id gets `{an.origin(resp_t)[:80]}` (events {list(st.events)})")
    R.ob("R3", "both kinds of message have returning paths", kinds == {"notification", "request"}, hm.where, f"kinds with returns: {sorted(kinds)}")

    # handlers: every return of a library handler carries the message's id
    handlers = []
    srv = P.cls(A.MOD_SERVER, "MCPServer")
    # registrations, in whatever spelling: a dict display {"name": self.h}, `self.<table>["name"] = self.h`,
    # `….register_method("name", self.h)` — in the protocol handler, the server, or a mixin the server inherits
    seen_reg = set()
    for owner in (ph, srv):
        for f in P.methods(owner).values():
            for n in walk_local(f.node):
                pairs = []
                if isinstance(n, ast.Dict):
                    pairs = [(k, v) for k, v in zip(n.keys, n.values)]
                elif isinstance(n, ast.Assign) and len(n.targets) == 1 and isinstance(n.targets[0], ast.Subscript) and ast.unparse(n.targets[0].value).startswith("self."):
                    pairs = [(n.targets[0].slice, n.value)]
                elif isinstance(n, ast.Call) and call_name(n).endswith(".register_method") and len(n.args) == 2:
                    pairs = [(n.args[0], n.args[1])]
                for k, v in pairs:
                    kv = try_fold(P, f.module, k) if k is not None else None
                    if isinstance(kv, str) and isinstance(v, ast.Attribute) and ast.unparse(v.value) == "self":
                        m = P.lookup_method(owner, v.attr)
                        if m is not None and (kv, m.fq) not in seen_reg:
                            seen_reg.add((kv, m.fq))
                            handlers.append((kv, m))
    R.need(len(handlers) >= 6, f"only {len(handlers)} registered library handlers found (7 confirmed by hand)")
    R.extra["library_handlers"] = [f"{name} -> {m.fq}" for name, m in handlers]
    for name, m in handlers:
        R.fn(m.fq)
        mp = [p for p in m.positional_params() if p != "self"][0]
        hsites = []

        def hev(call, st, an2, m=m, hsites=hsites):
            env = envelope_call(P, m, call)
            if env is not None:
                idt = subst_text(env["id"], st) if env.get("id") is not None else "<none>"
                code = try_fold(P, m.module, env["code"]) if env.get("code") is not None else None
                hsites.append((call, st, env, idt, code))
                return f"envelope:{env['kind']}:{idt}:{code}"
            return None

        looked_up = {}

        def hstmt(stmt, st, an2, looked_up=looked_up):
            # a registry lookup `self._tools[name]` is reached only where the path has established `name in self._tools`
            for c in walk_local(stmt):
                if isinstance(c, ast.Subscript) and isinstance(c.value, ast.Attribute) and c.value.attr in ("_tools", "_resources") and isinstance(c.ctx, ast.Load) and isinstance(c.slice, ast.Name):
                    member = subst_text(ast.Compare(left=c.slice, ops=[ast.In()], comparators=[c.value]), st)
                    looked_up.setdefault(id(c), []).append(member in st.lits)
            return []

        ha, ho = run_paths(m.node, event_of=hev, stmt_event_of=hstmt, fallible=True)
        R.paths += len(ho.ret)
        for st, node in ho.ret:
            where = f"{m.module.rel}:{node.lineno}"
            v = node.value
            resp = v.elts[0] if isinstance(v, ast.Tuple) and v.elts else v
            envs = [e for e in st.events if e.startswith("envelope:")]
            if isinstance(resp, ast.Constant) and resp.value is None:
                # a handler that answers nothing: only right for a notification method
                idl = f"getattr({mp}, 'id', None) is None"
                R.ob("R3", f"handler for {name!r} answers requests", idl in st.lits or f"{mp}.id is None" in st.lits, where,
                     "a registered method returns no response on a path that did not establish that the message has no id: a request with this method name is left unanswered")
                continue
            ok = len(envs) == 1 and envs[0].split(":")[2] in (f"getattr({mp}, 'id', None)", f"{mp}.id")
            R.ob("R3", f"handler for {name!r}: one envelope with the message's id per return", ok, where, f"envelopes {envs}")
        R.ob("R3", f"handler for {name!r} cannot fall off the end", not ho.normal, m.where, "")
        # R4: unknown-name guard and handler failure codes
        for call, st, env, idt, code in hsites:
            unknown = [l for l in st.lits if " not in self._" in l]
            if unknown and env["kind"] == "error":
                R.ob("R4", f"{name}: unknown name → -32602", code == -32602, f"{m.module.rel}:{call.lineno}", f"code {code} under `{unknown[0][:60]}`", sample=f"R4 {name}: {unknown[0][:50]} → {code}")
            in_except = any(call in list(walk_local(h)) for t in walk_local(m.node) if isinstance(t, ast.Try) for h in t.handlers if not (h.type is not None and ast.unparse(h.type) in ("KeyError", "LookupError")))
            if in_except and env["kind"] == "error":
                R.ob("R4", f"{name}: failing tool/resource handler → -32603", code == -32603, f"{m.module.rel}:{call.lineno}", f"code {code}")
        # the unknown-name arm answers -32602 whatever the name is: nothing on it can raise before the answer is built
        # (an exception there reaches handle_message, which answers -32603 "Internal error" instead)
        for i_ in walk_local(m.node):
            if isinstance(i_, ast.If) and isinstance(i_.test, ast.Compare) and len(i_.test.ops) == 1 and isinstance(i_.test.ops[0], ast.NotIn) and ast.unparse(i_.test.comparators[0]) in ("self._tools", "self._resources"):
                def arm_pred(node_, st_, an_, m=m):
                    hv_ = tuple(h.name for h in an_.handler_stack if h.name)
                    for c_ in calls_in_order(node_):
                        if is_benign_call(c_, hv_) or envelope_call(P, m, c_) is not None:
                            continue
                        g_ = P.resolve_call(m, c_)
                        if isinstance(g_, FuncInfo) and contained(P, g_):
                            continue
                        if isinstance(c_.func, ast.Attribute) and c_.func.attr in ("get", "keys", "items", "values") and ast.unparse(c_.func.value).startswith("self._"):
                            continue
                        return {ANY_EXC}
                    return set()

                aa_, ao_ = run_paths(ast.Module(body=i_.body, type_ignores=[]), fallible_pred=arm_pred)
                esc_ = sorted({(getattr(n_, "lineno", 0), ast.unparse(n_)[:60]) for _s, t_, n_ in ao_.exc if t_ != "Cancelled"})
                R.ob("R4", f"{name}: nothing on the unknown-name arm can raise before the -32602 answer", not esc_, f"{m.module.rel}:{i_.lineno}",
                     f"`{esc_[0][1] if esc_ else ''}` (line {esc_[0][0] if esc_ else 0}) may raise for some names (a number, a boolean, a nested value are all legal JSON for `name`/`uri`): the request is then answered -32603 \"Internal error\" by the dispatcher instead of -32602",
                     sample=f"R4 {name}: unknown-name arm is the envelope construction only")
        # user callables are invoked inside a try covering Exception
        for c in walk_local(m.node):
            if isinstance(c, ast.Call) and isinstance(c.func, ast.Subscript) and isinstance(c.func.slice, ast.Constant) and c.func.slice.value == "handler":
                trs = [t for t in walk_local(m.node) if isinstance(t, ast.Try) and any(c in list(walk_local(s)) for s in t.body)]
                ok = bool(trs) and any(h.type is None or ast.unparse(h.type) in ("Exception", "BaseException") for h in trs[-1].handlers)
                R.ob("R4", f"{name}: the registered callable is invoked inside try/except Exception", ok, f"{m.module.rel}:{c.lineno}", "")
        # what the registered callable returns is the user's: it reaches the response only rendered to text
        for c in walk_local(m.node):
            if isinstance(c, ast.Call) and isinstance(c.func, ast.Subscript) and isinstance(c.func.slice, ast.Constant) and c.func.slice.value == "handler":
                holders = [s_ for s_ in walk_local(m.node) if isinstance(s_, ast.Assign) and len(s_.targets) == 1 and isinstance(s_.targets[0], ast.Name) and any(x is c for x in ast.walk(s_.value))]
                for s_ in holders:
                    bad = _unrendered_uses(P, srv, m, {s_.targets[0].id}, set())
                    for node_, why_ in bad:
                        R.ob("R5", f"{name}: the callable's return value is rendered before it is put into the response", False, f"{m.module.rel}:{getattr(node_, 'lineno', c.lineno)}",
                             f"{why_}: a callable that returns something JSON cannot carry (bytes, a set, an object) then yields a response that cannot be written — the request gets no response line, where a rendered value or the -32603 arm would have answered it")
                    R.ob("R5", f"{name}: everything the callable returns passes through str()/json.dumps() inside the handler's try", not bad, f"{m.module.rel}:{c.lineno}", f"{len(bad)} unrendered use(s)",
                         sample=f"R5 {name}: `{s_.targets[0].id}` only reaches the response rendered")
        # lookups of the registry happen only after the unknown-name guard
        for c in walk_local(m.node):
            if isinstance(c, ast.Subscript) and isinstance(c.value, ast.Attribute) and c.value.attr in ("_tools", "_resources") and isinstance(c.ctx, ast.Load) and isinstance(c.slice, ast.Name):
                guard = any(isinstance(i, ast.If) and ast.unparse(i.test) == f"{c.slice.id} not in self.{c.value.attr}" for i in walk_local(m.node))
                if looked_up.get(id(c)):
                    guard = all(looked_up[id(c)])
                # … or EAFP: the lookup sits in a try whose KeyError/LookupError arm answers -32602
                for t in walk_local(m.node):
                    if isinstance(t, ast.Try) and any(c in list(walk_local(s_)) for s_ in t.body):
                        for h in t.handlers:
                            if h.type is not None and ast.unparse(h.type) in ("KeyError", "LookupError"):
                                codes = [cd for cl, _st, en, _i, cd in hsites if en["kind"] == "error" and any(cl is x for s_ in h.body for x in walk_local(s_))]
                                if codes:
                                    guard = True
                                    R.ob("R4", f"{name}: unknown name → -32602", all(cd == -32602 for cd in codes), f"{m.module.rel}:{h.lineno}", f"codes {codes} in the KeyError arm", sample=f"R4 {name}: KeyError arm → {codes}")
                R.ob("R4", f"{name}: registry lookup guarded by a membership test", guard, f"{m.module.rel}:{c.lineno}", "")

    # R4 in the dispatcher
    for call, st, env, idt, code in sites:
        if env["kind"] != "error":
            continue
        in_except = any(call in list(walk_local(h)) for t in walk_local(hm.node) if isinstance(t, ast.Try) for h in t.handlers)
        in_except = in_except or any(l.endswith(" is not None") and an.defs.get(l[: -len(" is not None")], ("",))[0] == "caught" for l in st.lits)
        miss = any(l.startswith("not ") and "_handlers.get" in an.origin(l) for l in st.lits) or any("handler" in l and l.startswith("not ") for l in st.lits)
        # (`handler = self._handlers.get(method) or None; if handler is None:` / `if method not in self._handlers:`)
        miss = miss or any("_handlers" in an.origin(l) and (an.origin(l).rstrip(">").endswith(" is None") or " not in " in an.origin(l)) for l in st.lits)
        no_method = any(l.startswith("not getattr(") and "'method'" in l for l in st.lits)
        where = f"{hm.module.rel}:{call.lineno}"
        if in_except:
            R.ob("R4", "handler raised → -32603", code == -32603, where, f"code {code}")
        elif no_method:
            R.ob("R4", "no method → -32600", code == -32600, where, f"code {code}")
        elif miss:
            R.ob("R4", "unregistered method → -32601", code == -32601, where, f"code {code}", sample=f"R4 dispatcher: lookup miss → {code}")
        else:
            R.ob("R4", f"error envelope with code {code} has a recognised cause", False, where, f"literals {sorted(l[:50] for l in st.lits)}")
