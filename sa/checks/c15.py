"""C15 — client-observable behaviour does not depend on the transport carrying it.

Equivalence of four I/O stacks on all conversations is out of static reach.
Decided are necessary conditions of the sibling-agreement kind: no carrier
rewrites the parsed message on the way in, no carrier alters the request id it
puts into a synthesised envelope, and every codec a carrier names is UTF-8."""
from __future__ import annotations

import ast
from typing import Dict, List, Set

from .. import anchors as A
from ..model import AnalysisError, FuncInfo, Project, call_name, kwarg, walk_local
from ..paths import PState, PathAnalysis, relevance_filter, run_paths, subst_text
from ..report import Report

CARRIERS = {
    "stdio": A.MOD_STDIO,
    "http": A.MOD_HTTP,
    "sse": A.MOD_SSE,
}
CONSTRUCTORS = ("parse_message", "JSONRPCMessage.model_validate")
PROTOCOL_KEYS = {"id", "method", "params", "result", "error", "jsonrpc"}
MUTATORS = {"pop", "update", "setdefault", "clear", "popitem", "__setitem__", "__delitem__"}
CONVERTERS = {"str", "int", "repr", "float"}


def _rewritten_origin(f: FuncInfo, name: str, depth: int = 0):
    """Text of a definition of `name` in `f` that builds a modified copy of another object (`{**x, …}`, `dict(x, …)`,
    `x | {…}`), following plain copies; None if every definition is a parse result, a parameter, a fresh display…"""
    if depth > 3:
        return None
    for s_ in walk_local(f.node):
        if isinstance(s_, ast.Assign) and any(isinstance(t, ast.Name) and t.id == name for t in s_.targets):
            v = s_.value
            if isinstance(v, ast.Dict) and any(k is None for k in v.keys):
                return ast.unparse(s_)[:70]
            if isinstance(v, ast.Call) and call_name(v) == "dict" and v.args and v.keywords:
                return ast.unparse(s_)[:70]
            if isinstance(v, ast.BinOp) and isinstance(v.op, ast.BitOr):
                return ast.unparse(s_)[:70]
            if isinstance(v, ast.Name) and v.id != name:
                r = _rewritten_origin(f, v.id, depth + 1)
                if r:
                    return r
    return None


def _pure_take(a: ast.AST) -> bool:
    """`q.popleft()`, `q.get_nowait()`, `fut.result()` …: taking an object out of a container hands on the object itself."""
    return isinstance(a, ast.Call) and isinstance(a.func, ast.Attribute) and a.func.attr in ("popleft", "pop", "get_nowait", "result") and not a.args and not a.keywords


def _r8_event_framing(P: Project, R: Report) -> None:
    """Same server output, same messages: the two event-stream carriers end an event at the blank line and forget its name
    there, as the format says — otherwise a message that follows a data-less typed event (a keep-alive) is delivered on
    stdio and on the other HTTP carrier and dropped on this one."""
    from .c11 import blank_line_resets_event, field_form_event_reset

    R.rule("R8", "inbound framing on the event-stream carriers: a blank line ends the event and clears the name an `event` field set, on every path (the obligations of C11-R2 / C12-R6 read here for 'the same sequence of messages on the read stream')")
    n = 0
    for mod in (A.MOD_SSE, A.MOD_HTTP):
        try:
            n += blank_line_resets_event(P, R, mod, "R8")
        except AnalysisError as e:
            R.notes.append(f"R8: {str(e)[:120]}")
        n += field_form_event_reset(P, R, mod, "R8")
    if n == 0:
        R.notes.append("R8 not evaluated: no event-stream recogniser in a shape these rules read (C11 / C12 report the unreadable shape themselves)")
        R.rules.pop("R8", None)


def _r9_payload_members(P: Project, R: Report) -> None:
    from .c11 import payload_truthiness

    R.rule("R9", "the same reply values on every carrier: no carrier judges a parsed wire object by the truthiness of `result`, `error`, `id` or `params` (present-but-falsy values — `\"result\": {}`, id 0 — are delivered like any other; presence is tested with `in` / `is not None`)")
    n = payload_truthiness(P, R, [A.MOD_HTTP, A.MOD_SSE, A.MOD_STDIO], "R9")
    if n == 0:
        R.ob("R9", "no carrier tests a wire member's truthiness", True, "", "", sample="R9 http, sse, stdio carriers: `.get('result'/'error'/'id'/'params')` never in truth position")


def check(P: Project, R: Report) -> None:
    _r8_event_framing(P, R)
    _r9_payload_members(P, R)
    _check_main(P, R)
    _r4_order(P, R)
    _r5_no_invented_message(P, R)
    _r6_outbound_order(P, R)
    _r7_stdio_inline(P, R)


def _r7_stdio_inline(P: Project, R: Report) -> None:
    """Inbound order on the pipe carrier: the router hands each message to the read stream itself, awaited, before the
    reader takes the next line — a message parked for later delivery (a backlog, a task) is overtaken by the ones after it."""
    from ..lift import lift

    lift(P, R, "C05", {"R4"}, "R7",
         "inbound order on stdio: every message the router is given is on the read stream when the router returns — delivered by the router itself on every path, a full stream included, never left to a task or a backlog (the routing obligations of C05-R4, read here for the clause 'the relative order of notifications and responses is not altered by the carrier')",
         "stdio: ", min_n=2, suffix=" — what is delivered later is overtaken by the response that follows it on the pipe, while the HTTP carriers deliver the same server output in order")


def _r6_outbound_order(P: Project, R: Report) -> None:
    """The write stream is the other half of the common contract: what the client writes reaches the server in the order
    written.  A pipe keeps that order by itself; an HTTP carrier keeps it only if its sender loop finishes transmitting one
    message before it takes the next — a task spawned per message lets a later POST overtake an earlier one."""
    R.rule("R6", "outbound order: in every carrier the loop that takes messages off the write stream transmits each one itself, awaited, before taking the next; neither the loop body nor a method it calls spawns a task (create_task / ensure_future / start_soon) for the transmission")
    from ..roles import self_closure, stream_roles

    SPAWN = ("create_task", "ensure_future", "start_soon", "run_in_executor", "call_soon")
    n = 0
    for cname, mod in CARRIERS.items():
        for ci in [c for c in P.classes.values() if c.module.name == mod]:
            meths = P.methods(ci)
            if "get_streams" not in meths:
                continue
            try:
                out_recv = "self." + stream_roles(P, ci)["outgoing_recv"]
            except AnalysisError:
                continue
            for f in meths.values():
                for loop in [x for x in walk_local(f.node) if isinstance(x, (ast.For, ast.AsyncFor)) and out_recv in ast.unparse(x.iter)]:
                    n += 1
                    R.fn(f.fq)
                    spawned = []
                    callees = {}
                    for c in walk_local(loop):
                        if isinstance(c, ast.Call):
                            nm = call_name(c)
                            if nm.split(".")[-1] in SPAWN:
                                spawned.append((f, c))
                            if nm.startswith("self.") and nm[5:] in meths:
                                callees.update(self_closure(P, ci, meths[nm[5:]]))
                    for g in callees.values():
                        for c in walk_local(g.node):
                            if isinstance(c, ast.Call) and call_name(c).split(".")[-1] in SPAWN:
                                spawned.append((g, c))
                    R.ob("R6", f"{cname}: the sender loop of {f.qual} transmits every message itself before taking the next", not spawned, f"{f.module.rel}:{(spawned[0][1].lineno if spawned else loop.lineno)}",
                         (f"`{ast.unparse(spawned[0][1])[:60]}` in {spawned[0][0].qual} hands the transmission to a task: two messages written one after the other are in flight together and the later one can reach the server first (a request can overtake the notification written before it) — a pipe carrier never reorders" if spawned else ""),
                         sample=f"R6 {cname} {f.qual}: sequential sender loop")
    R.need(n >= 2, f"anchor: sender loops over the write stream found in {n} carriers (http, legacy sse and stdio expected)")


def _r5_no_invented_message(P: Project, R: Report) -> None:
    """The legacy SSE carrier answers a request on two channels (POST body or event stream).  It delivers what the server
    sent and nothing else only if the waiter for the event-stream answer exists before the POST goes out: an answer
    that arrives first is otherwise routed by the reader, and the sender later adds a synthesised timeout error that
    no other carrier would deliver.  The obligation is C12-R2's, read here for the sequence clause."""
    R.rule("R5", "no carrier adds a message of its own to a conversation the server answered: on the legacy SSE carrier the waiter for an event-stream answer is registered before the POST is sent (and removed on every exit), so an answer that overtakes the POST's 202 completes the request instead of being followed by a synthesised timeout error")
    from . import c12

    sub = Report(prop="C12", tier=R.tier)
    c12.check(P, sub)
    n = 0
    for o in sub.obligations:
        if o.rule == "R2":
            n += 1
            R.ob("R5", "legacy SSE: " + o.key, o.ok, o.where, o.detail + ("" if o.ok else " — the answer is then delivered by the reader and a timeout error with the same id follows it on the read stream"), sample=None)
    R.need(n >= 2, "anchor: the registration/removal obligations of the legacy SSE request path were not produced")


def _taken_from_worklist(f, v: ast.AST, item: str) -> bool:
    """`item = work.pop()` with `work` a local list that only ever holds parsed objects: it starts as a display of the
    function's parameters and all that is ever added to it are members of an item taken from it (`work.extend(reversed(item))`,
    `work.append(item[i])`) — the iterative spelling of a loop over a batch and its members."""
    if not (isinstance(v, ast.Call) and isinstance(v.func, ast.Attribute) and v.func.attr in ("pop", "popleft") and isinstance(v.func.value, ast.Name) and not v.keywords and all(isinstance(a, ast.Constant) and isinstance(a.value, int) for a in v.args)):
        return False
    w = v.func.value.id
    params = set(f.params())
    binds = [s for s in walk_local(f.node) if (isinstance(s, ast.Assign) and any(isinstance(t, ast.Name) and t.id == w for t in s.targets)) or (isinstance(s, ast.AnnAssign) and isinstance(s.target, ast.Name) and s.target.id == w)]
    init = binds[0].value if len(binds) == 1 else None
    if isinstance(init, ast.Call) and ast.unparse(init.func) in ("deque", "collections.deque", "list") and len(init.args) == 1 and not init.keywords:
        init = init.args[0]
    if not isinstance(init, ast.List) or not all(isinstance(e, ast.Name) and e.id in params for e in init.elts):
        return False

    def strip(e):
        while isinstance(e, ast.Call) and isinstance(e.func, ast.Name) and e.func.id in ("reversed", "list", "tuple") and len(e.args) == 1 and not e.keywords:
            e = e.args[0]
        return e

    for c in walk_local(f.node):
        if isinstance(c, ast.Call) and isinstance(c.func, ast.Attribute) and isinstance(c.func.value, ast.Name) and c.func.value.id == w:
            if c.func.attr in ("pop", "popleft"):
                continue
            if c.func.attr in ("extend", "append", "extendleft", "appendleft") and len(c.args) == 1 and not c.keywords:
                e = strip(c.args[0])
                if isinstance(e, ast.Subscript):
                    e = e.value
                if isinstance(e, ast.Name) and (e.id == item or e.id in params):
                    continue
            return False
    # nothing else touches the list (no element store, no handing it on)
    for n in walk_local(f.node):
        if isinstance(n, ast.Name) and n.id == w and isinstance(n.ctx, ast.Load):
            pass
        if isinstance(n, ast.Subscript) and isinstance(n.value, ast.Name) and n.value.id == w and not isinstance(n.ctx, ast.Load):
            return False
    return True


def worklist_order_problems(f) -> list:
    """[(node, why)]: a work list that takes items from one end and puts the members of an array back so that they come
    out in reverse — `pop()` with `extend(item)`, `popleft()`/`pop(0)` with `extendleft(item)` (extendleft inserts one by
    one, so the last member ends up first) — where the other pairing, or `reversed(item)`, keeps the order."""
    out = []
    takes = {}
    for c in walk_local(f.node):
        if isinstance(c, ast.Call) and isinstance(c.func, ast.Attribute) and isinstance(c.func.value, ast.Name) and c.func.attr in ("pop", "popleft") and not c.keywords:
            end = "left" if c.func.attr == "popleft" or (c.args and isinstance(c.args[0], ast.Constant) and c.args[0].value == 0) else "right"
            takes.setdefault(c.func.value.id, set()).add(end)
    for c in walk_local(f.node):
        if isinstance(c, ast.Call) and isinstance(c.func, ast.Attribute) and isinstance(c.func.value, ast.Name) and c.func.value.id in takes and c.func.attr in ("extend", "extendleft") and len(c.args) == 1:
            a = c.args[0]
            rev = isinstance(a, ast.Call) and isinstance(a.func, ast.Name) and a.func.id == "reversed"
            if isinstance(a, ast.Subscript) and isinstance(a.slice, ast.Slice) and isinstance(a.slice.step, ast.UnaryOp):
                rev = True  # item[::-1]
            ends = takes[c.func.value.id]
            if len(ends) != 1:
                continue
            end = next(iter(ends))
            # front of the line after the insertion: extendleft(x) → x reversed at the left; extend(x) → x in order at the right
            if c.func.attr == "extendleft":
                out_order_ok = (end == "left" and rev) or (end == "right" and not rev)
            else:
                out_order_ok = (end == "right" and rev) or (end == "left" and not rev)
            if not out_order_ok:
                out.append((c, f"items are taken from the {end} end and `{ast.unparse(c)[:50]}` puts the members of an array back so that the last one comes out first"))
    return out


def _check_main(P: Project, R: Report) -> None:
    R.rule("R1", "nothing rewritten on the way in: in every carrier the value handed to the message constructor is the parsed JSON object itself (a bare name bound to json.loads / response.json() / a parameter), and no statement of the carrier assigns, deletes or mutates a member of an object that reaches the constructor")
    R.rule("R2", "id integrity: no envelope a carrier synthesises takes its id from a converted copy (str(), int(), …) of the request's id")
    R.rule("R3", "explicit codecs: wherever a carrier names a text codec itself, it is UTF-8")
    table = {}
    for cname, mod in CARRIERS.items():
        m = P.module(mod)
        sites = 0
        for f in P.funcs_in(mod):
            ctor_calls = [c for c in walk_local(f.node) if isinstance(c, ast.Call) and call_name(c) in CONSTRUCTORS]
            if not ctor_calls:
                continue
            R.fn(f.fq)
            # names that reach a constructor in this function
            reach: Set[str] = set()
            for c in ctor_calls:
                sites += 1
                R.call_sites += 1
                a = c.args[0] if c.args else None
                where = f"{m.rel}:{c.lineno}"
                table.setdefault(cname, set()).add(call_name(c))
                R.ob("R1", f"{cname}:{f.qual}: `{call_name(c)}` receives the parsed object as a bare name", isinstance(a, ast.Name), where,
                     f"argument `{ast.unparse(a)[:60] if a is not None else None}` is a derived copy of the wire object (a rewrite point)", sample=f"R1 {cname}:{f.qual}: {call_name(c)}({ast.unparse(a)[:30] if a is not None else ''})")
                if isinstance(a, ast.Name):
                    reach.add(a.id)
            # provenance of each reaching name: parameter, loop item over a parameter/parsed list, or a parse call
            for nme in sorted(reach):
                defs = [s for s in walk_local(f.node) if isinstance(s, ast.Assign) and any(isinstance(t, ast.Name) and t.id == nme for t in s.targets)]
                loops = [l for l in walk_local(f.node) if isinstance(l, (ast.For, ast.AsyncFor)) and isinstance(l.target, ast.Name) and l.target.id == nme]
                ok = True
                why = "parameter" if nme in f.params() else ""
                for d in defs:
                    v = d.value
                    src = ast.unparse(v)
                    good = (isinstance(v, ast.Call) and (call_name(v).endswith("json.loads") or call_name(v).endswith(".json"))) or (isinstance(v, ast.Await) and "wait_for" in src) or isinstance(v, ast.Dict)
                    good = good or _taken_from_worklist(f, v, nme)
                    if not good:
                        ok = False
                        why = f"`{nme} = {src[:50]}`"
                    else:
                        why = why or f"`{nme} = {src[:40]}`"
                for l in loops:
                    why = why or f"item of `{ast.unparse(l.iter)[:30]}`"
                if not defs and not loops and nme not in f.params():
                    ok = False
                    why = "unknown origin"
                R.ob("R1", f"{cname}:{f.qual}: `{nme}` is the parsed object itself", ok, f"{m.rel}:{f.node.lineno}", f"origin: {why}")
            # mutations of reaching names (and of what they are copied from)
            for n in walk_local(f.node):
                tgt = None
                if isinstance(n, (ast.Assign, ast.AugAssign, ast.AnnAssign)):
                    tgts = n.targets if isinstance(n, ast.Assign) else [n.target]
                    for t in tgts:
                        if isinstance(t, ast.Subscript) and isinstance(t.value, ast.Name) and t.value.id in reach:
                            tgt = t
                elif isinstance(n, ast.Delete):
                    for t in n.targets:
                        if isinstance(t, ast.Subscript) and isinstance(t.value, ast.Name) and t.value.id in reach:
                            tgt = t
                elif isinstance(n, ast.Call) and isinstance(n.func, ast.Attribute) and n.func.attr in MUTATORS and isinstance(n.func.value, ast.Name) and n.func.value.id in reach:
                    tgt = n
                if tgt is not None:
                    R.ob("R1", f"{cname}:{f.qual}: no member of the inbound object is rewritten", False, f"{m.rel}:{n.lineno}", f"`{ast.unparse(n)[:70]}` changes the message between the JSON decoder and the message constructor")
            R.ob("R1", f"{cname}:{f.qual}: inbound object reaches the constructor untouched", True, f"{m.rel}:{f.node.lineno}", "no assignment/deletion/mutation of a reaching name")
        R.need(sites >= 1, f"anchor: carrier {cname} no longer constructs messages from parsed JSON")
        for f in P.funcs_in(mod):
            for node_, why_ in worklist_order_problems(f):
                R.ob("R1", f"{cname}:{f.qual}: the members of an array body are routed in the order the server wrote them", False, f"{m.rel}:{node_.lineno}",
                     f"{why_}: `[n1, n2, response]` reaches the read stream as response, n2, n1 — the relative order of notifications and responses differs from what the other carriers deliver for the same server output")
        # callers hand the router a parsed body, not a rewritten one
        for f in P.funcs_in(mod):
            for c in walk_local(f.node):
                if isinstance(c, ast.Call) and isinstance(c.func, ast.Attribute) and c.func.attr in ("_route_response", "_route_incoming_message", "_process_message_data", "_handle_message_event") and c.args:
                    a = c.args[0]
                    # … or the decoder call itself (`route(response.json())`, `route(json.loads(text))`): nothing in between
                    direct_parse = isinstance(a, ast.Call) and not a.keywords and ((isinstance(a.func, ast.Attribute) and a.func.attr == "json" and not a.args) or (call_name(a).split(".")[-1] == "loads" and len(a.args) == 1 and isinstance(a.args[0], (ast.Name, ast.Attribute))))
                    # … or an envelope the carrier writes out itself on the spot (no inbound object involved; its members are R2's subject)
                    synthesised = isinstance(a, ast.Dict) and all(isinstance(k, ast.Constant) for k in a.keys) and any(k.value == "jsonrpc" for k in a.keys)
                    R.ob("R1", f"{cname}:{f.qual}: hands `{c.func.attr}` a bare name", isinstance(a, ast.Name) or _pure_take(a) or direct_parse or synthesised, f"{m.rel}:{c.lineno}", f"argument `{ast.unparse(a)[:60]}`")
                    if isinstance(a, ast.Name):
                        bad = _rewritten_origin(f, a.id)
                        R.ob("R1", f"{cname}:{f.qual}: what `{c.func.attr}` receives is a parsed or synthesised object, not a rewritten copy", bad is None, f"{m.rel}:{c.lineno}",
                             f"`{a.id}` is bound by `{bad}`: a copy of the inbound object with members replaced reaches the read stream")
    R.extra["constructor_per_carrier"] = {k: sorted(v) for k, v in table.items()}

    # ------------------------------------------------------------------ R2
    n_synth = 0
    for cname, mod in CARRIERS.items():
        m = P.module(mod)
        for f in P.funcs_in(mod):
            dicts = [n for n in walk_local(f.node) if isinstance(n, ast.Dict) and any(isinstance(k, ast.Constant) and k.value == "jsonrpc" for k in n.keys)]
            if not dicts:
                continue
            R.fn(f.fq)
            seen: Dict[int, List[str]] = {}

            def sev(stmt, st: PState, an: PathAnalysis, dicts=dicts, seen=seen):
                for n in walk_local(stmt):
                    if isinstance(n, ast.Dict) and n in dicts:
                        for k, v in zip(n.keys, n.values):
                            if isinstance(k, ast.Constant) and k.value == "id":
                                seen.setdefault(id(n), []).append(an.origin(subst_text(v, st)))
                return None

            seeds = [v for d in dicts for k, v in zip(d.keys, d.values) if isinstance(k, ast.Constant) and k.value == "id"]
            run_paths(f.node, stmt_event_of=sev, fallible=True, lit_filter=relevance_filter(f.node, seeds))
            for d in dicts:
                for o in sorted(set(seen.get(id(d), []))):
                    n_synth += 1
                    try:
                        tree = ast.parse(o.replace("<", "(").replace(">", ")"), mode="eval")
                        conv = [call_name(c) for c in ast.walk(tree) if isinstance(c, ast.Call) and call_name(c) in CONVERTERS]
                    except SyntaxError:
                        conv = [c for c in CONVERTERS if f"{c}(" in o]
                    R.ob("R2", f"{cname}:{f.qual}: synthesised envelope keeps the request id's JSON type", not conv, f"{m.rel}:{d.lineno}",
                         f"id := `{o[:70]}` goes through {conv}: an integer id comes back as a string (or vice versa) and no longer equals what the caller sent",
                         sample=f"R2 {cname}:{f.qual}:{d.lineno} id := {o[:60]}")
    R.need(n_synth >= 8, f"only {n_synth} synthesised envelopes with an id found in the carriers (12 confirmed by hand)")
    # … and ids are compared as they are: a comparison that converts one side only (`str(reply_id) == message_id`) holds for
    # string ids and fails for integer ids — the carrier then treats the genuine reply as something else
    from ..model import local_values as _lv

    def _raw_id_source(e) -> bool:
        t = ast.unparse(e)
        return t.endswith(".id") or ".get('id')" in t or "['id']" in t or (isinstance(e, ast.Call) and call_name(e) == "getattr" and len(e.args) >= 2 and ast.unparse(e.args[1]) == "'id'")

    def _converted_how(f_, e, depth=0):
        """'conv' if the value is a str()/int() copy of an id on every definition, 'raw' if it is an id as received, None if unknown"""
        if depth > 4:
            return None
        if isinstance(e, ast.Call) and call_name(e) in CONVERTERS and e.args:
            return "conv"
        if _raw_id_source(e):
            return "raw"
        if isinstance(e, ast.Name):
            vals = [v for v in _lv(f_.node).get(e.id, []) if v is not None]
            if vals:
                kinds = {_converted_how(f_, v, depth + 1) for v in vals}
                return kinds.pop() if len(kinds) == 1 else ("raw" if "raw" in kinds else None)
            if e.id in f_.params():
                idx = [p_ for p_ in f_.positional_params() if p_ != "self"].index(e.id) if e.id in [p_ for p_ in f_.positional_params() if p_ != "self"] else None
                kinds = set()
                for g_ in P.funcs_in(f_.module.name):
                    for c_ in walk_local(g_.node):
                        if isinstance(c_, ast.Call) and P.resolve_call(g_, c_) is f_:
                            a_ = kwarg(c_, e.id)
                            if a_ is None and idx is not None:
                                pos_ = [p_ for p_ in f_.positional_params() if p_ != "self"]
                                if not any(isinstance(x_, ast.Starred) for x_ in c_.args[: idx + 1]):
                                    a_ = c_.args[idx] if idx < len(c_.args) else None
                                elif len(pos_) - idx <= len(c_.args) and not any(isinstance(x_, ast.Starred) for x_ in c_.args[-(len(pos_) - idx):]):
                                    a_ = c_.args[-(len(pos_) - idx)]  # `f(*head, x)`: counted from the end
                            if a_ is not None:
                                kinds.add(_converted_how(g_, a_, depth + 1))
                if kinds:
                    return "raw" if "raw" in kinds else (kinds.pop() if len(kinds) == 1 else None)
        return None

    n_cmp = 0
    for cname, mod in CARRIERS.items():
        m = P.module(mod)
        for f in P.funcs_in(mod):
            for n in walk_local(f.node):
                if not (isinstance(n, ast.Compare) and len(n.ops) == 1 and isinstance(n.ops[0], (ast.Eq, ast.NotEq))):
                    continue
                a, b = n.left, n.comparators[0]
                for conv_side, other in ((a, b), (b, a)):
                    if isinstance(conv_side, ast.Call) and call_name(conv_side) in CONVERTERS and conv_side.args and "id" in ast.unparse(conv_side).lower() and "id" in ast.unparse(other).lower() \
                            and not (isinstance(other, ast.Call) and call_name(other) in CONVERTERS) and not isinstance(other, ast.Constant):
                        n_cmp += 1
                        how = _converted_how(f, other)
                        R.ob("R2", f"{cname}:{f.qual}: `{ast.unparse(n)[:50]}` compares like with like", how != "raw", f"{m.rel}:{n.lineno}",
                             f"`{ast.unparse(conv_side)[:40]}` is a converted copy while `{ast.unparse(other)[:30]}` reaches this comparison as the id was received (e.g. from `.get('id')` at a call site): for an integer id the two are never equal, so the reply to that request is not recognised as its reply — the carrier goes on as if none had come (a synthesised error follows the result, or a waiter is never completed)",
                             sample=f"R2 {cname}:{f.qual}: {ast.unparse(n)[:50]} ({how or 'origin of the other side not visible'})")
    R.extra["one_sided_id_comparisons"] = n_cmp

    # ------------------------------------------------------------------ R3
    n_codec = 0
    for cname, mod in CARRIERS.items():
        m = P.module(mod)
        for f in P.funcs_in(mod):
            for c in walk_local(f.node):
                if not isinstance(c, ast.Call):
                    continue
                nm = call_name(c)
                codec = None
                if nm.endswith(".decode") or nm.endswith(".encode"):
                    if c.args and isinstance(c.args[0], ast.Constant) and isinstance(c.args[0].value, str):
                        codec = c.args[0].value
                    elif kwarg(c, "encoding") is not None and isinstance(kwarg(c, "encoding"), ast.Constant):
                        codec = kwarg(c, "encoding").value
                    elif nm.endswith(".encode") and not c.args:
                        codec = "utf-8 (default of str.encode)"
                    elif nm.endswith(".decode") and not c.args and not isinstance(c.func.value, ast.Name):
                        codec = "utf-8 (default of bytes.decode)"
                if nm in ("codecs.getincrementaldecoder", "codecs.getdecoder", "codecs.lookup", "codecs.getincrementalencoder") and c.args and isinstance(c.args[0], ast.Constant):
                    codec = c.args[0].value
                if codec is not None:
                    n_codec += 1
                    R.ob("R3", f"{cname}:{f.qual}: codec named in `{ast.unparse(c)[:40]}` is UTF-8", str(codec).lower().replace("_", "-").startswith(("utf-8", "utf8")), f"{m.rel}:{c.lineno}", f"codec {codec!r}", sample=f"R3 {cname}:{f.qual}: {codec}")
    R.need(n_codec >= 2, f"only {n_codec} explicit codec sites found (stdio decoder and the two frame encoders confirmed by hand)")


def _r4_order(P: Project, R: Report) -> None:
    """Ordering on the legacy SSE carrier (stdio: C05-R4, Streamable HTTP: one task parses and routes a body)."""
    from ..roles import incoming_send_calls, self_closure, sse_task_entries

    R.rule("R4", "order is the carrier's arrival order: on the legacy SSE transport every message parsed off the event stream is put on the read stream by the event-stream task itself — it is never handed to another task (a future's result, a queue or deque, a spawned task) for delivery, because two delivering tasks are ordered by the scheduler, not by arrival")
    ci = P.cls(A.MOD_SSE, "SSETransport")
    meths = P.methods(ci)
    conn, sender = sse_task_entries(P, ci)
    R.need(conn is not None, "anchor vanished: the SSE connection task entry")
    reader_side = self_closure(P, ci, conn)
    sends = incoming_send_calls(P, ci)
    routers = [f for f in meths.values() if any(isinstance(x, ast.Call) and call_name(x) in sends for x in walk_local(f.node))]
    R.need(routers, "anchor: no SSE method puts messages on the incoming stream")
    n = 0
    for f in reader_side.values():
        if f in routers:
            continue
        R.fn(f.fq)
        # names holding wire data in this function: results of json.loads and parameters carrying event data/messages
        wire = {p for p in f.positional_params() if p != "self"}
        for s_ in walk_local(f.node):
            if isinstance(s_, ast.Assign) and isinstance(s_.value, ast.Call) and call_name(s_.value) in ("json.loads", "fast_json.loads", "loads"):
                wire |= {t.id for t in s_.targets if isinstance(t, ast.Name)}
        for c in walk_local(f.node):
            if not isinstance(c, ast.Call) or not isinstance(c.func, ast.Attribute):
                continue
            m_ = c.func.attr
            args = [a for a in c.args] + [k.value for k in c.keywords]
            carries = [a for a in args if any(isinstance(x, ast.Name) and x.id in wire for x in ast.walk(a))]
            if not carries:
                continue
            handoff = None
            if m_ in ("set_result", "put", "put_nowait", "append", "appendleft", "extend"):
                handoff = m_
            if m_ in ("create_task", "ensure_future", "start_soon", "call_soon"):
                handoff = m_
            if handoff is None:
                continue
            n += 1
            R.call_sites += 1
            recv = ast.unparse(c.func.value)
            # named by what it is, not by what the local is called: an entry taken from a table kept on the transport
            if isinstance(c.func.value, ast.Name):
                from ..model import local_values as _lv

                defs_ = [v_ for v_ in _lv(f.node).get(c.func.value.id, []) if v_ is not None]
                # (`waiter = _ABSENT` / `= None` before the look-up is "no entry", not another kind of receiver)
                local_names_ = {x.id for x in walk_local(f.node) if isinstance(x, ast.Name) and isinstance(x.ctx, ast.Store)} | set(f.params())
                entries_ = [v_ for v_ in defs_ if not ((isinstance(v_, ast.Constant) and v_.value is None) or (isinstance(v_, ast.Name) and v_.id not in local_names_))]
                defs_ = entries_ or defs_
                if defs_ and all(any(isinstance(x, ast.Attribute) and isinstance(x.value, ast.Name) and x.value.id == "self" for x in ast.walk(v_)) and
                                 (isinstance(v_, ast.Subscript) or (isinstance(v_, ast.Call) and isinstance(v_.func, ast.Attribute) and v_.func.attr in ("get", "pop"))) for v_ in defs_):
                    recv = "future"
            R.ob("R4", f"the event-stream side hands a message over by `{recv}.{handoff}(<message>)` instead of delivering it", False, f"{f.module.rel}:{c.lineno}",
                 f"a message read off the event stream is handed to other code for delivery (`{ast.unparse(c)[:70]}`); whatever delivers it runs in another task, so a message that arrived later and is routed directly can reach the read stream first — the relative order of responses and notifications then depends on the carrier",
                 sample=f"R4 {f.qual}: hand-off {recv}.{handoff}")
    # direct routing by the reader side exists at all
    direct = [f for f in reader_side.values() if any(isinstance(c, ast.Call) and call_name(c).startswith("self.") and meths.get(call_name(c)[5:]) in routers for c in walk_local(f.node))]
    R.ob("R4", "the event-stream task routes messages itself", bool(direct), conn.where, f"{[f.qual for f in direct]}", sample=f"R4 reader side {sorted(reader_side)} routes directly in {[f.qual for f in direct]}")
