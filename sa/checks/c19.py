"""C19 — server session bookkeeping behaves like a map from unique ids to records.

Per-method refinement: the store is one dict attribute with no other state, so
if every method's effect on it equals the map model's effect, every history
agrees with the model (induction on its length)."""
from __future__ import annotations

import ast
import re
import itertools

from .. import anchors as A
from ..dectree import decide, Cascade
from ..model import local_values, AnalysisError, ClassInfo, FuncInfo, Project, walk_local, call_name, kwarg
from ..paths import PState, run_paths, subst_text, norm_lit, subst
from ..report import Report


def _store_attr(P: Project, ci: ClassInfo) -> str:
    init = P.lookup_method(ci, "__init__")
    if init is None:
        raise AnalysisError("anchor: session manager has no __init__")
    attrs = []
    for s in walk_local(init.node):
        tgt = None
        val = None
        if isinstance(s, ast.Assign) and len(s.targets) == 1:
            tgt, val = s.targets[0], s.value
        elif isinstance(s, ast.AnnAssign):
            tgt, val = s.target, s.value
        if isinstance(tgt, ast.Attribute) and isinstance(tgt.value, ast.Name) and tgt.value.id == "self" and isinstance(val, ast.Dict) and not val.keys:
            attrs.append(tgt.attr)
    if len(attrs) != 1:
        raise AnalysisError(f"anchor: expected exactly one dict store attribute in {ci.name}.__init__, found {attrs}")
    return attrs[0]


def extra_state(ci, init, store: str):
    """Attributes the constructor sets besides the store (caches, counters): the map rules below read every method
    against the store alone, so each rule that meets one of these in a result or a test must answer for it."""
    out = []
    for s in walk_local(init.node):
        tg = s.targets if isinstance(s, ast.Assign) else ([s.target] if isinstance(s, (ast.AnnAssign, ast.AugAssign)) else [])
        for t in tg:
            if isinstance(t, ast.Attribute) and isinstance(t.value, ast.Name) and t.value.id == "self" and t.attr != store:
                out.append(t.attr)
    return sorted(set(out))


def check(P: Project, R: Report) -> None:
    R.rule("R1", "session ids are uuid4-derived with no slicing, modulo or truncation")
    R.rule("R2", "create_session stores exactly one record under the generated id with the caller's client info and version and both timestamps from the clock, and returns that id; the initialize handler creates exactly one session per successful path with the version it answers")
    R.rule("R3", "get is a pure lookup; update_activity / delete_session write or delete only when the id is present and return True exactly then")
    R.rule("R4", "cleanup_expired deletes exactly the keys with now - last_activity > max_age (strict, last_activity) and returns their count")
    R.rule("R5", "no method hands out the store itself; list_sessions returns a copy")
    R.rule("R6", "no function outside the manager class writes the store")

    kind, obj = P.resolve_name(A.MOD_HANDLER, "SessionManager")
    R.need(kind == "class", "anchor: ProtocolHandler's SessionManager does not resolve to a class")
    ci: ClassInfo = obj
    store = _store_attr(P, ci)
    S = f"self.{store}"
    meths = P.methods(ci)
    R.extra["manager_class"] = ci.qual
    R.extra["store_attribute"] = store

    def _clock_attrs() -> set:
        """attributes that hold a clock the embedding program may supply: None on the class (or in the constructor) unless a
        constructor parameter gives one, never stored anywhere else — the wall clock is what is read when it is None"""
        init_ = P.lookup_method(ci, "__init__")
        out_ = set()
        cands = {}
        for s_ in ci.node.body:
            tg = s_.targets[0] if isinstance(s_, ast.Assign) and len(s_.targets) == 1 else (s_.target if isinstance(s_, ast.AnnAssign) else None)
            v = getattr(s_, "value", None)
            if isinstance(tg, ast.Name) and isinstance(v, ast.Constant) and v.value is None:
                cands[tg.id] = True
        iparams = set(init_.params()) if init_ is not None else set()
        stores = {}
        for m_ in meths.values():
            for x in walk_local(m_.node):
                if isinstance(x, (ast.Assign, ast.AnnAssign)) and getattr(x, "value", None) is not None:
                    for t in (x.targets if isinstance(x, ast.Assign) else [x.target]):
                        if isinstance(t, ast.Attribute) and isinstance(t.value, ast.Name) and t.value.id == "self":
                            stores.setdefault(t.attr, []).append((m_, x.value))
                elif isinstance(x, (ast.AugAssign, ast.Delete)):
                    for t in ([x.target] if isinstance(x, ast.AugAssign) else x.targets):
                        if isinstance(t, ast.Attribute) and isinstance(t.value, ast.Name) and t.value.id == "self":
                            stores.setdefault(t.attr, []).append((m_, None))
        for a_ in set(cands) | set(stores):
            ss = stores.get(a_, [])
            if not ss and a_ not in cands:
                continue
            if all(m_ is init_ and isinstance(v, ast.Name) and v.id in iparams for m_, v in ss) and (a_ in cands or ss):
                if ss:
                    out_.add(a_)
        return out_

    clock_attrs = _clock_attrs()
    if clock_attrs:
        R.extra["injectable_clock_attributes"] = sorted(clock_attrs)

    def reads_clock(term: str, an_) -> bool:
        """the value is one reading of the clock: `time.time()`, or a call without arguments of the manager's injectable clock"""
        o = an_.origin(term or "").strip("<>")
        if o == "time.time()":
            return True
        try:
            n_ = ast.parse(o, mode="eval").body
        except SyntaxError:
            return False
        if isinstance(n_, ast.Call) and not n_.args and not n_.keywords:
            f_ = an_.origin(ast.unparse(n_.func)).strip("<>")
            return any(f_ == f"self.{a_}" for a_ in clock_attrs)
        return False

    # ------------------------------------------------------------------ effects
    def stmt_event(stmt, st, an):
        evs = []
        if isinstance(stmt, (ast.Assign, ast.AugAssign, ast.AnnAssign)):
            tgts = stmt.targets if isinstance(stmt, ast.Assign) else [stmt.target]
            for t in tgts:
                tt = ast.unparse(t)
                if tt == S:
                    evs.append("rebind-store")
                elif isinstance(t, ast.Subscript) and ast.unparse(t.value) == S:
                    evs.append(f"put[{subst_text(t.slice, st)}]=" + (subst_text(stmt.value, st) if getattr(stmt, "value", None) is not None else "?"))
                elif isinstance(t, ast.Attribute) and isinstance(t.value, ast.Subscript) and ast.unparse(t.value.value) == S:
                    evs.append(f"touch[{subst_text(t.value.slice, st)}].{t.attr}=" + subst_text(stmt.value, st))
                elif isinstance(t, ast.Attribute) and isinstance(t.value, ast.Name) and _fetched_key(subst_text(t.value, st)) is not None:
                    # the record was fetched first (`rec = store.get(k, …)` / `rec = store[k]`) and is written through the local
                    evs.append(f"touch[{_fetched_key(subst_text(t.value, st))}].{t.attr}=" + subst_text(stmt.value, st))
                elif S in tt:
                    evs.append("other-write:" + tt)
        if isinstance(stmt, ast.Delete):
            for t in stmt.targets:
                if isinstance(t, ast.Subscript) and ast.unparse(t.value) == S:
                    evs.append(f"del[{subst_text(t.slice, st)}]")
                elif S in ast.unparse(t):
                    evs.append("other-write:del " + ast.unparse(t))
        return evs

    def _fetched_key(text: str):
        """key `k` if `text` is `<store>.get(k[, default])` or `<store>[k]`"""
        try:
            n = ast.parse(text, mode="eval").body
        except SyntaxError:
            return None
        if isinstance(n, ast.Call) and isinstance(n.func, ast.Attribute) and n.func.attr == "get" and ast.unparse(n.func.value) == S and n.args:
            return ast.unparse(n.args[0])
        if isinstance(n, ast.Subscript) and ast.unparse(n.value) == S:
            return ast.unparse(n.slice)
        return None

    def call_event(call, st, an):
        nm = call_name(call)
        if nm.startswith(S + "."):
            m = nm[len(S) + 1:]
            if m in ("get", "items", "keys", "values", "copy", "__len__", "__contains__"):
                return None
            if m == "clear":
                return "clear"
            if m == "pop" and call.args:
                return f"del[{subst_text(call.args[0], st)}]"
            return "other-write:" + nm
        return None

    def effects(fi: FuncInfo):
        an, out = run_paths(fi.node, event_of=call_event, stmt_event_of=stmt_event, fallible=False)
        R.paths += len(out.ret) + len(out.normal) + len(out.exc)
        R.fn(fi.fq)
        return an, out

    def need_m(name):
        R.need(name in meths, f"anchor vanished: {ci.name}.{name}")
        return meths[name]

    # ------------------------------------------------------------------ R1
    gen = P.lookup_method(ci, "generate_session_id")
    R.need(gen is not None, "anchor vanished: generate_session_id")
    R.fn(gen.fq)
    an, out = run_paths(gen.node, fallible=False)
    R.need(out.ret and not out.normal, "generate_session_id has no return or falls off the end")
    for st, node in out.ret:
        txt = an.origin(subst_text(node.value, st)) if node.value is not None else "None"
        tree = ast.parse(subst_text(node.value, st), mode="eval").body if node.value is not None else None
        # expand def-sites
        full = txt
        has_uuid = "uuid4()" in full
        bad = []
        probe = ast.parse(full.replace("<", "(").replace(">", ")"), mode="eval").body if has_uuid else tree
        rejoined = set()
        for n in ast.walk(probe) if probe is not None else []:
            # `"".join(text.split("-"))` is `text.replace("-", "")`: every other character is kept, in order
            if (isinstance(n, ast.Call) and isinstance(n.func, ast.Attribute) and n.func.attr == "join" and isinstance(n.func.value, ast.Constant) and isinstance(n.func.value.value, str)
                    and len(n.args) == 1 and not n.keywords and isinstance(n.args[0], ast.Call) and isinstance(n.args[0].func, ast.Attribute) and n.args[0].func.attr == "split"
                    and len(n.args[0].args) == 1 and not n.args[0].keywords and isinstance(n.args[0].args[0], ast.Constant) and isinstance(n.args[0].args[0].value, str)):
                rejoined |= {id(n), id(n.args[0])}
        for n in ast.walk(probe) if probe is not None else []:
            if id(n) in rejoined:
                continue
            if isinstance(n, ast.Subscript):
                bad.append("slice/index " + ast.unparse(n)[:40])
            if isinstance(n, ast.BinOp) and isinstance(n.op, (ast.Mod, ast.FloorDiv, ast.BitAnd, ast.RShift)):
                bad.append("arithmetic truncation " + ast.unparse(n)[:40])
            if isinstance(n, ast.Call):
                cn = call_name(n)
                if cn in ("str", "uuid.uuid4", "uuid4") or cn.endswith(".replace") or cn.endswith(".hex"):
                    continue
                bad.append("call " + cn)
        R.ob("R1", "id is a full uuid4", has_uuid and not bad, f"{gen.module.rel}:{node.lineno}", f"returns `{full[:100]}`; problems: {bad}",
             sample=f"R1 {gen.qual}: returns {full[:100]}")
    own = meths.get("generate_session_id")
    R.ob("R1", "generator is the one analysed", own is None or own is gen, ci.module.rel, "")

    # ------------------------------------------------------------------ R2
    cr = need_m("create_session")
    an, out = effects(cr)
    R.need(out.ret, "create_session has no return")
    cparams = [p for p in cr.positional_params() if p != "self"]
    R.need(len(cparams) >= 2, "create_session lost its client_info / protocol_version parameters")
    for st, node in out.ret:
        evs = list(st.events)
        ok = len(evs) == 1 and evs[0].startswith("put[")
        detail = f"effects {evs}"
        if ok:
            key = evs[0][4:evs[0].index("]=")]
            val = evs[0][evs[0].index("]=") + 2:]
            vdef_node = an.defs.get(val, ("", None))[1]
            if vdef_node is None:
                # the record constructed in the store statement itself (`self.sessions[k] = SessionInfo(...)`): read the
                # substituted text back — it is exactly what the path stored
                try:
                    pv_ = ast.parse(val, mode="eval").body
                    if isinstance(pv_, ast.Call):
                        vdef_node = pv_
                except SyntaxError:
                    pass
            # the key may be read back from the record just built (`self.sessions[rec.session_id] = rec`): the same value
            ret = subst_text(node.value, st) if node.value is not None else "None"
            rewritten = any(isinstance(x, ast.Attribute) and x.attr == "session_id" and not isinstance(x.ctx, ast.Load) for x in walk_local(cr.node))
            if isinstance(vdef_node, ast.Call) and not rewritten:
                kw = {k.arg: k.value for k in vdef_node.keywords if k.arg}
                k0 = kw.get("session_id") or (vdef_node.args[0] if vdef_node.args else None)
                if k0 is not None:
                    if key == f"{val}.session_id":
                        key = subst_text(k0, st)
                    if ret == f"{val}.session_id":  # … and so may the returned id (`return rec.session_id`)
                        ret = subst_text(k0, st)
            kdef = an.defs.get(key, ("", None))[0]
            ok_key = "generate_session_id()" in kdef
            ok_ret = ret == key
            ok_val = False
            fields = {}
            if isinstance(vdef_node, ast.Call) and call_name(vdef_node).endswith("SessionInfo"):
                fields = {k.arg: subst_text(k.value, st) for k in vdef_node.keywords if k.arg}
                # positional form
                order = ["session_id", "client_info", "protocol_version", "created_at", "last_activity", "metadata"]
                for i, a in enumerate(vdef_node.args):
                    if i < len(order):
                        fields[order[i]] = subst_text(a, st)
                ok_val = (
                    fields.get("session_id") == key
                    and fields.get("client_info") == cparams[0]
                    and fields.get("protocol_version") == cparams[1]
                    and reads_clock(fields.get("created_at"), an)
                    and reads_clock(fields.get("last_activity"), an)
                )
            ok = ok_key and ok_ret and ok_val
            detail = f"key from `{kdef}`, returns `{ret}`, record fields {fields}"
        R.ob("R2", "create stores one record under the fresh id and returns it", ok, f"{cr.module.rel}:{node.lineno}", detail,
             sample=f"R2 create_session: {detail[:200]}")
    R.ob("R2", "create cannot fall off the end", not out.normal, cr.where, "")
    # initialize handler: exactly one create_session per successful path
    handler_cls = P.cls(A.MOD_HANDLER, "ProtocolHandler")
    hm = P.methods(handler_cls)
    inits = [f for f in hm.values() if any(isinstance(c, ast.Call) and call_name(c).endswith(".create_session") for c in walk_local(f.node))]
    R.need(len(inits) == 1, f"anchor: expected one ProtocolHandler method creating sessions, found {len(inits)}")
    ih = inits[0]
    R.fn(ih.fq)
    def _answer(stmt, st, an):
        # the answer's version: the value under 'protocolVersion' of a dict display (or a store under that key)
        if isinstance(stmt, (ast.Assign, ast.AnnAssign, ast.Return, ast.Expr)) and stmt.value is not None:
            for d_ in ast.walk(stmt.value):
                if isinstance(d_, ast.Dict):
                    for k_, v_ in zip(d_.keys, d_.values):
                        if isinstance(k_, ast.Constant) and k_.value == "protocolVersion":
                            return "answer:" + subst_text(v_, st)
        if isinstance(stmt, ast.Assign) and any(isinstance(t, ast.Subscript) and isinstance(t.slice, ast.Constant) and t.slice.value == "protocolVersion" for t in stmt.targets):
            return "answer:" + subst_text(stmt.value, st)
        return None

    ia, io = run_paths(ih.node, event_of=lambda c, st, an: ("create:" + "\x1f".join(subst_text(a, st) for a in list(c.args) + [k.value for k in c.keywords])) if call_name(c).endswith(".create_session") else None, stmt_event_of=_answer, fallible=False)
    n_ans = 0
    for st, node in io.ret:
        created = [e[len("create:"):].split("\x1f") for e in st.events if e.startswith("create:")]
        answers = [e[len("answer:"):] for e in st.events if e.startswith("answer:")]
        if len(created) == 1 and len(created[0]) >= 2 and answers:
            n_ans += 1
            rec, ans = created[0][1], answers[-1]
            same_v = rec == ans or ia.origin(rec) == ia.origin(ans)
            R.ob("R2", "the session records the version the handler answers", same_v, f"{ih.module.rel}:{node.lineno}",
                 f"the session is created with `{ia.origin(rec)[:70]}` while the answer carries `{ia.origin(ans)[:70]}`: for a request the handler does not answer verbatim (unsupported or padded version) the record differs from what the client was told",
                 sample=f"R2 create_session(…, {rec[:40]}) and protocolVersion: {ans[:40]}")
    R.need(n_ans >= 1, "anchor: no returning path of the initialize handler both creates a session and builds the answer's protocolVersion")

    # … recording the client's info: the `clientInfo` member of the request as it came, not a rendering of it
    def _direct_client_info(t: str) -> bool:
        t = t.strip("<>")
        return bool(re.search(r"\.get\('clientInfo'(, (\{\}|None|dict\(\)|[A-Za-z_][\w.]*))?\)$", t)) or t.endswith("['clientInfo']")

    def _client_info_reason(o: str, host) -> Optional[str]:
        """None if `o` (the origin of create_session's first argument) is the request's clientInfo member; else what it is"""
        if _direct_client_info(o):
            return None
        m_ = re.match(r"<?unpack:(\w+)\((.*)\)\[(\d+)\]>?$", o.strip())
        call_txt, idx = (m_.group(1), int(m_.group(3))) if m_ else (None, None)
        if call_txt is None:
            m2 = re.match(r"<?(\w+)\((.*)\)>?$", o.strip())
            call_txt = m2.group(1) if m2 else None
        g_ = P.maybe_func(host.module.name, call_txt) if call_txt else None
        if g_ is None and call_txt:
            k_, obj_ = P.resolve_name(host.module.name, call_txt)
            g_ = obj_ if k_ == "func" else None
        if g_ is None:
            return f"`{o[:70]}`"
        R.fn(g_.fq)
        bad_ = []
        for r_ in walk_local(g_.node):
            if isinstance(r_, ast.Return) and r_.value is not None:
                v_ = r_.value.elts[idx] if idx is not None and isinstance(r_.value, ast.Tuple) and idx < len(r_.value.elts) else (r_.value if idx is None else None)
                if v_ is None or not _direct_client_info(ast.unparse(v_)):
                    bad_.append(ast.unparse(v_)[:60] if v_ is not None else ast.unparse(r_.value)[:60])
        return None if not bad_ else f"`{bad_[0]}` (returned by {g_.qual})"

    n_ci = 0
    n_direct = 0
    empties = []
    seen_ci = set()
    for st, node in io.ret:
        created = [e[len("create:"):].split("\x1f") for e in st.events if e.startswith("create:")]
        if len(created) != 1 or not created[0]:
            continue
        o = ia.origin(created[0][0])
        if o in seen_ci:
            continue
        seen_ci.add(o)
        n_ci += 1
        if o.strip("<>") in ("{}", "dict()"):
            empties.append((node, o))  # "the client sent none": judged below, once the other paths are known
            continue
        why = _client_info_reason(o, ih)
        n_direct += why is None
        R.ob("R2", "the session records the client's info as the request carried it", why is None, f"{ih.module.rel}:{node.lineno}",
             f"create_session is given {why}: not the request's `clientInfo` member itself — a rendering through a model fills in that model's defaults for members the client left out and drops explicit nulls, so the record is no longer what the client sent",
             sample=f"R2 client info := {o[:60]}")
    for node, o in empties:
        # an empty record is what the handler stores for a request without the member — as long as some other path stores the member
        R.ob("R2", "an empty client info is recorded only beside a path that records the request's own", n_direct >= 1, f"{ih.module.rel}:{node.lineno}", "create_session is given `{}` on every path: the client's info is never recorded")
    R.need(n_ci >= 1, "anchor: no returning path of the initialize handler creates a session")
    for st, node in io.ret:
        n = st.count_prefix("create:")
        R.ob("R2", "initialize creates exactly one session per successful path", n == 1, f"{ih.module.rel}:{node.lineno}", f"{n} create_session calls on this path")
        # returned session id is the created one
        if isinstance(node.value, ast.Tuple) and len(node.value.elts) == 2:
            sid = subst_text(node.value.elts[1], st)
            d = ia.defs.get(sid, ("", None))[0]
            R.ob("R2", "initialize returns the created session id", ".create_session(" in d, f"{ih.module.rel}:{node.lineno}", f"second element `{sid}` defined by `{d[:80]}`")
    R.ob("R2", "initialize handler has no silent exit", not io.normal, ih.where, "falls off the end")

    # ------------------------------------------------------------------ R7: being heard from is activity, whatever the message is
    R.rule("R7", "a message dispatched with a session id counts as activity of that session: on every path of the dispatcher that hands a message to a registered handler under a truthy session id, update_activity(session_id) has been called first — requests and notifications alike (a stale stamp lets expiry remove a session that was heard from within the limit)")
    hm7 = P.func(A.MOD_HANDLER, "ProtocolHandler.handle_message")
    R.fn(hm7.fq)
    sid_p = [p_ for p_ in hm7.positional_params() if p_ != "self"]
    R.need(len(sid_p) >= 2, "anchor: handle_message lost its session id parameter")
    sid_p = sid_p[1]

    def ev7(call, st, an):
        nm = call_name(call)
        if nm.endswith(".update_activity") and call.args and subst_text(call.args[0], st) == sid_p:
            return "stamp"
        if isinstance(call.func, ast.Name):
            t_ = st.term(call.func.id) or call.func.id
            d_ = an.defs.get(t_, ("", None))[0]
            if "_handlers" in d_ or "_handlers" in t_:
                return "invoke:" + ("stamped" if "stamp" in st.events else "stale") + ":" + ("nosid" if (f"not {sid_p}" in st.lits or f"{sid_p} is None" in st.lits) else "sid")
        return None

    a7, o7 = run_paths(hm7.node, event_of=ev7, fallible=False)
    ends7 = [st for st, _n in o7.ret] + list(o7.normal)
    inv7 = [e for st in ends7 for e in st.events if e.startswith("invoke:")]
    R.need(inv7, "anchor: no path of handle_message invokes a registered handler")
    stale7 = [st for st in ends7 if any(e == "invoke:stale:sid" for e in st.events)]
    R.ob("R7", "every handler invocation under a session id follows update_activity(session_id)", not stale7, hm7.where,
         f"a path invokes the handler under a truthy `{sid_p}` without having called update_activity (literals {sorted(l[:50] for l in stale7[0].lits)[:5] if stale7 else ''}): messages of that kind — notifications, typically — leave last_activity as it was, and cleanup_expired later removes a session that was heard from less than max_age ago",
         sample=f"R7 {len(inv7)} invoking path(s), all stamped when a session id is given")

    # ------------------------------------------------------------------ R3
    g = need_m("get_session")
    an, out = effects(g)
    gp = [p for p in g.positional_params() if p != "self"][0]
    for st, node in out.ret:
        ret = subst_text(node.value, st) if node.value is not None else "None"
        ok = not st.events and ret in (f"{S}.get({gp})", f"{S}.get({gp}, None)")
        if not ok and not st.events:
            # the same lookup spelled `try: return S[k] / except KeyError: return None` or `if k in S: return S[k]; return None`
            eafp = [t for t in walk_local(g.node) if isinstance(t, ast.Try) and not t.orelse and not t.finalbody and len(t.handlers) == 1 and t.handlers[0].type is not None
                    and ast.unparse(t.handlers[0].type) == "KeyError" and len(t.body) == 1 and any(isinstance(x, ast.Subscript) and ast.unparse(x) == f"{S}[{gp}]" for x in ast.walk(t.body[0]))
                    and not any(isinstance(x, ast.Call) for x in ast.walk(t.body[0]))]
            in_body = any(node in list(walk_local(t.body[0])) or node is t.body[0] for t in eafp)
            in_handler = any(node in h.body for t in eafp for h in t.handlers)
            if ret == f"{S}[{gp}]" or an.defs.get(ret, ("", None))[0] == f"{S}[{gp}]":
                ok = in_body or st.has(f"{gp} in {S}") or any(an.defs.get(ret, ("", None))[1] in list(walk_local(t.body[0])) + [t.body[0]] for t in eafp)
            elif ret == "None":
                ok = in_handler or st.has(f"{gp} not in {S}")
        R.ob("R3", "get_session is a pure lookup", ok, f"{g.module.rel}:{node.lineno}", f"returns `{ret}` with effects {list(st.events)}")
    R.ob("R3", "get_session always returns", not out.normal and bool(out.ret), g.where, "")

    for name, eff in (("update_activity", "touch"), ("delete_session", "del")):
        f = need_m(name)
        an, out = effects(f)
        sp = [p for p in f.positional_params() if p != "self"][0]
        present, absent = f"{sp} in {S}", f"{sp} not in {S}"
        R.need(out.ret, f"{name} has no return")

        def _presence(st):
            """True / False / None: what the path knows about `sp in store` (membership test, a get() compared with None or
            with a sentinel default, truthiness of a get())"""
            if present in st.lits:
                return True
            if absent in st.lits:
                return False
            for l in st.lits:
                m_ = re.fullmatch(re.escape(S) + r"\.get\(" + re.escape(sp) + r"(?:, (\w+))?\) is (not )?(\w+)", l)
                if m_ and (m_.group(3) == "None" and m_.group(1) in (None, "None") or (m_.group(1) is not None and m_.group(3) == m_.group(1))):
                    return bool(m_.group(2))
                if l == f"{S}.get({sp})":
                    return True
                if l == f"not {S}.get({sp})":
                    return False
            return None

        # EAFP: the subscript/del on the store sits in a try whose KeyError arm returns False
        eafp_false = set()
        for t_ in walk_local(f.node):
            if isinstance(t_, ast.Try) and any(isinstance(x, ast.Subscript) and ast.unparse(x.value) == S and ast.unparse(x.slice) == sp for b_ in t_.body for x in walk_local(b_)):
                for h_ in t_.handlers:
                    if h_.type is not None and ast.unparse(h_.type) in ("KeyError", "LookupError"):
                        for x in (y for b_ in h_.body for y in walk_local(b_)):
                            if isinstance(x, ast.Return):
                                eafp_false.add(id(x))
        for st, node in out.ret:
            ret = subst_text(node.value, st) if node.value is not None else "None"
            evs = list(st.events)
            pres = _presence(st)
            if pres is None and eafp_false:
                pres = id(node) not in eafp_false  # reached the end of the try without KeyError: the key was there
            if pres is True:
                if eff == "touch":
                    pre_ = f"touch[{sp}].last_activity="
                    ok = len(evs) == 1 and evs[0].startswith(pre_) and reads_clock(evs[0][len(pre_):], an) and ret == "True"
                else:
                    ok = evs == [f"del[{sp}]"] and ret == "True"
            elif pres is False:
                ok = not evs and ret == "False"
            else:
                ok = False
                if eff != "touch" and evs == [f"del[{sp}]"]:
                    # `dropped = store.pop(k, SENTINEL); return dropped is not SENTINEL`: pop with a default removes the entry
                    # exactly when it is there, and hands back the default exactly when it is not
                    m_ = re.fullmatch(r"(.+) is not (\w+)", ret)
                    if m_:
                        x_, sent_ = m_.group(1), m_.group(2)
                        popped = an.defs.get(x_, ("", None))[0] or x_
                        sv_ = P.module_assign(f.module, sent_) if sent_ != "None" else None
                        private = sent_ == "None" or (isinstance(sv_, ast.Call) and call_name(sv_) == "object" and not sv_.args)
                        ok = popped == f"{S}.pop({sp}, {sent_})" and private
            R.ob("R3", f"{name}: guarded by presence, boolean on the right arm", ok, f"{f.module.rel}:{node.lineno}",
                 f"path {sorted(l for l in st.lits if S in l)} effects {evs} returns {ret}", sample=f"R3 {name}: {sorted(l for l in st.lits if S in l)} → {evs} → {ret}")
        R.ob("R3", f"{name} cannot fall off the end", not out.normal, f.where, "")

    # ------------------------------------------------------------------ R4
    ce = need_m("cleanup_expired")
    R.fn(ce.fq)
    mp = [p for p in ce.positional_params() if p != "self"]
    R.need(len(mp) == 1, "cleanup_expired parameters changed")
    max_age = mp[0]

    def limit_names():
        """the caller's limit under every name it is given: the parameter, and a local whose every definition is the
        parameter itself or — on the arm where the caller gave none (`max_age is None`) — a default"""
        names = {max_age: ""}
        parents = {}
        for x in ast.walk(ce.node):
            for c_ in ast.iter_child_nodes(x):
                parents[id(c_)] = x
        defs = {}
        for x in walk_local(ce.node):
            if isinstance(x, ast.Assign) and len(x.targets) == 1 and isinstance(x.targets[0], ast.Name):
                defs.setdefault(x.targets[0].id, []).append(x)
        for nm, ds in defs.items():
            ok, why = True, []
            saw_param = False
            for d in ds:
                if isinstance(d.value, ast.Name) and d.value.id == max_age:
                    saw_param = True
                    continue
                par = parents.get(id(d))
                under_none = isinstance(par, ast.If) and ((d in par.body and ast.unparse(par.test) == f"{max_age} is None") or (d in par.orelse and ast.unparse(par.test) == f"{max_age} is not None"))
                if not under_none:
                    ok = False
                    why.append(ast.unparse(d)[:60])
            if ok and saw_param:
                names[nm] = ""
            elif saw_param or any(isinstance(x, ast.Name) and x.id == max_age for d in ds for x in ast.walk(d.value)):
                names.setdefault("!" + nm, "; ".join(why) or ast.unparse(ds[0])[:60])
        return names

    LIM = limit_names()

    def accepted_for(nw_list, v):
        acc = set()
        for lim in [n_ for n_ in LIM if not n_.startswith("!")]:
            for nw in nw_list:
                acc |= {f"{nw} - {v}.last_activity > {lim}", f"{lim} < {nw} - {v}.last_activity"}
        return acc

    def limit_note(cond: str) -> str:
        for n_, how in LIM.items():
            if n_.startswith("!") and n_[1:] in cond:
                return f" — `{n_[1:]}` is not the caller's limit on every path (`{how}`): a limit the caller did pass (0 included) is replaced by another value"
        return ""

    an, out = effects(ce)
    sel_ok = False
    sel_detail = "no selection of expired keys found"
    sel_var = None
    for s in walk_local(ce.node):
        if isinstance(s, ast.Assign) and isinstance(s.value, ast.ListComp) and len(s.targets) == 1 and isinstance(s.targets[0], ast.Name):
            lc = s.value
            if len(lc.generators) == 1 and ast.unparse(lc.generators[0].iter) == f"{S}.items()":
                gen_ = lc.generators[0]
                if isinstance(gen_.target, ast.Tuple) and len(gen_.target.elts) == 2:
                    k, v = (ast.unparse(e) for e in gen_.target.elts)
                    conds = [norm_lit(c, True) for c in gen_.ifs]
                    # `now` must be the clock read once
                    now_names = [x.targets[0].id for x in walk_local(ce.node) if isinstance(x, ast.Assign) and isinstance(x.targets[0], ast.Name) and ast.unparse(x.value) == "time.time()"]
                    accepted = accepted_for(now_names + ["time.time()"], v)
                    sel_ok = ast.unparse(lc.elt) == k and len(conds) == 1 and conds[0] in accepted and not gen_.is_async
                    sel_detail = f"selects `{ast.unparse(lc.elt)}` for ({k}, {v}) in {S}.items() if {conds}" + (limit_note(conds[0]) if conds else "")
                    sel_var = s.targets[0].id
    if sel_var is None:
        # loop form: for k, v in store.items(): if cond: acc.append(k)
        for s in walk_local(ce.node):
            if isinstance(s, ast.For) and ast.unparse(s.iter) in (f"{S}.items()", f"list({S}.items())") and isinstance(s.target, ast.Tuple) and len(s.target.elts) == 2:
                k, v = (ast.unparse(e) for e in s.target.elts)
                appends = [c for c in walk_local(s) if isinstance(c, ast.Call) and call_name(c).endswith(".append") and c.args and ast.unparse(c.args[0]) == k]
                early = [x for x in walk_local(s) if isinstance(x, (ast.Break, ast.Return))]
                if appends and early:
                    sel_var = call_name(appends[0])[: -len(".append")]
                    sel_ok = False
                    sel_detail = f"the selection loop stops early (`{type(early[0]).__name__.lower()}` at line {early[0].lineno}): sessions after that point are not examined, so some that are idle longer than max_age survive"
                    break
                # (locals computed first — `idle = now - v.last_activity` — are read where the test uses them)
                pre_ = {}
                body_ = list(s.body)
                while len(body_) > 1 and isinstance(body_[0], ast.Assign) and len(body_[0].targets) == 1 and isinstance(body_[0].targets[0], ast.Name) and not any(isinstance(x, (ast.Call, ast.Await)) for x in ast.walk(body_[0].value)):
                    pre_[body_[0].targets[0].id] = body_[0].value
                    body_ = body_[1:]
                if len(body_) == 1 and isinstance(body_[0], ast.If) and not body_[0].orelse and len(body_[0].body) == 1:
                    inner = body_[0].body[0]
                    if isinstance(inner, ast.Expr) and isinstance(inner.value, ast.Call) and call_name(inner.value).endswith(".append") and ast.unparse(inner.value.args[0]) == k:
                        import copy as _c0

                        class _S0(ast.NodeTransformer):
                            def visit_Name(self, n):
                                return _c0.deepcopy(pre_[n.id]) if isinstance(n.ctx, ast.Load) and n.id in pre_ else n

                        cond = norm_lit(_S0().visit(_c0.deepcopy(body_[0].test)), True)
                        now_names = [x.targets[0].id for x in walk_local(ce.node) if isinstance(x, ast.Assign) and isinstance(x.targets[0], ast.Name) and ast.unparse(x.value) == "time.time()"]
                        accepted = accepted_for(now_names + ["time.time()"], v)
                        sel_ok = cond in accepted
                        sel_detail = f"loop selects {k} if {cond}" + limit_note(cond)
                        sel_var = call_name(inner.value)[: -len(".append")]
    single_pass = None
    if sel_var is None:
        # single pass over a snapshot: for k, v in tuple(store.items()): if now - v.last_activity > max_age: del store[k]; n += 1
        snap_iters = {f"tuple({S}.items())", f"list({S}.items())", f"{S}.copy().items()", f"dict({S}).items()"}
        for s in walk_local(ce.node):
            if isinstance(s, ast.For) and ast.unparse(s.iter) in snap_iters and isinstance(s.target, ast.Tuple) and len(s.target.elts) == 2 and not s.orelse:
                k, v = (ast.unparse(e) for e in s.target.elts)
                if any(isinstance(x, (ast.Break, ast.Return)) for x in walk_local(s)):
                    sel_var, sel_ok, sel_detail = "<in place>", False, "the single-pass cleanup stops early: later sessions are not examined"
                    break
                local = {}
                ifs = []
                ok_shape = True
                for b in s.body:
                    if isinstance(b, ast.Assign) and len(b.targets) == 1 and isinstance(b.targets[0], ast.Name):
                        local[b.targets[0].id] = b.value
                    elif isinstance(b, ast.If) and not b.orelse:
                        ifs.append(b)
                    else:
                        ok_shape = False
                if not ok_shape or len(ifs) != 1:
                    continue
                test = ifs[0].test

                class _S(ast.NodeTransformer):
                    def visit_Name(self, n):
                        return local[n.id] if isinstance(n.ctx, ast.Load) and n.id in local else n

                import copy as _c

                cond = norm_lit(_S().visit(_c.deepcopy(test)), True)
                now_names = [x.targets[0].id for x in walk_local(ce.node) if isinstance(x, ast.Assign) and isinstance(x.targets[0], ast.Name) and ast.unparse(x.value) == "time.time()"]
                accepted = accepted_for(now_names + ["time.time()"], v)
                dels = [b for b in ifs[0].body if isinstance(b, ast.Delete) and [ast.unparse(t) for t in b.targets] == [f"{S}[{k}]"]]
                incs = [b for b in ifs[0].body if isinstance(b, ast.AugAssign) and isinstance(b.op, ast.Add) and isinstance(b.target, ast.Name) and ast.unparse(b.value) == "1"]
                others = [b for b in ifs[0].body if b not in dels and b not in incs and not (isinstance(b, ast.Expr) and isinstance(b.value, ast.Call) and call_name(b.value).startswith(("logging.", "logger.")))]
                if len(dels) == 1 and len(incs) == 1 and not others:
                    counter = incs[0].target.id
                    inits = [x for x in walk_local(ce.node) if isinstance(x, ast.Assign) and len(x.targets) == 1 and ast.unparse(x.targets[0]) == counter]
                    zero = len(inits) == 1 and isinstance(inits[0].value, ast.Constant) and inits[0].value.value == 0
                    sel_var = "<in place>"
                    sel_ok = cond in accepted and zero
                    sel_detail = f"single pass over a snapshot deletes {k} if {cond}, counting in `{counter}` (initialised to 0: {zero})"
                    single_pass = counter
    R.need(sel_var is not None, "cleanup_expired: the selection of expired keys is written in a shape this rule cannot read")
    R.ob("R4", "expired = keys with now - last_activity > max_age", sel_ok, ce.where, sel_detail, sample=f"R4 cleanup_expired: {sel_detail}")
    del_ok = single_pass is not None
    counted_as = set()
    # the selection under its other names (`stale = selected`, what a helper's result becomes when read at its call site)
    sel_names = {sel_var}
    grew_ = True
    while grew_:
        grew_ = False
        for a_ in walk_local(ce.node):
            if isinstance(a_, ast.Assign) and isinstance(a_.value, ast.Name) and a_.value.id in sel_names:
                for t_ in a_.targets:
                    if isinstance(t_, ast.Name) and t_.id not in sel_names:
                        sel_names.add(t_.id)
                        grew_ = True
    for s in walk_local(ce.node):
        if isinstance(s, ast.For) and ast.unparse(s.iter) in sel_names and isinstance(s.target, ast.Name):
            if len(s.body) == 1 and isinstance(s.body[0], ast.Delete) and [ast.unparse(t) for t in s.body[0].targets] == [f"{S}[{s.target.id}]"]:
                del_ok = True
            elif (len(s.body) == 2 and isinstance(s.body[0], ast.Delete) and [ast.unparse(t) for t in s.body[0].targets] == [f"{S}[{s.target.id}]"] and isinstance(s.body[1], ast.AugAssign)
                  and isinstance(s.body[1].op, ast.Add) and isinstance(s.body[1].target, ast.Name) and ast.unparse(s.body[1].value) == "1" and not s.orelse):
                # … counting as it goes: one per deletion, from 0, nothing else touches the counter
                counter_ = s.body[1].target.id
                stores_ = [x for x in walk_local(ce.node) if isinstance(x, ast.Name) and x.id == counter_ and isinstance(x.ctx, ast.Store)]
                inits_ = [x for x in walk_local(ce.node) if isinstance(x, ast.Assign) and len(x.targets) == 1 and ast.unparse(x.targets[0]) == counter_]
                if len(stores_) == 2 and len(inits_) == 1 and isinstance(inits_[0].value, ast.Constant) and inits_[0].value.value == 0 and type(inits_[0].value.value) is int:
                    del_ok = True
                    counted_as.add(counter_)
    R.ob("R4", "deletes exactly the selected keys", del_ok, ce.where, f"no `for k in {sel_var}: del {S}[k]` loop")
    # no other store effect on any path, and the count is returned
    for st, node in out.ret:
        evs = [e for e in st.events if not e.startswith("del[")]
        ret = ast.unparse(node.value) if node.value is not None else "None"
        R.ob("R4", "only deletions, returns the count", not evs and (ret in {f"len({x_})" for x_ in sel_names} or ret in counted_as or (single_pass is not None and ret == single_pass)), f"{ce.module.rel}:{node.lineno}", f"effects {list(st.events)} returns {ret}")
    R.ob("R4", "cleanup cannot fall off the end", not out.normal and bool(out.ret), ce.where, "")

    # ------------------------------------------------------------------ R5
    for name, f in sorted(meths.items()):
        for n in walk_local(f.node):
            if isinstance(n, ast.Return) and n.value is not None:
                leaks = ast.unparse(n.value) == S or (isinstance(n.value, ast.Tuple) and any(ast.unparse(e) == S for e in n.value.elts))
                # through a local alias
                if isinstance(n.value, ast.Name):
                    for a in walk_local(f.node):
                        if isinstance(a, ast.Assign) and any(isinstance(t, ast.Name) and t.id == n.value.id for t in a.targets) and ast.unparse(a.value) == S:
                            leaks = True
                R.ob("R5", f"{name} does not return the store itself", not leaks, f"{f.module.rel}:{n.lineno}", f"`{ast.unparse(n)}` hands out the live dict")
    ls = need_m("list_sessions")
    rets = [n for n in walk_local(ls.node) if isinstance(n, ast.Return)]
    R.need(rets, "anchor: list_sessions has no return")
    lv_ls = local_values(ls.node)
    copies = (f"{S}.copy()", f"dict({S})", "{**" + S + "}", f"dict({S}.items())", "{k: v for k, v in " + S + ".items()}")
    for r_ in rets:
        v_ = r_.value
        if isinstance(v_, ast.Name) and len(lv_ls.get(v_.id) or []) == 1 and lv_ls[v_.id][0] is not None:
            v_ = lv_ls[v_.id][0]
        txt = ast.unparse(v_) if v_ is not None else "None"
        fresh_of_store = txt in copies or (isinstance(v_, ast.DictComp) and len(v_.generators) == 1 and not v_.generators[0].ifs and ast.unparse(v_.generators[0].iter) == f"{S}.items()" and isinstance(v_.generators[0].target, ast.Tuple) and [ast.unparse(e) for e in v_.generators[0].target.elts] == [ast.unparse(v_.key), ast.unparse(v_.value)])
        fresh_other = isinstance(v_, (ast.DictComp, ast.Dict)) or (isinstance(v_, ast.Call) and (call_name(v_) in ("dict", "copy.copy", "copy.deepcopy") or call_name(v_).endswith(".copy")))
        if not fresh_of_store and fresh_other:
            raise AnalysisError(f"{ls.module.rel}:{r_.lineno}: list_sessions returns `{txt[:60]}`, a fresh mapping built from something other than the store: whether it equals the store is not decided by these rules")
        R.ob("R5", "list_sessions returns a copy", fresh_of_store, f"{ls.module.rel}:{r_.lineno}", f"returns `{txt}`: not a mapping made for this call from the store — what the caller adds to or removes from it stays visible to the manager or to later callers")
    # clear/count
    if "clear_all_sessions" in meths:
        an, out = effects(meths["clear_all_sessions"])
        for st, node in out.ret:
            R.ob("R3", "clear_all_sessions only clears", list(st.events) == ["clear"], meths["clear_all_sessions"].where, f"effects {list(st.events)}")
    # every other method is effect-free
    spec = {"create_session", "update_activity", "delete_session", "cleanup_expired", "clear_all_sessions", "__init__"}
    for name, f in sorted(meths.items()):
        if name in spec:
            continue
        an, out = effects(f)
        evs = {e for st, _n in out.ret for e in st.events} | {e for st in out.normal for e in st.events}
        R.ob("R3", f"{name} has no effect on the store", not evs, f.where, f"effects {sorted(evs)}")

    # ------------------------------------------------------------------ R6
    writers = []
    for f in P.funcs.values():
        if f.cls is ci:
            continue
        for n in walk_local(f.node):
            tgts = []
            if isinstance(n, ast.Assign):
                tgts = n.targets
            elif isinstance(n, (ast.AugAssign, ast.AnnAssign)):
                tgts = [n.target]
            elif isinstance(n, ast.Delete):
                tgts = n.targets
            for t in tgts:
                tt = ast.unparse(t)
                if f".{store}[" in tt or tt.endswith(f".{store}"):
                    if "session_manager" in tt or (f.cls is not None and f.cls.module.name.startswith("chuk_mcp.server")):
                        writers.append(f"{f.fq}: {tt}")
            if isinstance(n, ast.Call):
                cn = call_name(n)
                if f"session_manager.{store}." in cn and cn.rsplit(".", 1)[-1] in ("clear", "pop", "update", "setdefault", "popitem"):
                    writers.append(f"{f.fq}: {cn}")
    R.ob("R6", "only the manager writes the store", not writers, "", f"outside writers: {writers}")
