"""C01 — a request completes only with the response that bears its own id."""
from __future__ import annotations

import ast
import re

from .. import anchors as A
from ..model import AnalysisError, FuncInfo, Project, bind_args, call_name, kwarg, walk_local
from ..paths import PState, run_paths, subst_text
from ..report import Report
from . import _sendmsg


def id_literal(st: PState, m: str):
    """(other side) of an equality literal between the received message's id and something."""
    for l in st.lits:
        try:
            n = ast.parse(l, mode="eval").body
        except SyntaxError:
            continue
        if isinstance(n, ast.Compare) and len(n.ops) == 1 and isinstance(n.ops[0], ast.Eq):
            a, b = ast.unparse(n.left), ast.unparse(n.comparators[0])
            for x, y in ((a, b), (b, a)):
                if x in (f"getattr({m}, 'id', None)", f"{m}.id"):
                    return y
    return None


def no_method(st: PState, m: str) -> str:
    g = f"getattr({m}, 'method', None)"
    for l in (f"{g} is None", f"not {g}", f"not hasattr({m}, 'method')"):
        if l in st.lits:
            return l
    for l in st.lits:
        if l.startswith(f"isinstance({m}, ") and "Response" in l and "Request" not in l and "Notification" not in l:
            return l
    return ""


def not_list(st: PState, m: str) -> str:
    for l in (f"not isinstance({m}, list)", f"not isinstance({m}, (list, tuple))"):
        if l in st.lits:
            return l
    for l in st.lits:
        if l.startswith(f"isinstance({m}, ") and "list" not in l and not l.startswith("not "):
            return l
    return ""


def _sentinels(tree) -> set:
    """module-level names bound to a bare `object()`: private markers no received message can be identical to"""
    out = set()
    for n in tree.body:
        v = n.value if isinstance(n, (ast.Assign, ast.AnnAssign)) else None
        if isinstance(v, ast.Call) and call_name(v) == "object" and not v.args:
            tg = n.targets if isinstance(n, ast.Assign) else [n.target]
            out |= {t.id for t in tg if isinstance(t, ast.Name)}
    return out


def skip_reason(st: PState, m: str, ids, sentinels=frozenset()) -> tuple:
    """Why a path that received `m` may go round the loop again without returning it: a literal on the path that a
    matching response (id equal, no method, not a list) cannot satisfy.  Returns (reason, opaque literals)."""
    idx = (f"getattr({m}, 'id', None)", f"{m}.id")
    meth = (f"getattr({m}, 'method', None)", f"{m}.method")
    opaque = []
    for l in sorted(st.lits):
        if m not in l:
            continue
        try:
            n = ast.parse(l, mode="eval").body
        except SyntaxError:
            opaque.append(l)
            continue
        neg = isinstance(n, ast.UnaryOp) and isinstance(n.op, ast.Not)
        core = n.operand if neg else n
        txt = ast.unparse(core)
        if isinstance(core, ast.Compare) and len(core.ops) == 1:
            a, b, op = ast.unparse(core.left), ast.unparse(core.comparators[0]), core.ops[0]
            for x, y in ((a, b), (b, a)):
                if x == m and (y == "None" or y in sentinels) and isinstance(op, ast.Is):
                    return l, opaque  # nothing was received: None is not a response
                if x in idx and isinstance(op, ast.NotEq) and (not ids or y in ids):
                    return l, opaque
                if x in meth and ((isinstance(op, ast.IsNot) and y == "None") or (isinstance(op, ast.Eq) and y != "None" and (y[:1] in "'\"" or y.split(".")[-1].lstrip("_").isupper())) or (isinstance(op, ast.In) and x == a)):
                    return l, opaque
            continue
        if not neg and (txt in meth or txt == f"hasattr({m}, 'method')"):
            return l, opaque
        if isinstance(core, ast.Call) and call_name(core) == "isinstance" and len(core.args) == 2 and ast.unparse(core.args[0]) == m:
            types = ast.unparse(core.args[1])
            respish = "Response" in types or "Error" in types
            if not neg and ("list" in types or not respish):
                return l, opaque
            if neg and respish and "Request" not in types and "Notification" not in types:
                return l, opaque
            continue
        if isinstance(core, ast.Call) and call_name(core) not in ("getattr", "hasattr", "isinstance", "bool", "len") and not call_name(core).startswith(("getattr(", "(")):
            opaque.append(l)
    return "", opaque


def id_origin_ok(o: str):
    """The id a request is built with: the caller's `message_id`, and where the library chooses one itself every
    alternative is uuid4-derived — ids from a counter or a clock live in the namespace callers use for their own ids, so
    two outstanding requests can carry the same id."""
    try:
        tree = ast.parse(o.replace("<", "(").replace(">", ")"), mode="eval").body
    except SyntaxError:
        return ("message_id" in o or "uuid4()" in o), ""
    alts = []

    def split(e):
        if isinstance(e, ast.BoolOp) and isinstance(e.op, ast.Or):
            for v in e.values:
                split(v)
        elif isinstance(e, ast.IfExp):
            split(e.body)
            split(e.orelse)
        else:
            alts.append(e)

    split(tree)
    bad = [ast.unparse(a) for a in alts if not (isinstance(a, ast.Name) and a.id == "message_id") and "uuid4()" not in ast.unparse(a)]
    if bad:
        return False, f"the library's own choice `{bad[0][:60]}` is not uuid4-derived: it can coincide with an id a caller supplies for another outstanding request (or with an earlier one), and the id filter then hands one caller the other's response"
    return True, ""


def skipped_messages(W, ids, R):
    """One entry per distinct way the wait loop goes round again after a receive() that completed:
    (reason the message cannot be the awaited response or '', what is known about it, what else is known)."""
    backs = [st for lp, st in getattr(W.an, "back_states", []) if lp is W.loop]
    R.need(backs, "anchor: the wait loop has no back edge")
    seen = set()
    res = []
    for st in backs:
        ms = _sendmsg.msg_terms(st, W.msg_term_prefix)
        if not ms:
            continue  # nothing was received in this iteration (the poll interval ran out)
        m = ms[0]
        why, opaque = skip_reason(st, m, ids, _sentinels(W.wait.module.tree))
        key = (why, tuple(opaque)) if why else tuple(sorted(l for l in st.lits if m in l))
        if key in seen:
            continue
        seen.add(key)
        if not why and opaque:
            raise AnalysisError(f"{W.wait.module.rel}: a received message is skipped under a test outside the readable fragment ({opaque[0][:80]})")
        about = sorted(l.replace(m, "<msg>")[:70] for l in st.lits if m in l)
        others = sorted(l[:50] for l in st.lits if m not in l)[:6]
        res.append((why.replace(m, "<msg>"), about, others))
    return res


def check(P: Project, R: Report) -> None:
    R.rule("R1", "every path from receive() to a return of the wait loop carries, on the received object: id == <the id the request was built with>, not a list, no method; the returned value derives from that object only")
    R.rule("R2", "on every path reaching the wait, exactly one write_stream.send(request) happened before, outside any loop, with request = create_request(method=<method param>, params=<params param>, id=<the awaited id>)")
    R.rule("R3", "the wait loop has no exit other than the R1 return and raises (no break, no default return, cannot fall off)")
    R.rule("R5", "every path that completes a receive() and goes round the wait loop again carries a test the matching response cannot pass (other id, a method, a list): the first matching response is never taken off the stream and dropped")
    R.rule("R4", "every typed send_* helper awaits send_message exactly once per returning path on its own two stream parameters and its result derives from that call")
    W = _sendmsg.analyse(P)
    R.fn(W.send.fq, W.wait.fq)
    an, out = W.an, W.out
    R.paths += len(out.ret) + len(out.exc) + len(out.normal)
    wrel = W.wait.module.rel

    # ------------------------------------------------------------------ R1 / R3
    R.need(out.ret, "anchor: the wait loop has no return")
    id_params = set()
    for st, node in out.ret:
        where = f"{wrel}:{node.lineno}"
        ms = _sendmsg.msg_terms(st, W.msg_term_prefix)
        inside = any(node is x for x in walk_local(W.loop))
        if not ms or not inside:
            R.ob("R3", f"`{ast.unparse(node)[:40]}` returns a received message", False, where, "a return of the wait function is not on a path from receive() (default return)")
            continue
        m = ms[0]
        other = id_literal(st, m)
        R.ob("R1", "return guarded by id equality", other is not None, where, f"no `id == …` literal on the received object on this path (literals {sorted(l[:60] for l in st.lits)})",
             sample=f"R1 {W.wait.qual}: receive→return carries id=={other}, {no_method(st, m)}, {not_list(st, m)}")
        if other is not None:
            id_params.add(other)
        d = an.defs.get(m, ("", None))[1]
        dv = d.value if isinstance(d, ast.Await) else d
        from_stream = isinstance(d, ast.Await) and isinstance(dv, ast.Call) and isinstance(dv.func, ast.Attribute) and dv.func.attr == "receive" and ast.unparse(dv.func.value) == W.wait_read_param
        R.ob("R1", "the returned message was read from the caller's stream during this call", from_stream, where,
             f"the matched object is `{an.origin(m)[:90]}`, not `await {W.wait_read_param}.receive()`: a response kept from an earlier call (a cache, an inbox, a parked message) can complete a later request that reuses the id, or complete it instead of timing out")
        R.ob("R1", "return guarded by `not a list`", bool(not_list(st, m)), where, "a batch list could be returned as the response")
        R.ob("R1", "return guarded by `no method`", bool(no_method(st, m)), where, "a message carrying a method (server request / notification reusing the id) could be returned as the response")
        ret = subst_text(node.value, st) if node.value is not None else "None"
        names = {n.id for n in ast.walk(ast.parse(ret, mode="eval")) if isinstance(n, ast.Name)} if node.value is not None else set()
        funcs = {call_name(c).split(".")[0] for c in ast.walk(ast.parse(ret, mode="eval")) if isinstance(c, ast.Call)} if node.value is not None else set()
        R.ob("R1", "returned value derives from the matched message only", m in names and names - funcs <= {m}, where, f"returns `{ret}`")
    # ------------------------------------------------------------------ R5: nothing but a non-match is skipped
    n_skips = 0
    for why, about, others in skipped_messages(W, id_params, R):
        n_skips += 1
        R.ob("R5", "a received message goes unanswered only for a reason a matching response cannot have", bool(why), f"{wrel}:{W.recv_assign.lineno}",
             f"the loop goes round again after `{ast.unparse(W.recv_assign)[:60]}` completed, with " + (f"only {about} known about the message" if about else f"nothing tested on the message (path: {others})") + ": a response bearing the awaited id is taken off the stream and dropped",
             sample=f"R5 {W.wait.qual}: skip because `{why[:70]}`")
    R.extra["skip_paths"] = n_skips
    R.ob("R3", "wait function cannot fall off the end", not out.normal, W.wait.where, "a path leaves the loop without returning (break / loop condition)")
    breaks = [n for n in walk_local(W.loop) if isinstance(n, ast.Break)]
    inner_loops = [l for l in walk_local(W.loop) if isinstance(l, (ast.For, ast.While, ast.AsyncFor)) and l is not W.loop]
    real_breaks = [b for b in breaks if not any(b in list(walk_local(l)) for l in inner_loops)]
    R.ob("R3", "no break out of the wait loop", not real_breaks, f"{wrel}:{real_breaks[0].lineno if real_breaks else W.loop.lineno}", "")
    R.ob("R3", "loop condition is constant True", isinstance(W.loop, ast.While) and isinstance(W.loop.test, ast.Constant) and W.loop.test.value is True, f"{wrel}:{W.loop.lineno}", "the loop can end by its condition")
    probs = _sendmsg.deadline_problems(W)
    R.ob("R3", "without a matching response the call ends by the deadline: the wait runs under fail_after(timeout) and nothing moves that deadline", not probs, f"{W.send.module.rel}:{W.send.node.lineno}", "; ".join(probs))
    R.need(len(id_params) <= 1, f"returns compare the id with different terms: {sorted(id_params)}")

    # ------------------------------------------------------------------ R2
    san, sout = W.san, W.sout
    R.paths += len(sout.ret) + len(sout.exc)
    srel = W.send.module.rel
    sp = W.send.params()
    R.need("method" in sp and "params" in sp, "send_message lost its method/params parameters")
    waited = [(st, n) for st, n in sout.ret if any(e.startswith("wait:") for e in st.events)]
    waited += [(st, n) for st, _t, n in sout.exc if any(e.startswith("wait:") for e in st.events)]
    R.need(waited or W.wait is W.send, "anchor: no path of send_message reaches the wait")
    for st, node in sout.ret:
        has_wait = any(e.startswith("wait:") for e in st.events)
        R.ob("R3", "every returning path of send_message has waited for the response", has_wait, f"{srel}:{node.lineno}",
             f"`{ast.unparse(node)[:50]}` returns without having awaited the response (events {[e.split(':')[0] for e in st.events]})")
    id_param = next(iter(id_params)) if id_params else None
    for st, node in waited:
        where = f"{srel}:{getattr(node, 'lineno', 0)}"
        evs = list(st.events)
        wi = [i for i, e in enumerate(evs) if e.startswith("wait:")][0]
        writes_before = [e for e in evs[:wi] if e.startswith("write:")]
        writes_after = [e for e in evs[wi + 1:] if e.startswith("write:")]
        R.ob("R2", "exactly one request write before the wait", len(writes_before) == 1 and not writes_after, where, f"writes before {writes_before} after {writes_after}")
        if len(writes_before) != 1:
            continue
        wterm = writes_before[0][len("write:"):]
        d = san.defs.get(wterm, ("", None))
        dn = d[1]
        ok_req = isinstance(dn, ast.Call) and call_name(dn).split(".")[-1] in ("create_request", "JSONRPCRequest")
        R.ob("R2", "what is written is the request built by create_request", ok_req, where, f"written value `{san.origin(wterm)[:100]}`")
        mk = [e for e in evs[:wi] if e.startswith("mkreq:")]
        if not mk:
            R.ob("R2", "request constructor found on the path", False, where, "")
            continue
        parts = dict(p.split("=", 1) for p in mk[-1][len("mkreq:"):].split("|"))
        R.ob("R2", "request method is the method parameter", parts.get("method") == "method", where, f"method={parts.get('method')}")
        pterm = parts.get("params")
        ok_p = pterm == "params" or (pterm == "{}" and "params is None" in st.lits)
        if not ok_p and "params is None" in st.lits:
            # the caller gave none: a fresh dict that holds nothing but the progress `_meta` the helper itself adds
            dn_p = san.defs.get(pterm or "", ("", None))[1]
            ok_p = isinstance(dn_p, ast.Dict) and all(isinstance(k_, ast.Constant) and k_.value == "_meta" for k_ in dn_p.keys)
        R.ob("R2", "request params are the params parameter", ok_p, where, f"params={pterm}")
        wait_b = dict(p.split("=", 1) for p in evs[wi][len("wait:"):].split("|") if "=" in p)
        awaited = wait_b.get(id_param) if id_param else None
        same_id = awaited is not None and (awaited == parts.get("id") or awaited == f"{wterm}.id")  # (`req_id = message.id`: read back from the request that is written)
        R.ob("R2", "the awaited id is the id the request was built with", same_id, where,
             f"request id `{parts.get('id')}` vs awaited `{awaited}` (wait parameter {id_param})", sample=f"R2 send_message: write(create_request(id={parts.get('id')})) → wait({id_param}={awaited})")
        R.ob("R2", "the wait reads the caller's read stream", W.read_p in wait_b.values(), where, f"wait bound {wait_b}")
    for c in walk_local(W.send.node):
        if isinstance(c, ast.Call) and call_name(c) in (f"{W.write_p}.send", f"{W.write_p}.send_nowait"):
            R.ob("R2", "request write is not inside a loop", id(c) not in san.in_loop, f"{srel}:{c.lineno}", "")
    # the id term: caller-supplied or a fresh uuid4, never truncated
    for st, node in waited[:4]:
        mk = [e for e in st.events if e.startswith("mkreq:")]
        if mk:
            parts = dict(p.split("=", 1) for p in mk[-1][len("mkreq:"):].split("|"))
            o = san.origin(parts.get("id", ""))
            ok_id, why_id = id_origin_ok(o)
            R.ob("R2", "id is the caller's message_id or a fresh uuid4", ok_id, f"{srel}", f"id origin `{o[:80]}`" + (f": {why_id}" if why_id else ""))

    # ------------------------------------------------------------------ R4
    send = W.send
    n_helpers = 0
    for f in sorted(P.funcs.values(), key=lambda f: f.fq):
        if not f.module.name.startswith("chuk_mcp.protocol.messages.") or f is send or f.parent is not None:
            continue
        calls = [c for c in walk_local(f.node) if isinstance(c, ast.Call) and P.resolve_call(f, c) is send]
        if not calls or not f.name.startswith("send_"):
            continue
        n_helpers += 1
        R.fn(f.fq)
        R.call_sites += len(calls)
        fp = f.positional_params()

        def ev(call, st, an2, f=f):
            if P.resolve_call(f, call) is send:
                b = bind_args(send, call)
                return "req:" + subst_text(b.get("read_stream", ast.Constant(value=None)), st) + "," + subst_text(b.get("write_stream", ast.Constant(value=None)), st)
            return None

        ha, ho = run_paths(f.node, event_of=ev, fallible=False)
        for st, node in ho.ret:
            reqs = [e for e in st.events if e.startswith("req:")]
            where = f"{f.module.rel}:{node.lineno}"
            if not reqs and ("False" == (ast.unparse(node.value) if node.value is not None else "")):
                continue
            R.ob("R4", f"{f.qual}: one request per returning path on its own streams", len(reqs) == 1 and reqs[0] == f"req:{fp[0]},{fp[1]}", where, f"requests {reqs}")
            ret = ha.origin(subst_text(node.value, st)) if node.value is not None else "None"
            R.ob("R4", f"{f.qual}: result derives from the response", "send_message(" in ret, where, f"returns `{ret[:80]}`")
    R.need(n_helpers >= 12, f"only {n_helpers} typed helpers found (15 call sites confirmed by hand)")
    R.extra["typed_helpers"] = n_helpers

    # ------------------------------------------------------------------ R6: an error answer is never the result
    R.rule("R6", "the payload of the matched response: the routine the wait hands the matched message to returns a value only on a path that established that the message carries no `error` member (`… is None`, not mere falsiness — an empty error object is still an error answer); with an error member it raises")
    def _reads_error(g) -> bool:
        for x in walk_local(g.node):
            if isinstance(x, ast.Call) and call_name(x) == "getattr" and len(x.args) >= 2 and isinstance(x.args[1], ast.Constant) and x.args[1].value == "error":
                return True
            if isinstance(x, ast.Call) and isinstance(x.func, ast.Attribute) and x.func.attr == "get" and x.args and isinstance(x.args[0], ast.Constant) and x.args[0].value == "error":
                return True
            if isinstance(x, ast.Attribute) and x.attr == "error" and isinstance(x.ctx, ast.Load) and not (isinstance(x.value, ast.Name) and x.value.id in ("logging", "logger", "log", "self")):
                return True
        return False

    # the routine(s) of the request helper's module that read the error member of a message: the wait itself, what it
    # hands the matched message to, or what send_message applies to the wait's result
    procs = [g for g in P.funcs_in(W.send.module.name) if _reads_error(g)]
    n6 = 0
    for g_ in procs:
        R.fn(g_.fq)
        ga_, go_ = run_paths(g_.node, fallible=False)
        for st_, node_ in go_.ret:
            if g_ is W.wait and not any(W.msg_term_prefix in l_ for l_ in st_.lits):
                continue
            origins = [ga_.origin(l_).replace("<", "").replace(">", "") for l_ in st_.lits]
            absent = any(re.fullmatch(r"(getattr\(\w+, 'error', None\)|\w+\.error|\w+\.get\('error'(, None)?\)) is None", o_) for o_ in origins) or any(re.fullmatch(r"(not hasattr\(\w+, 'error'\)|'error' not in \w+)", o_) for o_ in origins)
            n6 += 1
            falsy = [o_ for o_ in origins if re.fullmatch(r"not (getattr\(\w+, 'error', None\)|\w+\.error|\w+\.get\('error'(, None)?\))", o_)]
            R.ob("R6", f"{g_.qual}: a value is returned only when the message has no error member", absent, f"{g_.module.rel}:{node_.lineno}",
                 (f"the returning path only established `{falsy[0]}`: an error response whose error object is empty (`\"error\": {{}}`, which the parser accepts) falls through and the call *returns* — the envelope, or None — instead of raising" if falsy else f"the returning path never tested the error member (literals {sorted(o_[:50] for o_ in origins)[:4]})"),
                 sample=f"R6 {g_.qual}: returns under `error is None`")
    R.need(n6 >= 1, "anchor: no routine that turns the matched response into the call's result was found")
