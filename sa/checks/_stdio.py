"""Role-based anchors in the stdio client (shared by C05, C06, C13, C15, C16)."""
from __future__ import annotations

import ast
from typing import Dict, List, Optional, Tuple

from .. import anchors as A
from ..flow import ANY_EXC
from ..model import AnalysisError, ClassInfo, FuncInfo, Project, call_name, kwarg, walk_local
from ..roles import incoming_send_calls, stream_roles
from ..paths import PState, PathAnalysis, calls_in_order, is_benign_call


def client(P: Project) -> ClassInfo:
    return P.cls(A.MOD_STDIO, "StdioClient")


def reader(P: Project) -> Tuple[FuncInfo, ast.AsyncFor]:
    """The method iterating over the child's stdout."""
    found = []
    for f in P.methods(client(P)).values():
        for n in walk_local(f.node):
            if isinstance(n, (ast.AsyncFor, ast.For)) and ast.unparse(n.iter).endswith(".stdout"):
                found.append((f, n))
    if len(found) != 1:
        raise AnalysisError(f"anchor: expected one loop over the child's stdout, found {len(found)}")
    return found[0]


def writer(P: Project) -> Tuple[FuncInfo, ast.AsyncFor]:
    """The method iterating over the outgoing stream and writing to stdin."""
    found = []
    for f in P.methods(client(P)).values():
        for n in walk_local(f.node):
            if isinstance(n, (ast.AsyncFor, ast.For)) and ("self." + stream_roles(P, client(P))["outgoing_recv"]) in ast.unparse(n.iter):
                found.append((f, n))
    if len(found) != 1:
        raise AnalysisError(f"anchor: expected one loop over the outgoing stream, found {len(found)}")
    return found[0]


def router(P: Project) -> FuncInfo:
    # by role first: the method the per-message function (the one that parses a line into a message) hands the message
    # to, and from which a send on the incoming stream is reached — directly or through delivery helpers of its own
    from ..roles import self_closure

    cl_ = client(P)
    ms_ = P.methods(cl_)
    direct = {f.name for f in ms_.values() if any(isinstance(x, ast.Call) and call_name(x) in incoming_send_calls(P, cl_) for x in walk_local(f.node))}
    parsers = [f for f in ms_.values() if any(isinstance(x, ast.Call) and call_name(x).split(".")[-1] == "parse_message" for x in walk_local(f.node))]
    cands = set()
    for p_ in parsers:
        for x in walk_local(p_.node):
            if isinstance(x, ast.Call) and call_name(x).startswith("self.") and call_name(x)[5:] in ms_ and x.args:
                g = ms_[call_name(x)[5:]]
                if g is not p_ and set(self_closure(P, cl_, g)) & direct:
                    cands.add(g.name)
    if len(cands) == 1:
        return ms_[next(iter(cands))]
    c = []
    for f in P.methods(client(P)).values():
        if any(isinstance(x, ast.Call) and call_name(x) in incoming_send_calls(P, client(P)) for x in walk_local(f.node)):
            c.append(f)
    if len(c) > 1:
        # helpers of the router also send; the router is the one the others are reached from (called or spawned)
        def refers(a, b):
            return any(isinstance(x, ast.Attribute) and x.attr == b.name and isinstance(x.value, ast.Name) and x.value.id == "self" for x in walk_local(a.node))
        tops = [f for f in c if not any(g is not f and refers(g, f) for g in c)]
        if len(tops) == 1:
            return tops[0]
    if len(c) != 1:
        raise AnalysisError(f"anchor: expected one method sending on the incoming stream, found {len(c)}")
    return c[0]


TOTAL_STR_METHODS = {"split", "strip", "rstrip", "lstrip", "startswith", "endswith", "lower", "upper", "partition", "rpartition"}


def loop_fallible(extra_total=()):
    """Fallibility model of the containment rules: every call/await in the loop
    body may raise, except the allow-listed total operations."""
    extra_total = set(extra_total)

    def pred(node, st: PState, an: PathAnalysis):
        hv = tuple(h.name for h in an.handler_stack if h.name)
        for c in calls_in_order(node):
            if is_benign_call(c, hv):
                continue
            nm = call_name(c)
            if isinstance(c.func, ast.Attribute) and c.func.attr in TOTAL_STR_METHODS and len(c.args) <= 1:
                continue  # str methods on values that are str by construction (text buffer and its fragments)
            if nm in extra_total:
                continue
            return {ANY_EXC}
        return set()

    return pred


def is_stdin_write(call: ast.AST, fn_node: ast.AST) -> bool:
    """`….stdin.send(…)` — also through a local that only names the pipe (`stdin = self.process.stdin; await stdin.send(…)`)"""
    if not (isinstance(call, ast.Call) and isinstance(call.func, ast.Attribute) and call.func.attr in ("send", "send_all", "write")):
        return False
    recv = call.func.value
    if ast.unparse(recv).endswith("stdin"):
        return True
    if isinstance(recv, ast.Name):
        from ..model import local_values

        vals = [v for v in local_values(fn_node).get(recv.id, []) if v is not None]
        return bool(vals) and all(ast.unparse(v).endswith("stdin") for v in vals)
    return False
