"""Shared facts about the request/response wait loop (used by C01, C14, C18)."""
from __future__ import annotations

import ast
import re
from dataclasses import dataclass, field
from typing import Dict, List, Optional, Tuple

from .. import anchors as A
from ..model import AnalysisError, FuncInfo, Project, bind_args, call_name, kwarg, walk_local
from ..paths import PathAnalysis, PState, run_paths, subst_text, calls_in_order, is_benign_call
from ..flow import ANY_EXC, Out


@dataclass
class WaitFacts:
    send: FuncInfo
    wait: FuncInfo
    loop: ast.AST
    recv_assign: ast.Assign
    an: PathAnalysis
    out: Out
    msg_term_prefix: str
    wait_call: Optional[ast.Call]
    binding: Dict[str, ast.AST]
    san: PathAnalysis
    sout: Out
    read_p: str
    write_p: str
    cancel_check: Optional[FuncInfo]
    wait_read_param: str = ""


def msg_terms(st: PState, prefix: str) -> List[str]:
    """the term(s) standing for the received message — the term itself, not texts that merely start with it
    (`msg·4.params.get('total')`, what a local read off the message is known as)"""
    import re

    vals = [v for _k, v in st.env if v.startswith(prefix)]
    pure = [v for v in vals if re.fullmatch(re.escape(prefix) + r"\d+(\u00b7[0-9a-f]+)?", v)]
    return pure or vals


def analyse(P: Project) -> WaitFacts:
    wait, loop, recv_assign, send = A.find_wait_loop(P)
    msg_var = recv_assign.targets[0].id if isinstance(recv_assign.targets[0], ast.Name) else None
    if msg_var is None:
        raise AnalysisError("the received message is not bound to a simple name")
    rp, wp = send.positional_params()[:2]

    def wait_events(call, st, an):
        nm = call_name(call)
        if nm.endswith(".receive") and isinstance(call.func, ast.Attribute):
            return "receive"
        if isinstance(call.func, ast.Name):
            t = st.term(call.func.id) or call.func.id
            if t in wait.params():
                return "callparam:" + t + "(" + ",".join(subst_text(a, st) for a in call.args) + ")"
        if nm in ("anyio.fail_after", "anyio.move_on_after", "fail_after"):
            return None
        # (other calls leave no event: no rule reads them, and every distinct event multiplies the loop's state set)
        return None

    from ..summaries import predicate_inliner

    an, out = run_paths(wait.node, event_of=wait_events, fallible=True, inliner=predicate_inliner(P, wait), gc_dead_terms=True, forget_at_loop_back=True)
    an.parents = A.exception_parents(P)

    # send_message itself
    wait_call = None
    for c in walk_local(send.node):
        if isinstance(c, ast.Call) and P.resolve_call(send, c) is wait and wait is not send:
            wait_call = c
    binding = bind_args(wait, wait_call) if wait_call is not None else {}

    cancel_check = None
    for f in P.funcs.values():
        if f.parent is send and any(isinstance(c, ast.Call) and call_name(c).endswith("send_cancelled_notification") for c in walk_local(f.node)):
            cancel_check = f

    def send_events(call, st, an2):
        nm = call_name(call)
        if nm in (f"{wp}.send", f"{wp}.send_nowait"):
            return "write:" + subst_text(call.args[0], st) if call.args else "write:?"
        if P.resolve_call(send, call) is wait and wait is not send:
            b = bind_args(wait, call)
            return "wait:" + "|".join(f"{k}={subst_text(v, st)}" for k, v in sorted(b.items()))
        if cancel_check is not None and isinstance(call.func, ast.Name):
            # the nested check by its own name, or by a local that holds it on this path (`check = the_check; await check()`)
            t = st.term(call.func.id) or call.func.id
            if call.func.id == cancel_check.name or t == cancel_check.name or an2.defs.get(t, ("", None))[0] == cancel_check.name:
                return "cancelcheck"
        if nm.split(".")[-1] in ("create_request", "JSONRPCRequest"):
            parts = {k.arg: subst_text(k.value, st) for k in call.keywords if k.arg}
            names = ["method", "params", "id"]
            for i, a in enumerate(call.args):
                if i < len(names):
                    parts[names[i]] = subst_text(a, st)
            return "mkreq:" + "|".join(f"{k}={v}" for k, v in sorted(parts.items()))
        return None

    san, sout = run_paths(send.node, event_of=send_events, fallible=True)
    san.parents = A.exception_parents(P)
    # the read stream as the wait function names it (its own parameter bound to send_message's read stream)
    wrp = rp
    if wait is not send:
        wrp = next((k for k, v in binding.items() if isinstance(v, ast.Name) and v.id == rp), rp)
    return WaitFacts(send, wait, loop, recv_assign, an, out, f"{msg_var}·", wait_call, binding, san, sout, rp, wp, cancel_check, wrp)


def deadline_problems(W: "WaitFacts") -> List[str]:
    """Structural threats to the overall deadline: the wait not lexically inside
    `with anyio.fail_after(<timeout parameter>)`, the parameter reassigned, the scope shielded, or the
    scope object captured (`as scope`) and its deadline/shield rewritten or handed to other code."""
    out: List[str] = []
    send = W.send
    if W.wait_call is None:
        return ["the wait call was not found"]
    withs = []

    def rec(n, stack):
        if n is W.wait_call:
            withs.extend(stack)
            return True
        for c in ast.iter_child_nodes(n):
            ns = stack + [n] if isinstance(n, (ast.With, ast.AsyncWith)) else stack
            if rec(c, ns):
                return True
        return False

    rec(send.node, [])
    scope = None
    for w in withs:
        for it in w.items:
            c = it.context_expr
            if isinstance(c, ast.Call) and call_name(c) in ("anyio.fail_after", "fail_after"):
                arg = ast.unparse(c.args[0]) if c.args else "<none>"
                if arg != "timeout":
                    out.append(f"deadline is `{arg}`, not the timeout parameter")
                if any(k.arg == "shield" for k in c.keywords):
                    out.append("the deadline scope is shielded")
                scope = (w, it)
    if scope is None:
        out.append("the wait is not inside `with anyio.fail_after(timeout)`")
        return out
    if any(isinstance(n, ast.Name) and n.id == "timeout" and isinstance(n.ctx, ast.Store) for n in walk_local(send.node)):
        out.append("the timeout parameter is reassigned")
    # once the deadline has passed the TimeoutError goes to the caller: a handler (or finally) around the deadline scope that
    # awaits something with no bound of its own holds it back for as long as that await takes
    def bounded(await_node, within) -> bool:
        found = []

        def rec2(n, stack):
            if n is await_node:
                found.extend(stack)
                return True
            for c in ast.iter_child_nodes(n):
                ns = stack + [n] if isinstance(n, (ast.With, ast.AsyncWith)) else stack
                if rec2(c, ns):
                    return True
            return False

        rec2(within, [])
        return any(isinstance(it.context_expr, ast.Call) and call_name(it.context_expr) in ("anyio.fail_after", "anyio.move_on_after", "fail_after", "move_on_after") and it.context_expr.args
                   and not (isinstance(it.context_expr.args[0], ast.Constant) and it.context_expr.args[0].value is None) for w_ in found for it in w_.items)

    w0 = scope[0]
    for t in walk_local(send.node):
        if isinstance(t, ast.Try) and any(w0 is x for b in t.body for x in ast.walk(b)):
            for h in t.handlers:
                nm = ast.unparse(h.type) if h.type is not None else "<bare>"
                if h.type is None or any(k in nm for k in ("TimeoutError", "BaseException", "Exception")):
                    for b in h.body:
                        for a in ast.walk(b):
                            if isinstance(a, ast.Await) and not bounded(a, ast.Module(body=h.body, type_ignores=[])):
                                out.append(f"after the deadline has passed, `{ast.unparse(a)[:60]}` in the `except {nm[:30]}` arm runs with no bound of its own before the error is re-raised: if it blocks (a full or unread write stream), the call neither returns nor raises")
            for b in t.finalbody:
                for a in ast.walk(b):
                    if isinstance(a, ast.Await) and not bounded(a, ast.Module(body=t.finalbody, type_ignores=[])):
                        out.append(f"after the deadline has passed, `{ast.unparse(a)[:60]}` in the `finally` arm runs with no bound of its own: if it blocks, the timeout never reaches the caller")
    w, it = scope
    if it.optional_vars is not None and isinstance(it.optional_vars, ast.Name):
        sv = it.optional_vars.id
        for f in [send] + [W.wait] + ([W.cancel_check] if W.cancel_check else []):
            pass
        # any use of the captured scope: attribute store, or the name escaping into a closure/call
        uses = []
        for n in ast.walk(send.node):
            if isinstance(n, ast.Attribute) and isinstance(n.value, ast.Name) and n.value.id == sv:
                if isinstance(n.ctx, ast.Store) or n.attr in ("deadline", "shield", "reschedule", "cancel"):
                    uses.append(f"line {n.lineno}: `{ast.unparse(n)}`" + (" assigned" if isinstance(n.ctx, ast.Store) else ""))
        if uses:
            out.append("the deadline scope is captured and manipulated (" + "; ".join(uses[:3]) + "): the overall deadline can be moved")
    return out


def request_id_problems(P: Project, send: FuncInfo, only=None) -> List[tuple]:
    """[(function, call, text)] for calls of the request helper inside the package that choose the request id themselves.

    The helper mints a fresh uuid4 when it is given none; an id handed in is the caller's responsibility.  A library function
    that passes anything but its own caller's id (a constant, something derived from the method or the version, a counter
    that can repeat) makes two requests on the same streams share an id — a retry after a timeout then takes the late answer
    to the first attempt for the answer to the second."""
    out = []
    idp = "message_id"
    if idp not in send.params():
        return out
    for f in P.funcs.values():
        if f is send or (only is not None and f not in only):
            continue
        for c in walk_local(f.node):
            if not isinstance(c, ast.Call) or P.resolve_call(f, c) is not send:
                continue
            v = None
            for k in c.keywords:
                if k.arg == idp:
                    v = k.value
            if v is None or (isinstance(v, ast.Constant) and v.value is None):
                continue
            if isinstance(v, ast.Name) and v.id in f.params() and not any(isinstance(x, ast.Name) and x.id == v.id and isinstance(x.ctx, ast.Store) for x in walk_local(f.node)):
                continue  # the caller's own id, handed on
            t = ast.unparse(v)
            if isinstance(v, ast.Name):
                vals = [x.value for x in walk_local(f.node) if isinstance(x, ast.Assign) and len(x.targets) == 1 and isinstance(x.targets[0], ast.Name) and x.targets[0].id == v.id]
                if len(vals) == 1:
                    t = ast.unparse(vals[0])
            if is_minted(t):
                continue
            out.append((f, c, t))
    return out


def is_minted(text: str) -> bool:
    """the expression is made of a uuid4 and text operations on it alone (`str(uuid.uuid4())`, `uuid.uuid4().hex`,
    `f"{uuid.uuid4()}"`, `"req-" + uuid4().hex`): fresh for every evaluation, and never empty"""
    t = text.strip().strip("<>")
    try:
        n = ast.parse(t, mode="eval").body
    except SyntaxError:
        return False
    if "uuid4()" not in t:
        return False
    return all(x.id in ("uuid", "uuid4", "str", "format") for x in ast.walk(n) if isinstance(x, ast.Name))
