"""C20 — every host entry point launches exactly the server the configuration names."""
from __future__ import annotations

import ast
import re

from .. import anchors as A
from ..model import AnalysisError, FuncInfo, Project, call_name, kwarg, local_values, walk_local
from ..paths import PState, PathAnalysis, run_paths, subst_text
from ..report import Report
from ..typed import typed_facts

STDIO_PARAMS = "chuk_mcp.transports.stdio.parameters.StdioParameters"
ENTRY_MODULES = {
    "chuk_mcp.__main__": "command-line connectivity test",
    "chuk_mcp.mcp_client.host.server_manager": "multi-server runner",
}
CONNECTORS = ("stdio_client", "StdioClient", "StdioTransport", "stdio_client_with_initialize")


def check(P: Project, R: Report) -> None:
    R.rule("R1", "seam types (mypy): at every stdio connector call in a host entry point the argument's type is StdioParameters, and it is element 0 of load_config's result", min_obs=2)
    R.rule("R2", "loader fidelity: command/args/env of the constructed parameters are read from the same-named keys of the selected server entry of the parsed file, and that object is what is returned")
    R.rule("R3", "spawn fidelity: open_process receives the list display [<params>.command, *<params>.args] (never a joined string or shell) and an environment derived from <params>.env")
    R.rule("R4", "error classes: a missing file, invalid JSON and an unknown server name surface as FileNotFoundError, json.JSONDecodeError and ValueError")
    R.rule("R5", "handshake: on the success path of each entry point load_config → connect → send_initialize on the connection's two streams, in that order")
    facts = typed_facts(P)
    R.extra["mypy"] = facts.get("mypy")
    R.extra["mypy_cached"] = facts.get("cached")
    R.extra["mypy_total_errors"] = facts.get("n_errors")

    # ------------------------------------------------------------------ R7: configured numbers reach the library as numbers
    R.rule("R7", "a timeout (or any deadline) an entry point takes from the configuration file reaches the connection and the handshake as a number: the file may spell it as an int, a float or a string-number, so a value read from the parsed entry is converted with float() before it is handed on")
    n_t = 0
    for f in sorted(P.funcs.values(), key=lambda f: f.fq):
        if f.module.name not in tuple(ENTRY_MODULES) + ("chuk_mcp.config",):
            continue
        lvf = local_values(f.node)

        def raw_config_number(e, depth=0):
            """text of the configuration read if `e` can be a raw entry value (no float() on the way), else ''"""
            if depth > 4 or e is None:
                return ""
            if isinstance(e, ast.Call) and call_name(e) in ("float", "int"):
                return ""
            if isinstance(e, ast.Call) and isinstance(e.func, ast.Attribute) and e.func.attr == "get" and e.args and isinstance(e.args[0], ast.Constant) and "timeout" in str(e.args[0].value).lower():
                return ast.unparse(e)
            if isinstance(e, ast.Subscript) and isinstance(e.slice, ast.Constant) and "timeout" in str(e.slice.value).lower():
                return ast.unparse(e)
            if isinstance(e, ast.Name):
                for v in lvf.get(e.id, []):
                    r_ = raw_config_number(v, depth + 1)
                    if r_:
                        return r_
            if isinstance(e, (ast.IfExp, ast.BoolOp)):
                for v in ([e.body, e.orelse] if isinstance(e, ast.IfExp) else e.values):
                    r_ = raw_config_number(v, depth + 1)
                    if r_:
                        return r_
            return ""

        for c in walk_local(f.node):
            if not isinstance(c, ast.Call) or call_name(c) in ("float", "int", "print", "str") or call_name(c).startswith(("logging.", "logger.")):
                continue
            for k in c.keywords:
                if k.arg and "timeout" in k.arg.lower():
                    n_t += 1
                    raw = raw_config_number(k.value)
                    R.ob("R7", f"{f.qual}: `{call_name(c)}({k.arg}=…)` gets a number", not raw, f"{f.module.rel}:{c.lineno}",
                         f"`{k.arg}={ast.unparse(k.value)[:40]}` is `{raw[:60]}` as read from the file: a timeout written as a string-number (\"30\") reaches anyio's deadline arithmetic as a str, the handshake raises TypeError and that server is never initialised")
    R.extra["timeout_arguments_at_entry_points"] = n_t

    # ------------------------------------------------------------------ R8: per-server values are per-server
    R.rule("R8", "in a loop over the configured servers, whatever an iteration hands to the connector or the handshake is established in that iteration: a variable the loop body assigns on some paths only, and reads in such a call, still holds the previous server's value on the other paths")
    n_l = 0
    for f in sorted(P.funcs.values(), key=lambda f: f.fq):
        if f.module.name not in ENTRY_MODULES:
            continue
        for loop in [x for x in walk_local(f.node) if isinstance(x, (ast.For, ast.AsyncFor))]:
            calls_ = [c for c in walk_local(loop) if isinstance(c, ast.Call) and call_name(c).split(".")[-1] in ("send_initialize", "stdio_client", "stdio_client_with_initialize", "StdioClient", "open_process")]
            if not calls_:
                continue
            n_l += 1
            stored = {n_.id for b in loop.body for n_ in ast.walk(b) if isinstance(n_, ast.Name) and isinstance(n_.ctx, ast.Store)} | ({loop.target.id} if isinstance(loop.target, ast.Name) else set())
            carried = {}

            def lev(call, st, an, calls_=calls_, stored=stored, carried=carried):
                if call not in calls_:
                    return None
                for a_ in list(call.args) + [k.value for k in call.keywords]:
                    for n_ in ast.walk(a_):
                        if isinstance(n_, ast.Name) and n_.id in stored and n_.id != getattr(loop.target, "id", None) and st.term(n_.id) is None:
                            carried.setdefault(n_.id, (call, sorted(l[:50] for l in st.lits)[:4]))
                return None

            body_mod = ast.Module(body=loop.body, type_ignores=[])
            run_paths(body_mod, event_of=lev, fallible=False)
            for v_, (call_, lits_) in sorted(carried.items()):
                R.ob("R8", f"{f.qual}: `{v_}` is established in the iteration that uses it", False, f"{f.module.rel}:{call_.lineno}",
                     f"`{ast.unparse(call_)[:60]}` reads `{v_}`, which this iteration assigns only on some paths (not under {lits_}): for a server that takes the other path the value left by an earlier server is used — e.g. a later server without a timeout is handshaken under an earlier server's shorter one and abandoned")
            # … and a value another per-server loop left behind is the last server's, whichever server this iteration is about
            other_loops = [l_ for l_ in walk_local(f.node) if isinstance(l_, (ast.For, ast.AsyncFor)) and l_ is not loop and not any(loop is x for x in walk_local(l_)) and not any(l_ is x for x in walk_local(loop))]
            left_behind = {}
            for l_ in other_loops:
                for b in l_.body:
                    for n_ in ast.walk(b):
                        if isinstance(n_, ast.Name) and isinstance(n_.ctx, ast.Store):
                            left_behind.setdefault(n_.id, l_)
            outside = {n_.id for n_ in walk_local(f.node) if isinstance(n_, ast.Name) and isinstance(n_.ctx, ast.Store) and not any(any(n_ is x for x in ast.walk(b)) for l_ in other_loops + [loop] for b in l_.body)}
            for call_ in calls_:
                for a_ in list(call_.args) + [k.value for k in call_.keywords]:
                    for n_ in ast.walk(a_):
                        if isinstance(n_, ast.Name) and n_.id in left_behind and n_.id not in stored and n_.id not in outside and n_.id not in f.params():
                            carried.setdefault(n_.id, (call_, ["<never assigned in this loop>"]))
                            R.ob("R8", f"{f.qual}: `{n_.id}` is established in the iteration that uses it", False, f"{f.module.rel}:{call_.lineno}",
                                 f"`{ast.unparse(call_)[:60]}` reads `{n_.id}`, which only the loop at line {left_behind[n_.id].lineno} assigns: here it still holds what that loop's last iteration left — every server this loop handles is launched with the last server's parameters")
            if not carried:
                R.ob("R8", f"{f.qual}: the per-server loop at line {loop.lineno} hands on only values of its own iteration", True, f"{f.module.rel}:{loop.lineno}", "", sample=f"R8 {f.qual}: loop over {ast.unparse(loop.iter)[:30]} — nothing carried over")
    R.need(n_l >= 1, "anchor: no loop over the configured servers that connects or initialises")

    # ------------------------------------------------------------------ R1
    seen_entry = set()
    for c in facts["calls"]:
        if c["kind"] != "call" or c["name"] not in CONNECTORS or c["module"] not in ENTRY_MODULES:
            continue
        seen_entry.add(c["module"])
        R.call_sites += 1
        t = (c["arg_types"] or [None])[0]
        inl_ = getattr(P, "inliner", None)
        read_at_site = {x.split(" into ")[0].split(":")[-1].split(".")[-1] for x in (inl_.inlined if inl_ is not None else [])}
        if t in ("Any", None) and c["function"] in read_at_site:
            continue  # an untyped local helper read at its call sites: the dataflow obligation below sees the argument there
        R.ob("R1", f"{c['module']}:{c['function']} {c['name']}(…) argument type", t == STDIO_PARAMS, f"{c['file']}:{c['line']}",
             f"argument type is `{t}` (must be StdioParameters: load_config returns a (params, timeout) tuple)", sample=f"R1 {c['module']}:{c['function']}: {c['name']}(<{t}>)")
    R.need(seen_entry == set(ENTRY_MODULES), f"anchor: connector calls found only in {sorted(seen_entry)}")
    lc = [c for c in facts["calls"] if c["kind"] == "call" and c["name"] == "load_config" and c["module"] in ENTRY_MODULES]
    for c in lc:
        R.ob("R1", f"{c['module']}:{c['function']} load_config result type", (c["result_type"] or "").endswith(f"tuple[{STDIO_PARAMS}, float | None]]"), f"{c['file']}:{c['line']}", f"result type `{c['result_type']}`")
    seam_errors = [e for e in facts["errors"] if any(m.replace(".", "/") in e for m in ENTRY_MODULES) and ("stdio_client" in e or "StdioParameters" in e)]
    R.ob("R1", "mypy reports no argument-type error at the entry points' seams", not seam_errors, "", "; ".join(seam_errors)[:300])

    # dataflow: the connector's argument is element 0 of load_config's result
    entries = []
    for f in P.funcs.values():
        if f.module.name in ENTRY_MODULES and any(isinstance(c, ast.Call) and call_name(c) == "load_config" for c in walk_local(f.node)):
            entries.append(f)
    R.need(len(entries) >= 2, f"anchor: expected two host entry points calling load_config, found {[f.fq for f in entries]}")

    def ev(call, st: PState, an: PathAnalysis):
        nm = call_name(call)
        if nm == "load_config":
            return "load"
        if nm in CONNECTORS:
            a = call.args[0] if call.args else None
            t = subst_text(a, st) if a is not None else "?"
            return "connect:arg=" + an.defs.get(t, ("?", None))[0].replace("\u00b7", "~")  # (the definition text, not the term: events naming a dead term are dropped when states are reduced)
        if nm == "send_initialize":
            return "init:" + ",".join(an.origin(subst_text(a, st)) for a in call.args[:2])
        return None

    for f in entries:
        R.fn(f.fq)
        try:
            an, out = run_paths(f.node, event_of=ev, fallible=True)
        except AnalysisError:
            # too many distinct path conditions (several per-server loops with helpers read in): facts about terms no longer
            # in use are dropped and each loop iteration starts from what the loop head knows
            an, out = run_paths(f.node, event_of=ev, fallible=True, gc_dead_terms=True, forget_at_loop_back=True)
        R.paths += len(out.ret) + len(out.normal) + len(out.exc)
        ends = [st for st, _n in out.ret] + list(out.normal)
        okpaths = [st for st in ends if any(e.startswith("init:") for e in st.events)]
        R.need(okpaths, f"anchor: {f.fq} has no path reaching send_initialize")
        for st in okpaths:
            evs = [e for e in st.events if e == "load" or e.startswith(("connect:", "init:"))]
            kinds = [e.split(":")[0] for e in evs]
            first = [kinds.index(k) if k in kinds else -1 for k in ("load", "connect", "init")]
            R.ob("R5", f"{f.qual}: load → connect → initialize", -1 not in first and first == sorted(first), f.where, f"event order {kinds}", sample=f"R5 {f.qual}: {kinds[:6]}")
            conn = [e for e in evs if e.startswith("connect:")]
            if conn:
                d = conn[0].split("=", 1)[1]
                R.ob("R1", f"{f.qual}: connector argument is element 0 of load_config's result", d.startswith("unpack:") and "load_config(" in d and d.rstrip().endswith("[0]"), f.where, f"argument defined by `{d[:90]}`")
            init = [e for e in evs if e.startswith("init:")]
            if init:
                a = init[0][5:]
                R.ob("R5", f"{f.qual}: initialize uses the connection's streams", ("stdio_client(" in a or "__aenter__" in a) and "[0]" in a and "[1]" in a, f.where, f"send_initialize({a[:140]})")

    # ------------------------------------------------------------------ R2
    ld = P.func(A.MOD_CONFIG, "load_config")
    R.fn(ld.fq)
    pth, name = ld.positional_params()[:2]

    def lev(call, st, an):
        if call_name(call).split(".")[-1] == "StdioParameters":
            return "params:" + "|".join(f"{k.arg}={an.origin(subst_text(k.value, st))}" for k in call.keywords if k.arg)
        if call_name(call) in ("open",):
            return "open:" + subst_text(call.args[0], st)
        return None

    in_handlers = {id(x) for t_ in walk_local(ld.node) if isinstance(t_, ast.Try) for h_ in t_.handlers for x in walk_local(h_)}

    def lsev(stmt, st, an):
        # a `raise X(...)` of the loader's own (not a handler translating what open()/json/float() raised) on a path whose
        # conditions mention the entry's timeout
        if isinstance(stmt, ast.Raise) and stmt.exc is not None and id(stmt) not in in_handlers:
            about = sorted(an.origin(l)[:70] for l in st.lits if "'timeout'" in an.origin(l))
            if about:
                return [f"ownraise:{stmt.lineno}:" + " & ".join(about[:3])]
        return []

    try:
        la, lo = run_paths(ld.node, event_of=lev, stmt_event_of=lsev, fallible=True)
    except AnalysisError:
        # (a scanner or a validation loop read in at its call site: same economy as for the entry points above)
        la, lo = run_paths(ld.node, event_of=lev, stmt_event_of=lsev, fallible=True, gc_dead_terms=True, forget_at_loop_back=True)
    la.parents = {**A.exception_parents(P)}
    R.paths += len(lo.ret) + len(lo.exc)
    R.need(lo.ret, "load_config has no returning path")
    for st, node in lo.ret:
        pe = [e for e in st.events if e.startswith("params:")]
        R.ob("R2", "one StdioParameters per returning path", len(pe) == 1, f"{ld.module.rel}:{node.lineno}", f"{pe}")
        if len(pe) != 1:
            continue
        parts_ = [x for x in pe[0][7:].split("|") if x]
        R.need(all("=" in x for x in parts_), f"the StdioParameters construction `{pe[0][7:][:80]}` is written in a shape this rule cannot read (expected keyword arguments)")
        kv = dict(x.split("=", 1) for x in parts_)
        # a parameter with a constant default reads as that default (the behaviour a caller gets without overriding it)
        for p_ in ld.params():
            d_ = ld.param_default(p_)
            if isinstance(d_, ast.Constant) and isinstance(d_.value, str) and p_ not in (name, pth):
                kv = {k_: re.sub(rf"(?<![\w.'\"]){re.escape(p_)}(?![\w'\"])", repr(d_.value), v_) for k_, v_ in kv.items()}
        entry = f".get('mcpServers', {{}}).get({name})"
        for k, want in (("command", "['command']"), ("args", ".get('args', [])"), ("env", ".get('env')")):
            v = kv.get(k, "<missing>")
            ok = v.endswith(want) and entry in v and ("json.load(" in v)
            R.ob("R2", f"{k} comes from the selected entry's {k!r} key", ok, f"{ld.module.rel}:{node.lineno}", f"{k} := {v[:120]}", sample=f"R2 load_config: {k} := …{v[-60:]}")
        opens = [e for e in st.events if e.startswith("open:")]
        R.ob("R2", "the file read is the config_path parameter", opens == [f"open:{pth}"], f"{ld.module.rel}:{node.lineno}", f"{opens}")
        rv = node.value
        first = rv.elts[0] if isinstance(rv, ast.Tuple) and rv.elts else rv
        ft = subst_text(first, st) if first is not None else "None"
        d = la.defs.get(ft, ("", None))[1]
        R.ob("R2", "the constructed parameters are what is returned (element 0)", isinstance(rv, ast.Tuple) and len(rv.elts) == 2 and isinstance(d, ast.Call) and call_name(d).endswith("StdioParameters"), f"{ld.module.rel}:{node.lineno}", f"returns `{ast.unparse(node)}`")
        # the unknown-name test dominates
        R.ob("R2", "returns only for a configured server", any("not " not in l and ".get('mcpServers'" in la.origin(l) for l in st.lits) or any(l.startswith("server_config") for l in st.lits) or any(".get(" in l and not l.startswith("not ") for l in st.lits), f"{ld.module.rel}:{node.lineno}", f"literals {sorted(l[:50] for l in st.lits)}")

    # R7 in the loader: a timeout entry is refused only by float() itself — int, float and every string float() reads
    # ("30", "1e3", ".5", " 2 ") are the spellings a configuration may use; a test of the loader's own that raises for some
    # of them makes a valid configuration unloadable, and the server it names is never launched
    n_to = 0
    own = sorted({e for st, _t, _n in lo.exc for e in st.events if e.startswith("ownraise:")})
    for e in own:
        _k, ln, about = e.split(":", 2)
        n_to += 1
        R.ob("R7", "load_config refuses a timeout entry only where float() does", False, f"{ld.module.rel}:{ln}",
             f"the loader raises an error of its own under `{about}`: it adds a test on the timeout it read — spellings float() accepts (\"1e3\", \"+5\", \".5\", \"1_000\") or values it used to pass on are now a configuration error, and that server is never launched")
    if not n_to:
        R.ob("R7", "load_config adds no test of its own on the timeout entry", True, ld.where, "", sample="R7 load_config: no explicit raise on a path conditioned on the entry's timeout")

    # ------------------------------------------------------------------ R4
    for t_ in walk_local(ld.node):
        if isinstance(t_, ast.Try):
            for h_ in t_.handlers:
                if h_.name and any(isinstance(c_, ast.Call) and call_name(c_) == "isinstance" and c_.args and ast.unparse(c_.args[0]) == h_.name for b_ in h_.body for c_ in walk_local(b_)):
                    R.need(False, f"load_config: the handler at line {h_.lineno} dispatches on the class of the caught exception (isinstance) — which class leaves on which path is not readable by this rule")
    raised = {}
    for st, tag, node in lo.exc:
        if isinstance(node, ast.Raise):
            raised.setdefault(tag, []).append((st, node))
    # unknown server -> ValueError
    def _entry_absent(l: str) -> bool:
        """the literal says the selected entry itself is missing/empty (not something computed from one of its members)"""
        if l.startswith("not "):
            o = la.origin(l[4:]).strip("<>")
            return o.endswith(f".get({name})") or o.endswith(f".get({name}, None)") or o.endswith(f"[{name}]") or o.endswith(f".get({name}, {{}})")
        o = la.origin(l)
        return (f"{name} not in " in o and "mcpServers" in o) or ((o.endswith(" is None") or o.endswith(" == None")) and o.rsplit(" ", 2)[0].strip("<>").endswith(f".get({name})"))

    unknown = [(st, n) for tag, lst in raised.items() for st, n in lst if any(_entry_absent(l) for l in st.lits)]
    tags_unknown = {t for t, lst in raised.items() for st, n in lst if (st, n) in unknown}
    R.ob("R4", "unknown server name → ValueError", tags_unknown == {"ValueError"}, ld.where, f"classes raised on the unknown-name path: {sorted(tags_unknown)}")
    for t in walk_local(ld.node):
        if isinstance(t, ast.Try):
            for h in t.handlers:
                names = PathAnalysis.handler_names(None, h)  # type: ignore[arg-type]
                ha, ho = run_paths(ast.Module(body=h.body, type_ignores=[]), fallible=False)
                ha_tags = set()
                for st, tag, node in ho.exc:
                    ha_tags.add(names[0] if tag == "<reraise>" else tag)
                swallow = bool(ho.normal or ho.ret)
                ok = not swallow and len(ha_tags) == 1 and next(iter(ha_tags)).split(".")[-1] == names[0].split(".")[-1]
                R.ob("R4", f"handler for {names[0]} re-raises its own class", ok, f"{ld.module.rel}:{h.lineno}", f"raises {sorted(ha_tags)}, can end normally: {swallow}", sample=f"R4 load_config: except {names[0]} → raise {sorted(ha_tags)}")
    hn = {PathAnalysis.handler_names(None, h)[0].split(".")[-1] for t in walk_local(ld.node) if isinstance(t, ast.Try) for h in t.handlers}  # type: ignore[arg-type]
    R.ob("R4", "the three documented classes have handlers or propagate", {"FileNotFoundError", "JSONDecodeError"} <= hn or not hn, ld.where, f"handlers {sorted(hn)}")
    broad = [h for t in walk_local(ld.node) if isinstance(t, ast.Try) for h in t.handlers if h.type is None or ast.unparse(h.type) in ("Exception", "BaseException")]
    for h in broad:
        ha, ho = run_paths(ast.Module(body=h.body, type_ignores=[]), fallible=False)
        R.ob("R4", "a broad handler in the loader re-raises unchanged", not (ho.normal or ho.ret) and {t for _s, t, _n in ho.exc} <= {"<reraise>"}, f"{ld.module.rel}:{h.lineno}", "")

    # ------------------------------------------------------------------ R3
    cl = P.cls(A.MOD_STDIO, "StdioClient")
    spawn = None
    for f in P.methods(cl).values():
        for c in walk_local(f.node):
            if isinstance(c, ast.Call) and call_name(c).endswith("open_process"):
                spawn = (f, c)
    R.need(spawn is not None, "anchor: StdioClient no longer calls open_process")
    f, c = spawn
    R.fn(f.fq)
    a0 = c.args[0] if c.args else kwarg(c, "command")
    if isinstance(a0, ast.Name):
        # the argument list bound to a local first (`argv = [cmd, *args]`): read its single definition
        ds_ = [s_ for s_ in walk_local(f.node) if isinstance(s_, ast.Assign) and len(s_.targets) == 1 and ast.unparse(s_.targets[0]) == a0.id]
        touched = [x for x in walk_local(f.node) if isinstance(x, ast.Call) and isinstance(x.func, ast.Attribute) and isinstance(x.func.value, ast.Name) and x.func.value.id == a0.id]
        if len(ds_) == 1 and isinstance(ds_[0].value, ast.List) and not touched:
            a0 = ds_[0].value
    ok_cmd = isinstance(a0, ast.List) and len(a0.elts) == 2 and ast.unparse(a0.elts[0]) == "self.server.command" and isinstance(a0.elts[1], ast.Starred) and ast.unparse(a0.elts[1].value) == "self.server.args"
    R.ob("R3", "open_process gets [command, *args] as a list", ok_cmd, f"{f.module.rel}:{c.lineno}", f"first argument `{ast.unparse(a0)[:80] if a0 is not None else None}`", sample=f"R3 open_process({ast.unparse(a0)[:60] if a0 is not None else None}, env=…)")
    R.ob("R3", "no shell", kwarg(c, "shell") is None and not call_name(c).endswith("run_process"), f"{f.module.rel}:{c.lineno}", "")
    envk = kwarg(c, "env")
    env_src = None
    if isinstance(envk, ast.Name):
        ds = [s for s in walk_local(f.node) if isinstance(s, ast.Assign) and ast.unparse(s.targets[0]) == envk.id]
        env_src = ast.unparse(ds[0].value) if len(ds) == 1 else None
        if len(ds) > 1:
            # `env = self.server.env` followed by a default taken only when that is empty (`if not env: env = default()`)
            first = ast.unparse(ds[0].value)
            rest_guarded = all(any(isinstance(i, ast.If) and ast.unparse(i.test) == f"not {envk.id}" and any(d_ is x for b_ in i.body for x in walk_local(b_)) for i in walk_local(f.node)) for d_ in ds[1:])
            if first.startswith("self.server.env") and rest_guarded:
                env_src = first + " or <default when empty>"
    elif envk is not None:
        env_src = ast.unparse(envk)
    R.ob("R3", "environment derives from the parameters' env", env_src is not None and env_src.startswith("self.server.env"), f"{f.module.rel}:{c.lineno}", f"env := {env_src}")
    # the child's stderr: a pipe nobody reads fills up and stalls a talkative server before it reads `initialize`
    R.rule("R6", "the child's stderr cannot stall it before the handshake: every value open_process can get for stderr is the null device or a stream the child writes to directly (inherited), or — for a pipe, which is also anyio's default — a task of its own in the client's task group reads it")
    errk = kwarg(c, "stderr")
    arms = []

    def _arms(e, depth=0):
        if isinstance(e, ast.IfExp):
            _arms(e.body, depth)
            _arms(e.orelse, depth)
        elif isinstance(e, ast.Name) and depth < 3:
            ds_ = [s_.value for s_ in walk_local(f.node) if isinstance(s_, ast.Assign) and any(isinstance(t, ast.Name) and t.id == e.id for t in s_.targets)]
            # … or bound pairwise: `target, label = DEVNULL, "suppressed"`
            for s_ in walk_local(f.node):
                if isinstance(s_, ast.Assign) and isinstance(s_.value, ast.Tuple):
                    for t in s_.targets:
                        if isinstance(t, ast.Tuple) and len(t.elts) == len(s_.value.elts):
                            ds_ += [v_ for t_, v_ in zip(t.elts, s_.value.elts) if isinstance(t_, ast.Name) and t_.id == e.id]
            if not ds_:
                arms.append(e)
            for d_ in ds_:
                _arms(d_, depth + 1)
        else:
            arms.append(e)

    if errk is None:
        arms.append(ast.Attribute(value=ast.Name(id="subprocess", ctx=ast.Load()), attr="PIPE", ctx=ast.Load()))  # anyio.open_process defaults to a pipe
    else:
        _arms(errk)
    piped = [a for a in arms if ast.unparse(a).split(".")[-1] == "PIPE" or (isinstance(a, ast.Constant) and a.value == -1)]
    unknown = [a for a in arms if a not in piped and ast.unparse(a).split(".")[-1] not in ("DEVNULL", "stderr", "STDOUT", "__stderr__") and not (isinstance(a, ast.Constant) and a.value in (-3, -2, None, 2))]
    if unknown:
        raise AnalysisError(f"{f.module.rel}:{c.lineno}: open_process gets stderr=`{ast.unparse(unknown[0])[:60]}`, which this rule cannot classify")
    drained = []
    if piped:
        from ..roles import self_closure

        meths_ = P.methods(cl)
        entries = [meths_[x.args[0].attr] for m_ in meths_.values() for x in walk_local(m_.node) if isinstance(x, ast.Call) and call_name(x).endswith(".start_soon") and x.args and isinstance(x.args[0], ast.Attribute) and x.args[0].attr in meths_]
        for e_ in entries:
            reads_out = any(isinstance(n_, ast.Attribute) and n_.attr == "stdout" for g_ in self_closure(P, cl, e_).values() for n_ in walk_local(g_.node))
            reads_err = any(isinstance(n_, ast.Attribute) and n_.attr == "stderr" for n_ in walk_local(e_.node))
            if reads_err and not reads_out:
                drained.append(e_.name)
    R.ob("R6", "no stderr pipe is left unread while the server starts", not piped or bool(drained), f"{f.module.rel}:{c.lineno}",
         f"open_process can get stderr={sorted({ast.unparse(a) for a in piped})} ({'passed' if errk is not None else 'the default'}) and no task of the client's task group is dedicated to reading process.stderr: a server that logs more than the pipe holds before answering blocks in write(2) and never reaches the handshake",
         sample=f"R6 open_process(stderr={ast.unparse(errk)[:60] if errk is not None else '<default PIPE>'}) arms {[ast.unparse(a) for a in arms]}" + (f" drained by {drained}" if drained else ""))
    init = P.func(A.MOD_STDIO, "StdioClient.__init__")
    sp = [p for p in init.positional_params() if p != "self"][0]
    store = [s for s in walk_local(init.node) if isinstance(s, ast.Assign) and ast.unparse(s.targets[0]) == "self.server"]
    R.ob("R3", "self.server is the constructor's parameter object", len(store) == 1 and ast.unparse(store[0].value) == sp, init.where, "")
    others = [s for m in P.methods(cl).values() if m is not init for s in walk_local(m.node) if isinstance(s, ast.Assign) and ast.unparse(s.targets[0]).startswith("self.server")]
    R.ob("R3", "nobody rewrites the parameters after construction", not others, cl.module.rel, f"{[ast.unparse(s)[:50] for s in others]}")
    # the convenience wrapper passes its parameter to the client unchanged
    for wname in ("stdio_client", "stdio_client_with_initialize"):
        w = P.func(A.MOD_STDIO, wname)
        wp = w.positional_params()[0]
        cs = [x for x in walk_local(w.node) if isinstance(x, ast.Call) and call_name(x) == "StdioClient"]
        R.ob("R3", f"{wname} hands its parameters to StdioClient unchanged", len(cs) == 1 and len(cs[0].args) == 1 and ast.unparse(cs[0].args[0]) == wp, w.where, "")

    # ------------------------------------------------------------------ R9: what the configuration names is what the parameter object holds
    R.rule("R9", "the parameter object the entry points hand to the launcher holds the configured strings as they are: StdioParameters' model configuration (its own and what it inherits) sets nothing that rewrites or refuses values — only Pydantic reads such settings, and they apply to every string in the model: each argument, each environment key and value")
    from ..models import ModelTable, config_findings

    T20 = ModelTable(P)
    mine = [m for m in T20.models.values() if m.name == "StdioParameters"]
    R.need(mine, "anchor: StdioParameters is not a model class any more")
    cf20 = [x for x in config_findings(T20) if x[0].name == "StdioParameters"]
    for m_, k_, v_, effect_ in cf20:
        R.ob("R9", "StdioParameters: the configuration leaves command, args and env as configured", False, f"{m_.ci.module.rel}:{m_.ci.node.lineno}",
             f"model_config[{k_!r}] = {v_!r} {effect_}: an argument, an environment value or an environment key with such characters reaches the child changed — the server is launched with something other than what the configuration names")
    if not cf20:
        R.ob("R9", "StdioParameters: the configuration leaves command, args and env as configured", True, f"{mine[0].ci.module.rel}:{mine[0].ci.node.lineno}", "", sample=f"R9 StdioParameters.model_config keys: {sorted(mine[0].config)}")
