"""C17 — JSON encoding is backend-independent and always a single NDJSON frame.

Codec equivalence over all JSON values is out of static reach (orjson is a
compiled extension).  What is decided here are necessary conditions on the
dual-backend wrapper: both sibling branches pass the caller's object through
untransformed, no option that changes values or frames is set, and no frame
writer asks for indentation."""
from __future__ import annotations

import ast
import copy

from .. import anchors as A
from ..model import AnalysisError, Project, call_name, kwarg, local_values, walk_local
from ..paths import run_paths
from ..report import Report
from . import _stdio

VALUE_CHANGING_STDLIB_KW = {"parse_float", "parse_int", "parse_constant", "object_hook", "object_pairs_hook", "cls", "default", "skipkeys", "allow_nan"}
FRAME_BREAKING_ORJSON = {"OPT_APPEND_NEWLINE"}
NEEDS_FALLBACK_ARM = {"OPT_STRICT_INTEGER": "ints above 2^53 are rejected by orjson under this option; only the stdlib fallback arm keeps them encodable"}
HARMLESS_ORJSON = {"OPT_SORT_KEYS", "OPT_NON_STR_KEYS", "OPT_SERIALIZE_NUMPY", "OPT_UTC_Z", "OPT_NAIVE_UTC", "OPT_OMIT_MICROSECONDS", "OPT_PASSTHROUGH_DATACLASS", "OPT_PASSTHROUGH_DATETIME", "OPT_PASSTHROUGH_SUBCLASS", "OPT_SERIALIZE_DATACLASS", "OPT_SERIALIZE_UUID"}


_R4_PROBE = """
def dumps_bytes(obj, *, newline=False, **kwargs):
    if HAS_ORJSON:
        try:
            options = 0
            if newline:
                options |= _orjson.OPT_APPEND_NEWLINE
            return _orjson.dumps(obj, option=options)
        except Exception:
            return _stdlib_json.dumps(obj, **kwargs).encode("utf-8")
    else:
        data = _stdlib_json.dumps(obj, **kwargs).encode("utf-8")
        return data + b"\\n" if newline else data
"""


def arms_agree(fn_node, lib_call_name, rel):
    """[(flag valuation, agree?, detail, outcomes)] — per valuation of the function's flag parameters, whether every
    returning arm (fast backend, its fall-back on refusal, stdlib) ends the encoding the same way."""
    flags = [a.arg for a in fn_node.args.kwonlyargs + fn_node.args.args[1:]]
    lvg = local_values(fn_node)

    def sev(stmt, st, an):
        if isinstance(stmt, (ast.AugAssign, ast.Assign)) and any(isinstance(n_, ast.Attribute) and n_.attr in FRAME_BREAKING_ORJSON for n_ in ast.walk(stmt.value)):
            return "terminator-option"
        return None

    def strip(e):
        while isinstance(e, ast.Call) and isinstance(e.func, ast.Attribute) and e.func.attr in ("encode", "decode"):
            e = e.func.value
        return e

    def once(e, st=None, an=None):
        """a local stands for the definition that reaches this return"""
        if isinstance(e, ast.Name) and st is not None:
            d = an.defs.get(st.term(e.id) or "", ("", None))[1]
            if d is not None:
                return d.value if isinstance(d, ast.Await) else d
        if isinstance(e, ast.Name) and len(lvg.get(e.id) or []) == 1 and lvg[e.id][0] is not None:
            return lvg[e.id][0]
        return e

    if rel == "<probe>":
        # project sources are normalised when parsed; the embedded example gets the same treatment here
        from ..normalize import normalize

        m_ = ast.Module(body=[fn_node], type_ignores=[])
        normalize(m_)
        ast.fix_missing_locations(m_)
        fn_node = m_.body[0]
        lvg = local_values(fn_node)
    ga, go = run_paths(fn_node, stmt_event_of=sev, fallible=True, exc_after_events=True)
    seen = {}
    for st, node in go.ret:
        v = once(node.value, st, ga)
        added = isinstance(v, ast.BinOp) and isinstance(v.op, ast.Add) and isinstance(v.right, ast.Constant) and v.right.value in ("\n", b"\n")
        core = strip(once(strip(v.left if added else v), st, ga))
        if not (isinstance(core, ast.Call) and lib_call_name(core).endswith(".dumps")):
            raise AnalysisError(f"{rel}:{node.lineno}: {fn_node.name} returns `{ast.unparse(node.value)[:60]}`, not the result of a backend's dumps")
        fast = "orjson" in lib_call_name(core)
        via_opt = fast and "terminator-option" in st.events and any(k.arg == "option" for k in core.keywords)
        inline_opt = fast and any(isinstance(n_, ast.Attribute) and n_.attr in FRAME_BREAKING_ORJSON for k in core.keywords for n_ in ast.walk(k.value))
        terminated = bool(added or via_opt or inline_opt)
        val = tuple(sorted((q, q in st.lits) for q in flags if q in st.lits or f"not {q}" in st.lits))
        seen.setdefault(val, {}).setdefault(terminated, (node, "fast backend" if fast else "stdlib"))
    out = []
    for val, outcomes in sorted(seen.items()):
        ok = len(outcomes) == 1
        det = ""
        if not ok:
            (n1, b1), (n0, b0) = outcomes[True], outcomes[False]
            det = f"with {dict(val)} the {b1} arm at line {n1.lineno} ends the encoding with a line feed and the {b0} arm at line {n0.lineno} does not: whether a message is a complete frame depends on which backend encoded it"
        out.append((val, ok, det, outcomes))
    return out


def check(P: Project, R: Report) -> None:
    R.rule("R1", "sibling branches: in dumps/loads both the orjson and the stdlib branch receive the caller's object untransformed and return the library's result unmodified — orjson's bytes decoded as UTF-8 and nothing else")
    R.rule("R2", "option denylist: no orjson option or stdlib keyword that changes values or frames is set by the module itself (OPT_INDENT_2 only when the caller asked for indent; no OPT_APPEND_NEWLINE; OPT_STRICT_INTEGER only with the stdlib fallback arm; no parse_*/object_hook keywords)")
    R.rule("R3", "frame safety: no NDJSON frame writer passes indent to the serialiser")
    mod = P.module(A.MOD_FASTJSON)

    def module_alias(name: str):
        """`_fast_dumps = _orjson.dumps` bound at import time (None/0 placeholders on the branch without the library are
        ignored): the dotted callable the module-level name abbreviates, else None"""
        vals = set()
        for n_ in ast.walk(mod.tree):
            if isinstance(n_, (ast.FunctionDef, ast.AsyncFunctionDef)):
                continue
            if isinstance(n_, ast.Assign) and any(isinstance(t, ast.Name) and t.id == name for t in n_.targets):
                if isinstance(n_.value, ast.Constant):
                    continue
                vals.add(ast.unparse(n_.value))
        if len(vals) == 1:
            v_ = next(iter(vals))
            if "." in v_ and "(" not in v_:
                return v_
        return None

    def lib_call_name(c_: ast.Call) -> str:
        nm = call_name(c_)
        if isinstance(c_.func, ast.Name):
            return module_alias(nm) or nm
        return nm

    for fname in ("dumps", "loads"):
        f = P.func(A.MOD_FASTJSON, fname)
        R.fn(f.fq)
        p0 = f.positional_params()[0]
        rets = [r for r in walk_local(f.node) if isinstance(r, ast.Return) and r.value is not None]
        R.need(len(rets) >= 2, f"{fname}: expected a return per backend branch, found {len(rets)}")
        branches = set()
        # names the parameter may be rebound to: only `p0 = p0.decode("utf-8")` under an isinstance(bytes) test
        rebinds = [s for s in walk_local(f.node) if isinstance(s, ast.Assign) and ast.unparse(s.targets[0]) == p0]
        for s in rebinds:
            ok = ast.unparse(s.value) in (f"{p0}.decode('utf-8')", f"{p0}.decode('utf8')", f"{p0}.decode()", f"bytes({p0}).decode('utf-8')", f"bytes({p0}).decode('utf8')", f"bytes({p0}).decode()")
            R.ob("R1", f"{fname}: input is only re-decoded as UTF-8", ok, f"{mod.rel}:{s.lineno}", f"`{ast.unparse(s)}` transforms the caller's input")
        lv = local_values(f.node)

        def through_local(e, depth=0):
            """a local bound exactly once stands for its definition"""
            if isinstance(e, ast.Name) and e.id != p0 and depth < 4:
                vals = lv.get(e.id) or []
                if len(vals) == 1 and vals[0] is not None:
                    return through_local(vals[0], depth + 1)
            return e

        def is_input(e, depth=0) -> bool:
            """the caller's object itself, or — for text input — the same bytes decoded as UTF-8; through locals"""
            if depth > 4:
                return False
            if isinstance(e, ast.Name) and e.id == p0:
                return True
            if isinstance(e, ast.IfExp):
                return is_input(e.body, depth + 1) and is_input(e.orelse, depth + 1)  # `s.decode("utf-8") if isinstance(s, bytes) else s`
            if ast.unparse(e) in (f"{p0}.decode('utf-8')", f"{p0}.decode('utf8')", f"{p0}.decode()", f"bytes({p0}).decode('utf-8')", f"bytes({p0}).decode('utf8')", f"bytes({p0}).decode()", f"str({p0}, 'utf-8')"):
                return True
            # the same bytes decoded as UTF-8, whatever the bytes-like input is wrapped in: `bytes(x).decode("utf-8")`
            if isinstance(e, ast.Call) and isinstance(e.func, ast.Attribute) and e.func.attr == "decode" and [ast.unparse(a_) for a_ in e.args] in ([], ["'utf-8'"], ["'utf8'"]) and not e.keywords:
                inner = e.func.value
                if isinstance(inner, ast.Call) and call_name(inner) in ("bytes", "bytearray", "memoryview") and len(inner.args) == 1:
                    inner = inner.args[0]
                return is_input(inner, depth + 1)
            if isinstance(e, ast.Name):
                vals = lv.get(e.id) or []
                # (a self-referential re-decode `x = bytes(x).decode()` adds nothing to where x came from)
                others = [v_ for v_ in vals if not (v_ is not None and any(isinstance(n_, ast.Name) and n_.id == e.id for n_ in ast.walk(v_)))]
                selfref = [v_ for v_ in vals if v_ not in others]
                return bool(others) and all(v_ is not None and is_input(v_, depth + 1) for v_ in others) and all(is_input(ast.parse(ast.unparse(v_).replace(e.id, p0), mode="eval").body, depth + 1) for v_ in selfref)
            return False

        for r in rets:
            v = through_local(r.value)
            where = f"{mod.rel}:{r.lineno}"
            decoded = None
            if isinstance(v, ast.Call) and isinstance(v.func, ast.Attribute) and v.func.attr == "decode" and isinstance(through_local(v.func.value), ast.Call):
                decoded = v
                v = through_local(v.func.value)
            ok_shape = isinstance(v, ast.Call) and lib_call_name(v).endswith(f".{fname}") and len(v.args) >= 1 and is_input(v.args[0])
            lib = lib_call_name(v).rsplit(".", 1)[0] if isinstance(v, ast.Call) else "?"
            # `json.JSONEncoder(**kwargs).encode(obj)` is what `json.dumps(obj, **kwargs)` does; the encoder may be a local, and
            # may come out of a module-level table of encoders (whose keys are R5's subject)
            if fname == "dumps" and isinstance(v, ast.Call) and isinstance(v.func, ast.Attribute) and v.func.attr == "encode" and len(v.args) == 1 and not v.keywords and is_input(v.args[0]):
                kwn = f.node.args.kwarg.arg if f.node.args.kwarg is not None else "kwargs"
                srcs = [x for x in (lv.get(v.func.value.id, []) if isinstance(v.func.value, ast.Name) else [v.func.value])]

                def encoder_source(e_) -> bool:
                    if isinstance(e_, ast.Call) and lib_call_name(e_).endswith(".JSONEncoder") and "orjson" not in lib_call_name(e_) and not e_.args and [ast.unparse(k_.value) for k_ in e_.keywords if k_.arg is None] == [kwn] and not [k_ for k_ in e_.keywords if k_.arg]:
                        return True
                    tbl = None
                    if isinstance(e_, ast.Call) and isinstance(e_.func, ast.Attribute) and e_.func.attr == "get" and isinstance(e_.func.value, ast.Name):
                        tbl = e_.func.value.id
                    if isinstance(e_, ast.Subscript) and isinstance(e_.value, ast.Name):
                        tbl = e_.value.id
                    return tbl is not None and P.module_assign(mod, tbl) is not None
                if srcs and all(x is not None and encoder_source(x) for x in srcs):
                    ok_shape = True
                    lib = next((lib_call_name(x).rsplit(".", 1)[0] for x in srcs if isinstance(x, ast.Call) and lib_call_name(x).endswith(".JSONEncoder")), "json")
            kind, target = P.resolve_name(A.MOD_FASTJSON, lib)
            backend = target if kind in ("module", "external") else lib
            if "orjson" in str(backend) or "orjson" in lib:
                branches.add("orjson")
                if fname == "dumps":
                    ok_dec = decoded is not None and [ast.unparse(a) for a in decoded.args] in (["'utf-8'"], ["'utf8'"], []) and not decoded.keywords
                    R.ob("R1", "dumps/orjson: bytes decoded as UTF-8 and nothing else", ok_shape and ok_dec, where, f"returns `{ast.unparse(r.value)[:80]}`", sample=f"R1 dumps orjson arm: {ast.unparse(r.value)[:70]}")
                else:
                    R.ob("R1", "loads/orjson: result returned unmodified", ok_shape and decoded is None, where, f"returns `{ast.unparse(r.value)[:80]}`")
            else:
                branches.add("stdlib")
                R.ob("R1", f"{fname}/stdlib: result returned unmodified", ok_shape and decoded is None, where, f"returns `{ast.unparse(r.value)[:80]}`", sample=f"R1 {fname} stdlib arm: {ast.unparse(r.value)[:70]}")
                for k in (v.keywords if isinstance(v, ast.Call) else []):
                    if k.arg in VALUE_CHANGING_STDLIB_KW or k.arg == "indent":
                        R.ob("R2", f"{fname}/stdlib: keyword {k.arg} added by the module", False, where, "this keyword changes decoded values or the frame")
        R.ob("R1", f"{fname}: both sibling branches exist", branches == {"orjson", "stdlib"}, f.where, f"branches {sorted(branches)}")
        # the refusal arm: whatever the fast backend raises for a value, the stdlib backend gets the same input — the two
        # libraries do not accept the same set of JSON texts/values (nesting depth, integer range, key types), so an arm
        # that lets the fast backend's error out makes the result depend on which backend is installed
        for t_ in walk_local(f.node):
            if not isinstance(t_, ast.Try) or not any(isinstance(c_, ast.Call) and "orjson" in lib_call_name(c_) and lib_call_name(c_).endswith(f".{fname}") for s_ in t_.body for c_ in walk_local(s_)):
                continue
            R.ob("R1", f"{fname}: the fast backend's call has a fall-back arm", bool(t_.handlers), f"{mod.rel}:{t_.lineno}", "")
            for h_ in t_.handlers:
                reraises = [r_ for r_ in walk_local(ast.Module(body=h_.body, type_ignores=[])) if isinstance(r_, ast.Raise)]
                to_stdlib = [c_ for s_ in h_.body for c_ in walk_local(s_) if isinstance(c_, ast.Call) and ("orjson" not in lib_call_name(c_)) and lib_call_name(c_).endswith(f".{fname}")]
                hn = ast.unparse(h_.type) if h_.type is not None else "<bare>"
                R.ob("R1", f"{fname}: `except {hn[:40]}` hands the same input to the stdlib backend", bool(to_stdlib) and not reraises, f"{mod.rel}:{h_.lineno}",
                     f"the arm for `{hn}` " + ("re-raises" if reraises else "does not call the stdlib backend") + ": a value or document the fast backend refuses but the stdlib one takes (nesting beyond its depth limit, integers beyond 64 bits, …) fails with the fast backend installed and succeeds without it",
                     sample=f"R1 {fname}: except {hn[:30]} → stdlib {fname}")
        # options
        opts = {n.attr: n for n in walk_local(f.node) if isinstance(n, ast.Attribute) and n.attr.startswith("OPT_")}
        # options reached through a module-level abbreviation (`_OPT_PRETTY = _orjson.OPT_INDENT_2`)
        for n in walk_local(f.node):
            if isinstance(n, ast.Name) and isinstance(n.ctx, ast.Load):
                al = module_alias(n.id)
                if al and al.split(".")[-1].startswith("OPT_"):
                    opts.setdefault(al.split(".")[-1], n)
        has_fallback_arm = any(isinstance(t, ast.Try) and any("orjson" in ast.unparse(s) for s in t.body) and any("_stdlib_json" in ast.unparse(s) or "json." in ast.unparse(s) for h in t.handlers for s in h.body) for t in walk_local(f.node))
        R.extra[f"{fname}_fallback_on_exception_arm"] = has_fallback_arm
        for name, node in sorted(opts.items()):
            where = f"{mod.rel}:{node.lineno}"
            if name in FRAME_BREAKING_ORJSON:
                R.ob("R2", f"{fname}: {name}", False, where, "appends a newline to every encoding: the frame writer adds its own, so each message becomes two lines")
            elif name == "OPT_INDENT_2":
                guards = [i for i in walk_local(f.node) if isinstance(i, ast.If) and node in list(walk_local(i)) and "indent" in ast.unparse(i.test)]
                R.ob("R2", f"{fname}: OPT_INDENT_2 only under the caller's indent request", bool(guards), where, "indentation is applied unconditionally: compact encodings contain raw line breaks", sample="R2 OPT_INDENT_2 guarded by kwargs.get('indent')")
                # the request is read by value, not by presence: compact callers pass `indent=None` explicitly (the
                # no-Pydantic model_dump_json does), and that must stay compact under both backends
                from ..consteval import NotConstant as _NC, fold as _fold

                kwname = f.node.args.kwarg.arg if f.node.args.kwarg is not None else "kwargs"
                class _Locals(ast.NodeTransformer):
                    def visit_Name(self, n_):
                        if isinstance(n_.ctx, ast.Load) and n_.id != kwname:
                            d_ = through_local(n_)
                            if d_ is not n_:
                                return self.visit(copy.deepcopy(d_))
                        return n_

                for g_ in guards:
                    test_ = _Locals().visit(copy.deepcopy(g_.test))  # `indent = kwargs.get("indent"); if indent:` reads the same request
                    for label_, env_, want_ in (("indent=None", {kwname: {"indent": None}}, False), ("no indent keyword", {kwname: {}}, False)):
                        try:
                            got_ = bool(_fold(P, f.module, test_, local=env_))
                        except _NC as e_:
                            raise AnalysisError(f"{mod.rel}:{g_.lineno}: the test that selects OPT_INDENT_2 (`{ast.unparse(g_.test)[:60]}`) cannot be read off for {label_} ({e_})")
                        R.ob("R2", f"{fname}: with {label_} no indentation option is selected", got_ is want_, f"{mod.rel}:{g_.lineno}",
                             f"`{ast.unparse(g_.test)[:70]}` holds for {label_}: a caller that asks for the compact form gets a multi-line encoding under the fast backend and a single line under stdlib json — one message becomes many NDJSON lines")
            elif name in NEEDS_FALLBACK_ARM:
                R.ob("R2", f"{fname}: {name} keeps the stdlib fallback arm", has_fallback_arm, where, NEEDS_FALLBACK_ARM[name])
            elif name in HARMLESS_ORJSON:
                R.ob("R2", f"{fname}: {name} cannot change a JSON value or the frame", True, where, "")
            else:
                R.ob("R2", f"{fname}: orjson option {name} is known", False, where, "an option this rule has no classification for")
        if not opts:
            R.ob("R2", f"{fname}: no orjson options", True, f.where, "")
    # ------------------------------------------------------------------ R4: further serialisers with a backend split
    R.rule("R4", "every other serialiser of the module that has an arm per backend (including the fall-back arm taken when the fast backend refuses a value) ends its result the same way on all arms for the same arguments: a line terminator appended on one arm is appended on all")
    siblings = []
    for g in P.funcs_in(A.MOD_FASTJSON):
        if g.name in ("dumps", "loads") or g.parent is not None:
            continue
        libs = {lib_call_name(c_).rsplit(".", 1)[0] for c_ in walk_local(g.node) if isinstance(c_, ast.Call) and lib_call_name(c_).endswith(".dumps")}
        if len(libs) >= 2:
            siblings.append(g)
    for g in siblings:
        R.fn(g.fq)
        for val, ok, det, outcomes in arms_agree(g.node, lib_call_name, mod.rel):
            R.ob("R4", f"{g.name}: all arms end the encoding alike for {dict(val) or 'every call'}", ok, f"{mod.rel}:{g.node.lineno}", det, sample=f"R4 {g.name} {dict(val)}: terminator {sorted(outcomes)}")
    # the rule's own positive example, decided on every run (the shipped module has no such serialiser to-day)
    probe = ast.parse(_R4_PROBE).body[0]
    fired = [v for v, ok, _d, _o in arms_agree(probe, call_name, "<probe>") if not ok]
    R.ob("R4", f"terminator agreement decided for {len(siblings)} further serialiser(s); the rule's built-in counter-example is recognised", bool(fired), mod.rel, "the rule no longer recognises its own counter-example",
         sample=f"R4 further backend-split serialisers: {[g.name for g in siblings] or 'none'}; probe disagreement found for {fired[:1]}")
    R.extra["other_backend_split_serialisers"] = [g.name for g in siblings]
    sib_names = {g.name for g in siblings}

    # ------------------------------------------------------------------ R3
    wr, loop = _stdio.writer(P)
    R.fn(wr.fq)
    cl = _stdio.client(P)
    writers = [wr] + [f for f in P.methods(cl).values() if f is not wr and any(_stdio.is_stdin_write(c, f.node) for c in walk_local(f.node))]
    n = 0
    for f in writers:
        for c in walk_local(f.node):
            if isinstance(c, ast.Call) and (call_name(c) in ("json.dumps", "fast_json.dumps") or call_name(c) in {f"{p_}.{x}" for p_ in ("json", "fast_json") for x in sib_names} or call_name(c).endswith("model_dump_json") or "model_dump_json" in call_name(c)):
                n += 1
                R.call_sites += 1
                bad = [k.arg for k in c.keywords if k.arg in ("indent", "option")]
                R.ob("R3", f"{f.qual}: `{call_name(c)}` passes no indent", not bad, f"{f.module.rel}:{c.lineno}", f"keywords {bad}", sample=f"R3 {f.qual}: {ast.unparse(c)[:60]}")
    R.need(n >= 4, f"only {n} serialiser calls found in the stdio frame writers (5 confirmed by hand)")

    # ------------------------------------------------------------------ R5: nothing one call's options leave behind decides a later call's encoding
    R.rule("R5", "an encoding depends on its own call's options only: whatever the codec keeps at module level between calls and stores from a call's options (a table of prepared encoders) is stored under a key that covers the option values, not just their names — otherwise a pretty-printing call leaves an encoder that a later compact call picks up, and one message becomes many lines")
    tables = {}
    for st_ in mod.tree.body:
        tg_ = st_.targets[0] if isinstance(st_, ast.Assign) and len(st_.targets) == 1 else (st_.target if isinstance(st_, ast.AnnAssign) else None)
        val_ = getattr(st_, "value", None)
        if isinstance(tg_, ast.Name) and (isinstance(val_, (ast.Dict, ast.List, ast.Set)) or (isinstance(val_, ast.Call) and call_name(val_) in ("dict", "list", "set", "OrderedDict", "collections.OrderedDict"))):
            tables[tg_.id] = st_
    n_stores = 0
    for g in P.funcs_in(A.MOD_FASTJSON):
        kwn = g.node.args.kwarg.arg if g.node.args.kwarg is not None else None
        opt_names = {kwn} if kwn else set()
        opt_names |= {p_ for p_ in g.positional_params() if p_ in ("kwargs", "options", "opts")}
        glv = local_values(g.node)

        def depends(e_, on, depth=0) -> bool:
            for x_ in ast.walk(e_):
                if isinstance(x_, ast.Name):
                    if x_.id in on:
                        return True
                    if depth < 3:
                        for v_ in glv.get(x_.id, []) or []:
                            if v_ is not None and depends(v_, on, depth + 1):
                                return True
            return False

        def covers_values(e_, depth=0) -> bool:
            """the key is built from the options' items (names and values), or from a rendering of the whole mapping"""
            for x_ in ast.walk(e_):
                if isinstance(x_, ast.Call) and isinstance(x_.func, ast.Attribute) and x_.func.attr in ("items", "values") and isinstance(x_.func.value, ast.Name) and x_.func.value.id in opt_names:
                    return True
                if isinstance(x_, ast.Call) and call_name(x_) in ("repr", "str") and x_.args and isinstance(x_.args[0], ast.Name) and x_.args[0].id in opt_names:
                    return True
                if isinstance(x_, ast.Name) and depth < 3:
                    for v_ in glv.get(x_.id, []) or []:
                        if v_ is not None and covers_values(v_, depth + 1):
                            return True
            return False

        for n_ in walk_local(g.node):
            key_ = val_ = tbl_ = None
            if isinstance(n_, ast.Assign) and len(n_.targets) == 1 and isinstance(n_.targets[0], ast.Subscript) and isinstance(n_.targets[0].value, ast.Name) and n_.targets[0].value.id in tables:
                tbl_, key_, val_ = n_.targets[0].value.id, n_.targets[0].slice, n_.value
            elif isinstance(n_, ast.Call) and isinstance(n_.func, ast.Attribute) and n_.func.attr == "setdefault" and isinstance(n_.func.value, ast.Name) and n_.func.value.id in tables and len(n_.args) == 2:
                tbl_, key_, val_ = n_.func.value.id, n_.args[0], n_.args[1]
            if tbl_ is None or not opt_names or not depends(val_, opt_names):
                continue
            n_stores += 1
            R.ob("R5", f"{g.qual}: what is kept in `{tbl_}` from a call's options is found again only by a call with the same option values", covers_values(key_), f"{mod.rel}:{n_.lineno}",
                 f"`{ast.unparse(n_)[:70]}` stores something built from the options under `{ast.unparse(key_)[:40]}` (defined by `{'; '.join(ast.unparse(v_)[:50] for v_ in (glv.get(key_.id, []) if isinstance(key_, ast.Name) else []) if v_ is not None) or ast.unparse(key_)[:50]}`), which does not include the option values: after one call with indent=2 every later call that passes the same keyword names — indent=None, the compact form — is encoded with that indenting encoder",
                 sample=f"R5 {g.qual}: {tbl_}[…] keyed by option items")
    R.ob("R5", "the codec keeps nothing between calls that is keyed by less than the options it was built from", True, mod.rel, f"{len(tables)} module-level container(s), {n_stores} option-dependent store(s)", sample=f"R5 module-level containers: {sorted(tables) or 'none'}")

    # ------------------------------------------------------------------ R6: what the frame writer sends is one line
    from ..lift import lift

    lift(P, R, "C06", {"R2"}, "R6",
         "every encoded message is exactly one NDJSON frame: the text the stdio writer frames is the output of a compact serialiser, or a caller's string on a path that excluded raw CR and LF or re-encoded it (the line-safety obligations of C06-R2, read here for 'compact encodings never contain a raw line break')",
         "stdio writer: ", min_n=2, suffix=" — a raw CR or LF inside the frame is a line break to the reader on the other side: one message arrives as several fragments, none of which is JSON")

    # ------------------------------------------------------------------ R7: what was encoded is what the reader decodes
    lift(P, R, "C05", {"R1"}, "R7",
         "decoding what either backend encoded gives back the value: the reader turns the child's bytes into text with one incremental UTF-8 decoder that lives as long as the stream — never reset or replaced between reads (the decoder obligations of C05-R1; the fast backend and Pydantic put raw UTF-8 on the wire, the stdlib arm ASCII escapes, so only one backend's frames are damaged by a decoder that forgets the first bytes of a character)",
         "stdio reader: ", min_n=1, suffix=" — a frame cut inside a multi-byte character comes back with U+FFFD for frames of the raw-UTF-8 encoders and intact for the escaping one")
