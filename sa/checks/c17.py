"""C17 — JSON encoding is backend-independent and always a single NDJSON frame.

Codec equivalence over all JSON values is out of static reach (orjson is a
compiled extension).  What is decided here are necessary conditions on the
dual-backend wrapper: both sibling branches pass the caller's object through
untransformed, no option that changes values or frames is set, and no frame
writer asks for indentation."""
from __future__ import annotations

import ast

from .. import anchors as A
from ..model import AnalysisError, Project, call_name, kwarg, local_values, walk_local
from ..report import Report
from . import _stdio

VALUE_CHANGING_STDLIB_KW = {"parse_float", "parse_int", "parse_constant", "object_hook", "object_pairs_hook", "cls", "default", "skipkeys", "allow_nan"}
FRAME_BREAKING_ORJSON = {"OPT_APPEND_NEWLINE"}
NEEDS_FALLBACK_ARM = {"OPT_STRICT_INTEGER": "ints above 2^53 are rejected by orjson under this option; only the stdlib fallback arm keeps them encodable"}
HARMLESS_ORJSON = {"OPT_SORT_KEYS", "OPT_NON_STR_KEYS", "OPT_SERIALIZE_NUMPY", "OPT_UTC_Z", "OPT_NAIVE_UTC", "OPT_OMIT_MICROSECONDS", "OPT_PASSTHROUGH_DATACLASS", "OPT_PASSTHROUGH_DATETIME", "OPT_PASSTHROUGH_SUBCLASS", "OPT_SERIALIZE_DATACLASS", "OPT_SERIALIZE_UUID"}


def check(P: Project, R: Report) -> None:
    R.rule("R1", "sibling branches: in dumps/loads both the orjson and the stdlib branch receive the caller's object untransformed and return the library's result unmodified — orjson's bytes decoded as UTF-8 and nothing else")
    R.rule("R2", "option denylist: no orjson option or stdlib keyword that changes values or frames is set by the module itself (OPT_INDENT_2 only when the caller asked for indent; no OPT_APPEND_NEWLINE; OPT_STRICT_INTEGER only with the stdlib fallback arm; no parse_*/object_hook keywords)")
    R.rule("R3", "frame safety: no NDJSON frame writer passes indent to the serialiser")
    mod = P.module(A.MOD_FASTJSON)

    def module_alias(name: str):
        """`_fast_dumps = _orjson.dumps` bound at import time (None/0 placeholders on the branch without the library are
        ignored): the dotted callable the module-level name abbreviates, else None"""
        vals = set()
        for n_ in ast.walk(mod.tree):
            if isinstance(n_, (ast.FunctionDef, ast.AsyncFunctionDef)):
                continue
            if isinstance(n_, ast.Assign) and any(isinstance(t, ast.Name) and t.id == name for t in n_.targets):
                if isinstance(n_.value, ast.Constant):
                    continue
                vals.add(ast.unparse(n_.value))
        if len(vals) == 1:
            v_ = next(iter(vals))
            if "." in v_ and "(" not in v_:
                return v_
        return None

    def lib_call_name(c_: ast.Call) -> str:
        nm = call_name(c_)
        if isinstance(c_.func, ast.Name):
            return module_alias(nm) or nm
        return nm

    for fname in ("dumps", "loads"):
        f = P.func(A.MOD_FASTJSON, fname)
        R.fn(f.fq)
        p0 = f.positional_params()[0]
        rets = [r for r in walk_local(f.node) if isinstance(r, ast.Return) and r.value is not None]
        R.need(len(rets) >= 2, f"{fname}: expected a return per backend branch, found {len(rets)}")
        branches = set()
        # names the parameter may be rebound to: only `p0 = p0.decode("utf-8")` under an isinstance(bytes) test
        rebinds = [s for s in walk_local(f.node) if isinstance(s, ast.Assign) and ast.unparse(s.targets[0]) == p0]
        for s in rebinds:
            ok = ast.unparse(s.value) in (f"{p0}.decode('utf-8')", f"{p0}.decode('utf8')", f"{p0}.decode()")
            R.ob("R1", f"{fname}: input is only re-decoded as UTF-8", ok, f"{mod.rel}:{s.lineno}", f"`{ast.unparse(s)}` transforms the caller's input")
        lv = local_values(f.node)

        def through_local(e, depth=0):
            """a local bound exactly once stands for its definition"""
            if isinstance(e, ast.Name) and e.id != p0 and depth < 4:
                vals = lv.get(e.id) or []
                if len(vals) == 1 and vals[0] is not None:
                    return through_local(vals[0], depth + 1)
            return e

        def is_input(e, depth=0) -> bool:
            """the caller's object itself, or — for text input — the same bytes decoded as UTF-8; through locals"""
            if depth > 4:
                return False
            if isinstance(e, ast.Name) and e.id == p0:
                return True
            if ast.unparse(e) in (f"{p0}.decode('utf-8')", f"{p0}.decode('utf8')", f"{p0}.decode()"):
                return True
            if isinstance(e, ast.Name):
                vals = lv.get(e.id) or []
                return bool(vals) and all(v_ is not None and is_input(v_, depth + 1) for v_ in vals)
            return False

        for r in rets:
            v = through_local(r.value)
            where = f"{mod.rel}:{r.lineno}"
            decoded = None
            if isinstance(v, ast.Call) and isinstance(v.func, ast.Attribute) and v.func.attr == "decode" and isinstance(through_local(v.func.value), ast.Call):
                decoded = v
                v = through_local(v.func.value)
            ok_shape = isinstance(v, ast.Call) and lib_call_name(v).endswith(f".{fname}") and len(v.args) >= 1 and is_input(v.args[0])
            lib = lib_call_name(v).rsplit(".", 1)[0] if isinstance(v, ast.Call) else "?"
            kind, target = P.resolve_name(A.MOD_FASTJSON, lib)
            backend = target if kind in ("module", "external") else lib
            if "orjson" in str(backend) or "orjson" in lib:
                branches.add("orjson")
                if fname == "dumps":
                    ok_dec = decoded is not None and [ast.unparse(a) for a in decoded.args] in (["'utf-8'"], ["'utf8'"], []) and not decoded.keywords
                    R.ob("R1", "dumps/orjson: bytes decoded as UTF-8 and nothing else", ok_shape and ok_dec, where, f"returns `{ast.unparse(r.value)[:80]}`", sample=f"R1 dumps orjson arm: {ast.unparse(r.value)[:70]}")
                else:
                    R.ob("R1", "loads/orjson: result returned unmodified", ok_shape and decoded is None, where, f"returns `{ast.unparse(r.value)[:80]}`")
            else:
                branches.add("stdlib")
                R.ob("R1", f"{fname}/stdlib: result returned unmodified", ok_shape and decoded is None, where, f"returns `{ast.unparse(r.value)[:80]}`", sample=f"R1 {fname} stdlib arm: {ast.unparse(r.value)[:70]}")
                for k in (v.keywords if isinstance(v, ast.Call) else []):
                    if k.arg in VALUE_CHANGING_STDLIB_KW or k.arg == "indent":
                        R.ob("R2", f"{fname}/stdlib: keyword {k.arg} added by the module", False, where, "this keyword changes decoded values or the frame")
        R.ob("R1", f"{fname}: both sibling branches exist", branches == {"orjson", "stdlib"}, f.where, f"branches {sorted(branches)}")
        # options
        opts = {n.attr: n for n in walk_local(f.node) if isinstance(n, ast.Attribute) and n.attr.startswith("OPT_")}
        # options reached through a module-level abbreviation (`_OPT_PRETTY = _orjson.OPT_INDENT_2`)
        for n in walk_local(f.node):
            if isinstance(n, ast.Name) and isinstance(n.ctx, ast.Load):
                al = module_alias(n.id)
                if al and al.split(".")[-1].startswith("OPT_"):
                    opts.setdefault(al.split(".")[-1], n)
        has_fallback_arm = any(isinstance(t, ast.Try) and any("orjson" in ast.unparse(s) for s in t.body) and any("_stdlib_json" in ast.unparse(s) or "json." in ast.unparse(s) for h in t.handlers for s in h.body) for t in walk_local(f.node))
        R.extra[f"{fname}_fallback_on_exception_arm"] = has_fallback_arm
        for name, node in sorted(opts.items()):
            where = f"{mod.rel}:{node.lineno}"
            if name in FRAME_BREAKING_ORJSON:
                R.ob("R2", f"{fname}: {name}", False, where, "appends a newline to every encoding: the frame writer adds its own, so each message becomes two lines")
            elif name == "OPT_INDENT_2":
                guards = [i for i in walk_local(f.node) if isinstance(i, ast.If) and node in list(walk_local(i)) and "indent" in ast.unparse(i.test)]
                R.ob("R2", f"{fname}: OPT_INDENT_2 only under the caller's indent request", bool(guards), where, "indentation is applied unconditionally: compact encodings contain raw line breaks", sample="R2 OPT_INDENT_2 guarded by kwargs.get('indent')")
            elif name in NEEDS_FALLBACK_ARM:
                R.ob("R2", f"{fname}: {name} keeps the stdlib fallback arm", has_fallback_arm, where, NEEDS_FALLBACK_ARM[name])
            elif name in HARMLESS_ORJSON:
                R.ob("R2", f"{fname}: {name} cannot change a JSON value or the frame", True, where, "")
            else:
                R.ob("R2", f"{fname}: orjson option {name} is known", False, where, "an option this rule has no classification for")
        if not opts:
            R.ob("R2", f"{fname}: no orjson options", True, f.where, "")
    # ------------------------------------------------------------------ R3
    wr, loop = _stdio.writer(P)
    R.fn(wr.fq)
    cl = _stdio.client(P)
    writers = [wr] + [f for f in P.methods(cl).values() if f is not wr and any(isinstance(c, ast.Call) and call_name(c).endswith("stdin.send") for c in walk_local(f.node))]
    n = 0
    for f in writers:
        for c in walk_local(f.node):
            if isinstance(c, ast.Call) and (call_name(c) in ("json.dumps", "fast_json.dumps") or call_name(c).endswith("model_dump_json") or "model_dump_json" in call_name(c)):
                n += 1
                R.call_sites += 1
                bad = [k.arg for k in c.keywords if k.arg in ("indent", "option")]
                R.ob("R3", f"{f.qual}: `{call_name(c)}` passes no indent", not bad, f"{f.module.rel}:{c.lineno}", f"keywords {bad}", sample=f"R3 {f.qual}: {ast.unparse(c)[:60]}")
    R.need(n >= 4, f"only {n} serialiser calls found in the stdio frame writers (5 confirmed by hand)")
