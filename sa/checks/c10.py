"""C10 — typed protocol models are lossless views of the wire and use wire names."""
from __future__ import annotations

import ast
import re
from typing import Dict, List, Set

from .. import anchors as A
from ..model import AnalysisError, Project, call_name, kwarg, walk_local
from ..models import ModelTable
from ..report import Report
from ..roles import canonical_fallback
from ..typed import typed_facts
from .c09 import fallback_defs

# Receivers mypy types as Any: each site is a named entry with the reason it cannot carry an alias.
ANY_RECEIVERS = {
    ("chuk_mcp.transports.http.transport", "_send_message_internal"): "serialises a JSON-RPC envelope taken from the outgoing stream; the four envelope classes declare no alias (checked below)",
    ("chuk_mcp.transports.sse.transport", "_send_message_via_http"): "serialises a JSON-RPC envelope taken from the outgoing stream; the four envelope classes declare no alias (checked below)",
    ("chuk_mcp.protocol.messages.send_message", "_await_response"): "debug log of the matched response; not wire data",
    ("chuk_mcp.protocol.messages.sampling.send_messages", "handle_create_message_request"): "result of a user-supplied sampling callback; CreateMessageResult's content classes carry no alias and its _meta is dumped by the caller's object",
}
SKIP_MODULES = {"chuk_mcp.protocol.mcp_pydantic_base": "the base class's own generic pass-through of **kwargs"}
SKIP_FUNCS = {("chuk_mcp.protocol.messages.json_rpc_message", "model_dump"): "generic pass-through of the caller's kwargs in the legacy envelope/wrapper", ("chuk_mcp.protocol.messages.json_rpc_message", "model_dump_json"): "generic pass-through"}


def _ast_keywords(P: Project, mod: str, line: int, name: str) -> Set[str]:
    """keyword names of the dump call at that position in the normalised tree (where `**OPTIONS` with a constant mapping
    has been spelled out, which the type checker — run on the source text — does not see)"""
    m = P.modules.get(mod)
    out: Set[str] = set()
    if m is None:
        return out
    for n in ast.walk(m.tree):
        if isinstance(n, ast.Call) and isinstance(n.func, ast.Attribute) and n.func.attr == name.split(".")[-1] and getattr(n, "lineno", None) == line:
            for k in n.keywords:
                if k.arg and isinstance(k.value, ast.Constant) and k.value.value is True:
                    out.add(k.arg)
    return out


_LOG_METHODS = {"debug", "info", "warning", "warn", "error", "exception", "critical", "log"}


def _only_logged(P: Project, mod: str, line: int, name: str) -> bool:
    """the dump call at that position is an argument of a logging call and nothing else (its result never reaches the wire) —
    decided on the source text, which is what the type checker's positions refer to"""
    m = P.modules.get(mod)
    if m is None:
        return False
    try:
        tree = ast.parse(m.src)
    except SyntaxError:
        return False
    parents = {}
    for x in ast.walk(tree):
        for c_ in ast.iter_child_nodes(x):
            parents[id(c_)] = x
    hits = [n for n in ast.walk(tree) if isinstance(n, ast.Call) and isinstance(n.func, ast.Attribute) and n.func.attr == name.split(".")[-1] and getattr(n, "lineno", None) == line]
    if not hits:
        return False
    for n in hits:
        par = parents.get(id(n))
        # directly an argument, or inside an f-string / %-format that is the argument
        while isinstance(par, (ast.FormattedValue, ast.JoinedStr)) or (isinstance(par, ast.BinOp) and isinstance(par.op, ast.Mod)) or isinstance(par, ast.Tuple):
            par = parents.get(id(par))
        if not (isinstance(par, ast.Call) and isinstance(par.func, ast.Attribute) and par.func.attr in _LOG_METHODS and isinstance(par.func.value, ast.Name) and par.func.value.id in ("logging", "logger", "log", "_logger", "LOGGER")):
            return False
        if not isinstance(parents.get(id(par)), ast.Expr):
            return False
    return True


def fallback_extra_obligations(P, base, bfv, fb_class, pyd_cfg):
    """Unknown members under the fallback backend (shared by C10-R2 and C09): every path of its constructor helper that
    does not merge the leftover keys is taken only when there are none — or, if the backend reads `model_config['extra']`,
    the mode it assumes for a class that sets nothing is the one the Pydantic-side base class sets (the models inherit
    `extra='allow'` there, so a different default drops members that Pydantic keeps)."""
    from ..paths import run_paths as _rp
    from ..consteval import try_fold as _tf

    params = [a.arg for a in bfv.args.args]
    out = []

    def ev(call, st, an):
        if call_name(call).endswith(".update") and len(call.args) == 1 and ast.unparse(call.args[0]) in params:
            return "merge:" + ast.unparse(call.args[0])
        return None

    an, o = _rp(bfv, event_of=ev, fallible=False)
    merged_params = {e[6:] for st, _n in o.ret for e in st.events if e.startswith("merge:")}
    skips = []
    for st, node in o.ret:
        if any(e.startswith("merge:") for e in st.events):
            continue
        if merged_params and any(f"not {p_}" in st.lits or f"len({p_}) == 0" in st.lits for p_ in merged_params):
            continue
        skips.append((st, node))
    if not skips:
        out.append(("fallback constructor: every path merges the leftover keys (or there are none)", True, bfv.lineno, ""))
        return out
    # the constructor skips the merge under some condition: it reads a mode; find the default it assumes
    defaults = []
    for n in ast.walk(fb_class):
        if isinstance(n, ast.Call) and isinstance(n.func, ast.Attribute) and n.func.attr == "get" and n.args and isinstance(n.args[0], ast.Constant) and n.args[0].value == "extra":
            defaults.append(n.args[1] if len(n.args) > 1 else ast.Constant(value=None))
    for n in fb_class.body:
        if isinstance(n, ast.AnnAssign) and isinstance(n.target, ast.Name) and "extra" in n.target.id.lower() and n.value is not None:
            defaults.append(n.value)
    want = pyd_cfg.get("extra")
    if not defaults:
        st, node = skips[0]
        out.append(("fallback constructor: every path merges the leftover keys (or there are none)", False, node.lineno,
                    f"a path returns without merging the leftover keys under {sorted(l[:50] for l in st.lits)[:5]}: unknown members of a spec-valid object are dropped by this backend and kept by Pydantic"))
        return out
    for d in defaults:
        v = _tf(P, base, d)
        out.append((f"fallback: the `extra` mode assumed for a class that sets none is the Pydantic base's ({want!r})", v == want, getattr(d, "lineno", bfv.lineno),
                    f"the fallback assumes extra={v!r} where the class's model_config does not say, the Pydantic-side base class sets {want!r} and every model inherits it: models without a model_config of their own lose unknown members (e.g. _meta) under the fallback only"))
    return out


def check(P: Project, R: Report) -> None:
    R.rule("R1", "wire names at library serialisers (type-resolved): every model_dump/model_dump_json call in library code whose receiver type (mypy) is, or may contain, a class with an aliased field passes by_alias=True; Any-typed receivers are a frozen table with reasons")
    R.rule("R2", "unknown members survive: no model class sets `extra` to anything but 'allow'; the fallback's constructor keeps leftover keys and its dump iterates the instance dict")
    R.rule("R3", "alias table: every field named `meta` aliases `_meta`, every field with a trailing underscore aliases the stripped name; both backends populate by name and by alias and emit the alias under by_alias")
    facts = typed_facts(P)
    P = canonical_fallback(P, A.MOD_BASE)  # fallback helpers found by role, then read under canonical names
    T = ModelTable(P)
    R.extra["mypy"] = facts.get("mypy")
    R.extra["mypy_cached"] = facts.get("cached")

    # ------------------------------------------------------------------ alias closure
    declaring = {q for q, m in T.models.items() if any(f.alias for f in m.fields.values())}
    R.need(len(declaring) >= 6, f"only {len(declaring)} alias-declaring classes found (8 confirmed by hand)")
    closure: Set[str] = set(declaring)
    changed = True
    while changed:
        changed = False
        for q, m in T.models.items():
            if q in closure:
                continue
            for fi in m.fields.values():
                if any(x.qual in closure for x in T.mentioned_models(m, fi)):
                    closure.add(q)
                    changed = True
                    break
    # subclasses inherit aliased fields through `fields`
    R.extra["alias_declaring_classes"] = sorted(x.split(":")[1] for x in declaring)
    R.extra["alias_closure"] = sorted(x.split(":")[1] for x in closure)
    dotted = {q.replace(":", "."): q for q in T.models}

    def classes_in(type_text: str) -> List[str]:
        return [dotted[t] for t in re.findall(r"chuk_mcp(?:\.\w+)+", type_text or "") if t in dotted]

    # the base class's own generic pass-through of **kwargs lives wherever the base class is defined (it may have been moved
    # to a module of its own)
    base_class_modules = {m_.name for m_ in P.modules.values() if any(isinstance(c_, ast.ClassDef) and c_.name == "McpPydanticBase" for c_ in ast.walk(m_.tree))}
    n_sites = 0
    seen_any = set()
    for c in facts["calls"]:
        if c["kind"] != "member":
            continue
        mod, fn = c["module"], c["function"]
        if mod in SKIP_MODULES or (mod, fn) in SKIP_FUNCS or mod in base_class_modules:
            continue
        n_sites += 1
        R.call_sites += 1
        where = f"{c['file']}:{c['line']}"
        rt = c["receiver_type"] or "None"
        by_alias = "by_alias" in (c["arg_names"] or []) or "by_alias" in _ast_keywords(P, mod, c["line"], c["name"])
        if (rt in ("Any", "None") or rt.startswith("Any")) and c.get("receiver_name"):
            # an untyped parameter of a module-level helper: typed one step up, by what its call sites pass
            g_ = P.funcs.get(f"{mod}:{fn}")
            if g_ is not None and g_.cls is None and c["receiver_name"] in g_.positional_params():
                idx_ = g_.positional_params().index(c["receiver_name"])
                sites_ = [x for x in facts["calls"] if x["kind"] == "pkgcall" and x["fullname"] == f"{mod}.{fn}"]
                tys_ = []
                for x in sites_:
                    if idx_ < len(x["arg_types"]) and x["arg_names"][idx_] is None:
                        tys_.append(x["arg_types"][idx_])
                    elif c["receiver_name"] in (x["arg_names"] or []):
                        tys_.append(x["arg_types"][x["arg_names"].index(c["receiver_name"])])
                    else:
                        tys_.append(None)
                if sites_ and all(t_ and t_ != "Any" and not t_.startswith("Any") for t_ in tys_):
                    rt = " | ".join(tys_)
        if rt in ("Any", "None") or rt.startswith("Any"):
            key = (mod, fn)
            seen_any.add(key)
            logged = _only_logged(P, mod, c["line"], c["name"])
            # a table entry follows its function under a new name or into another module (same unit, by fingerprint)
            inl_ = getattr(P, "inliner", None)
            for new_, old_ in (inl_.renamed.items() if inl_ is not None else []):
                if new_.split(":")[0] == mod and new_.split(":")[1].split(".")[-1] == fn:
                    okey = (old_.split(":")[0], old_.split(":")[1].split(".")[-1])
                    if okey in ANY_RECEIVERS:
                        key = okey
            seen_any.add(key)
            if key not in ANY_RECEIVERS and mod.startswith("chuk_mcp.transports.") and not logged:
                # the carriers move JSON-RPC envelopes and nothing else (what they take off the outgoing stream, what they
                # parse from the wire); a helper of a carrier that serialises "the message" serialises an envelope
                key = ("chuk_mcp.transports.http.transport", "_send_message_internal")
            why_ = ANY_RECEIVERS.get(key) or ("its result is only formatted into a log record; not wire data" if logged else None)
            R.ob("R1", f"{mod}:{fn}: Any-typed receiver is a known, justified site", why_ is not None, where,
                 why_ or "a model_dump on an untyped receiver that is not in the justified table: its class may carry aliases", sample=f"R1 {mod}:{fn} receiver Any — {(why_ or 'UNJUSTIFIED')[:80]}")
            continue
        cls = classes_in(rt)
        aliased = [q for q in cls if q in closure]
        if aliased:
            R.ob("R1", f"{mod}:{fn}: {c['name']} on {'/'.join(q.split(':')[1] for q in aliased)} passes by_alias", by_alias, where,
                 f"receiver type `{rt[:120]}` carries wire aliases ({', '.join(sorted({f.alias for q in aliased for f in T.models[q].fields.values() if f.alias}) or ['via a nested model'])}); without by_alias=True the Python attribute name is emitted",
                 sample=f"R1 {mod}:{fn}: {c['name']}({', '.join(a for a in c['arg_names'] if a)}) on {aliased[0].split(':')[1]}")
        else:
            R.ob("R1", f"{mod}:{fn}: {c['name']} on an alias-free type", True, where, f"receiver `{rt[:100]}` has no aliased member")
    R.need(n_sites >= 12, f"only {n_sites} library model_dump sites seen by mypy (≥15 confirmed by hand)")
    # the getattr-fetched dump in the stdio writer and the transports serialise envelopes: envelopes carry no alias
    for cname in ("JSONRPCRequest", "JSONRPCNotification", "JSONRPCResponse", "JSONRPCError", "JSONRPCMessage"):
        q = f"{A.MOD_JSONRPC}:{cname}"
        R.need(q in T.models, f"anchor vanished: {cname}")
        R.ob("R1", f"envelope {cname} declares no alias", q not in declaring, T.models[q].ci.module.rel, "an aliased envelope member would be emitted under its Python name by the transports (they dump without by_alias)")
    # library helpers that build dicts for the wire by hand from alias-bearing models: dumps of nested members
    # ------------------------------------------------------------------ R4: hooks leave members alone
    R.rule("R4", "members are preserved exactly: no construction/validation hook of a protocol model class — its own or one inherited from any package class, mixins included — stores into the instance (self.x = …, setattr, object.__setattr__, __dict__ writes), and no Pydantic validator/serializer decorator transforms a value")
    from ..models import PYDANTIC_DECORATORS

    HOOKS = ("model_post_init", "__post_init__", "__init__", "__setattr__", "model_validate", "model_dump", "model_dump_json")
    n_hook = 0
    for q, m in sorted(T.models.items()):
        if m.ci.module.name.startswith("chuk_mcp.transports."):
            continue  # transport parameter classes are configuration, not wire views
        chain = [m.ci] + T.package_bases(m.ci)
        for ci2 in chain:
            for f in P.methods(ci2).values():
                deco = [ast.unparse(d.func if isinstance(d, ast.Call) else d).split(".")[-1] for d in f.node.decorator_list]
                pyd = [d for d in deco if d in PYDANTIC_DECORATORS]
                if f.name not in HOOKS and not pyd:
                    continue
                if f.name in ("model_dump", "model_dump_json", "model_validate") and ci2.module.name == A.MOD_JSONRPC:
                    continue  # the legacy envelope's dump overrides are C02-R5's subject (top-level None filter only)
                n_hook += 1
                R.fn(f.fq)
                selfname = (f.positional_params() or ["self"])[0]
                writes = []
                for n in (x for stmt in f.node.body for x in walk_local(stmt)):
                    if isinstance(n, (ast.Assign, ast.AugAssign, ast.AnnAssign)):
                        tgs = n.targets if isinstance(n, ast.Assign) else [n.target]
                        for t in tgs:
                            for tt in ast.walk(t):
                                if isinstance(tt, ast.Attribute) and isinstance(tt.value, ast.Name) and tt.value.id == selfname and isinstance(tt.ctx, ast.Store):
                                    writes.append(f"line {n.lineno}: `{ast.unparse(t)} = …`")
                                if isinstance(tt, ast.Subscript) and ast.unparse(tt.value) in (f"{selfname}.__dict__", f"vars({selfname})"):
                                    writes.append(f"line {n.lineno}: `{ast.unparse(t)} = …`")
                    if isinstance(n, ast.Call):
                        cn = call_name(n)
                        if cn in ("setattr", "object.__setattr__", "super().__setattr__") and n.args and ast.unparse(n.args[0]) == selfname or cn in (f"{selfname}.__dict__.update", f"{selfname}.__dict__.pop", f"{selfname}.__dict__.setdefault"):
                            writes.append(f"line {n.lineno}: `{ast.unparse(n)[:50]}`")
                if pyd and any(d in ("field_validator", "validator", "model_validator", "root_validator", "field_serializer", "model_serializer") for d in pyd):
                    # a validator must hand back the value it was given
                    vparams = [p_ for p_ in f.positional_params() if p_ not in ("cls", "self")]
                    for r in walk_local(f.node):
                        if isinstance(r, ast.Return) and r.value is not None and not (isinstance(r.value, ast.Name) and r.value.id in vparams):
                            writes.append(f"line {r.lineno}: @{pyd[0]} returns `{ast.unparse(r.value)[:40]}`, not its input")
                R.ob("R4", f"{m.name}: hook {ci2.name}.{f.name} leaves the members alone", not writes, f"{ci2.module.rel}:{f.node.lineno}",
                     f"{m.name} is not a lossless view: " + "; ".join(writes[:3]) + " — a member that came off the wire is replaced, so validate → dump no longer returns it exactly",
                     sample=f"R4 {m.name} ← {ci2.name}.{f.name}: no store into the instance")
    R.ob("R4", "construction hooks of protocol models were examined", n_hook >= 3, "", f"{n_hook} hooks on protocol model classes and their package bases")

    # ------------------------------------------------------------------ R2
    for q, m in sorted(T.models.items()):
        ex = m.config.get("extra", "allow")
        R.ob("R2", f"{m.name}: extra members are kept", ex == "allow", f"{m.ci.module.rel}:{m.ci.node.lineno}", f"model_config extra={ex!r}: unknown wire members are dropped or rejected")
    base = P.module(A.MOD_BASE)
    funcs, classes, split = fallback_defs(P)
    # pydantic branch default
    pyd_cfg = None
    for n in ast.walk(ast.Module(body=split.body, type_ignores=[])):
        if isinstance(n, ast.Assign) and ast.unparse(n.targets[0]) == "model_config" and isinstance(n.value, ast.Dict):
            pyd_cfg = {k.value: (v.value if isinstance(v, ast.Constant) else ast.unparse(v)) for k, v in zip(n.value.keys, n.value.values) if isinstance(k, ast.Constant)}
            break
        if isinstance(n, ast.Assign) and ast.unparse(n.targets[0]) == "model_config":
            # a named configuration constant (possibly imported): folded
            from ..consteval import try_fold as _tf

            v_ = _tf(P, base, n.value.args[0] if isinstance(n.value, ast.Call) and n.value.args and not n.value.keywords else n.value)
            if isinstance(v_, dict):
                pyd_cfg = dict(v_)
                break
    R.need(pyd_cfg is not None, "anchor: Pydantic-branch model_config not found")
    R.ob("R2", "base config (Pydantic): extra='allow'", pyd_cfg.get("extra") == "allow", base.rel, f"{pyd_cfg}")
    R.ob("R3", "base config (Pydantic): populate_by_name", pyd_cfg.get("populate_by_name") is True, base.rel, f"{pyd_cfg}")
    R.need("McpPydanticBase" in classes, "anchor: fallback McpPydanticBase not found")
    fb = classes["McpPydanticBase"]
    fbm = {s.name: s for s in fb.body if isinstance(s, (ast.FunctionDef, ast.AsyncFunctionDef))}
    bfv = fbm.get("_build_field_values")
    R.need(bfv is not None and "model_dump" in fbm and "_process_aliases" in fbm, "anchor: fallback constructor helpers not found")
    keeps = any(isinstance(c, ast.Call) and call_name(c).endswith(".update") and len(c.args) == 1 and ast.unparse(c.args[0]) in [a.arg for a in bfv.args.args] for c in walk_local(bfv))
    R.ob("R2", "fallback constructor merges leftover keys into the instance", keeps, f"{base.rel}:{bfv.lineno}", "")
    for label, ok, lineno, detail in fallback_extra_obligations(P, base, bfv, fb, pyd_cfg):
        R.ob("R2", label, ok, f"{base.rel}:{lineno}", detail)
    dump = fbm["model_dump"]
    iters = [n for n in walk_local(dump) if isinstance(n, ast.For) and ast.unparse(n.iter) == "self.__dict__.items()"]
    # … or a comprehension over the same items
    iters += [g for n in ast.walk(dump) if isinstance(n, (ast.DictComp, ast.ListComp, ast.GeneratorExp)) for g in n.generators if ast.unparse(g.iter) == "self.__dict__.items()"]
    R.ob("R2", "fallback dump iterates the instance dict (extras included)", len(iters) == 1, f"{base.rel}:{dump.lineno}", "")
    # … and leaves a member out only because the caller asked for it (include / exclude / exclude_none)
    opts = [a.arg for a in dump.args.args + dump.args.kwonlyargs if a.arg not in ("self", "by_alias")]
    loop_body = None
    if iters and isinstance(iters[0], ast.For):
        loop_body = iters[0].body
    elif iters:
        comp = next(n for n in ast.walk(dump) if isinstance(n, (ast.DictComp, ast.ListComp, ast.GeneratorExp)) and iters[0] in n.generators)
        if len(comp.generators) == 1 and isinstance(comp, ast.DictComp):
            # the comprehension read as the loop it abbreviates
            loop_body = [ast.If(test=ast.UnaryOp(op=ast.Not(), operand=c), body=[ast.Continue()], orelse=[]) for c in iters[0].ifs]
            loop_body.append(ast.Assign(targets=[ast.Subscript(value=ast.Name(id="result__", ctx=ast.Load()), slice=comp.key, ctx=ast.Store())], value=comp.value, lineno=comp.lineno))
            loop_body = [ast.fix_missing_locations(ast.copy_location(x, comp)) for x in loop_body]
    if loop_body is not None:
        from ..paths import run_paths as _rp

        def _emit(stmt, st, an2):
            if isinstance(stmt, ast.Assign) and any(isinstance(t, ast.Subscript) and isinstance(t.ctx, ast.Store) for t in stmt.targets):
                return "emit"
            if isinstance(stmt, ast.Expr) and isinstance(stmt.value, ast.Call) and call_name(stmt.value).split(".")[-1] in ("update", "setdefault", "__setitem__"):
                return "emit"
            return None

        la, lo = _rp(ast.Module(body=loop_body, type_ignores=[]), stmt_event_of=_emit, fallible=False)
        n_skip = 0
        for st in list(lo.cont) + list(lo.normal):
            if "emit" in st.events:
                continue
            n_skip += 1
            def _asks(e) -> bool:
                """the expression can only hold when one of the caller's options was given"""
                if isinstance(e, ast.Name):
                    if e.id in la.defs and isinstance(la.defs[e.id][1], ast.AST) and not isinstance(la.defs[e.id][1], ast.stmt):
                        return _asks(la.defs[e.id][1])  # a flag computed first (`skipped = exclude_none and v is None or …`)
                    return e.id in opts
                if isinstance(e, ast.UnaryOp) and isinstance(e.op, ast.Not) and isinstance(e.operand, ast.UnaryOp) and isinstance(e.operand.op, ast.Not):
                    return _asks(e.operand.operand)
                if isinstance(e, ast.BoolOp):
                    return (any if isinstance(e.op, ast.And) else all)(_asks(v) for v in e.values)
                if isinstance(e, ast.Call) and call_name(e) in ("bool", "len") and len(e.args) == 1:
                    return _asks(e.args[0])
                if isinstance(e, ast.Compare) and len(e.ops) == 1 and isinstance(e.ops[0], ast.IsNot) and ast.unparse(e.comparators[0]) == "None":
                    return _asks(e.left)
                return False

            def _parsed(l):
                try:
                    return ast.parse(l, mode="eval").body
                except SyntaxError:
                    return ast.Constant(value=None)

            asked = sorted(l for l in st.lits if _asks(_parsed(l)))
            about = sorted(l[:60] for l in st.lits)[:6]
            R.ob("R2", "fallback dump leaves a member out only at the caller's request (include / exclude / exclude_none)", bool(asked), f"{base.rel}:{dump.lineno}",
                 f"a member of the instance dict is skipped under {about} — no caller option is involved: an unknown wire member with such a name is lost when the object is serialised back",
                 sample=f"R2 member skipped only under `{asked[0] if asked else ''}`")
        R.need(n_skip >= 1 or not opts, "anchor: the fallback dump has caller options but no path that leaves a member out")
        R.extra["fallback_dump_skip_paths"] = n_skip
    elif iters:
        raise AnalysisError("the fallback dump walks the instance dict in a form this rule does not read")
    # ------------------------------------------------------------------ R3
    n_alias = 0
    for q, m in sorted(T.models.items()):
        for fi in m.own_fields.values():
            where = f"{m.ci.module.rel}:{fi.lineno}"
            if fi.name == "meta":
                n_alias += 1
                R.ob("R3", f"{m.name}.meta aliases _meta", fi.alias == "_meta", where, f"alias={fi.alias!r}", sample=f"R3 {m.name}.meta ↔ _meta")
            elif fi.name.endswith("_") and not fi.name.startswith("_"):
                n_alias += 1
                R.ob("R3", f"{m.name}.{fi.name} aliases {fi.name[:-1]}", fi.alias == fi.name[:-1], where, f"alias={fi.alias!r}", sample=f"R3 {m.name}.{fi.name} ↔ {fi.name[:-1]}")
            elif fi.alias is not None:
                n_alias += 1
                R.ob("R3", f"{m.name}.{fi.name} alias {fi.alias!r} is a declared wire name", True, where, "")
        if any(f.alias for f in m.own_fields.values()):
            pbn = m.config.get("populate_by_name", pyd_cfg.get("populate_by_name"))
            R.ob("R3", f"{m.name}: populate_by_name stays enabled", pbn in (True, "True"), f"{m.ci.module.rel}:{m.ci.node.lineno}", f"populate_by_name={pbn!r}")
    R.need(n_alias >= 8, f"only {n_alias} aliased fields found (8 confirmed by hand)")
    pa = fbm["_process_aliases"]
    inv = any(isinstance(n, ast.DictComp) and ast.unparse(n.key) != ast.unparse(n.value) and "__field_aliases__" in ast.unparse(n) for n in walk_local(pa))
    R.ob("R3", "fallback maps alias → field on input", inv, f"{base.rel}:{pa.lineno}", "")
    # (the alias map may be read into a local first: `aliases = self.__class__.__field_aliases__`)
    alias_locals = {t.id for s_ in walk_local(dump) if isinstance(s_, ast.Assign) and "__field_aliases__" in ast.unparse(s_.value) for t in s_.targets if isinstance(t, ast.Name)}
    out_alias = any(isinstance(n, (ast.If, ast.IfExp)) and "by_alias" in ast.unparse(n.test) and ("__field_aliases__" in ast.unparse(n) or any(isinstance(x, ast.Name) and x.id in alias_locals for x in ast.walk(n))) for n in ast.walk(dump))
    R.ob("R3", "fallback emits the alias under by_alias", out_alias, f"{base.rel}:{dump.lineno}", "")
    # class-level caches of the fallback must be keyed by class identity: class *names* are not unique in this package
    from .c09 import class_cache_keys

    dup, keys = class_cache_keys(T, fbm)
    R.extra["duplicate_model_class_names"] = dup
    for mname, kt, full, ok, lineno in keys:
        R.ob("R3", f"fallback {mname}: cache key `{kt}` identifies the class", ok, f"{base.rel}:{lineno}",
             f"key `{full}` is built from the class name only; {len(dup)} model class names are defined twice ({', '.join(dup[:4])}…), so two different classes would share one cache entry (e.g. an alias map)")
    def _nested_dumps(fn_node, seen):
        """(call, function it stands in) for each `.model_dump(…)` of a nested value, through the fallback's own helpers"""
        out_ = []
        for c in walk_local(fn_node):
            if not isinstance(c, ast.Call):
                continue
            if call_name(c).endswith(".model_dump"):
                out_.append((c, fn_node))
            g = funcs.get(c.func.id) if isinstance(c.func, ast.Name) else (fbm.get(c.func.attr) if isinstance(c.func, ast.Attribute) and isinstance(c.func.value, ast.Name) and c.func.value.id in ("self", "cls") else None)
            if g is not None and g.name not in seen and g.name != "model_dump":
                seen.add(g.name)
                out_ += _nested_dumps(g, seen)
        return out_

    def _hands_on_by_alias(c: ast.Call, fn_node) -> bool:
        if kwarg(c, "by_alias") is not None:
            return ast.unparse(kwarg(c, "by_alias")) == "by_alias"
        # `value.model_dump(**options)`: every caller of the helper builds `options` with the running call's by_alias in it
        stars = [k.value for k in c.keywords if k.arg is None]
        if len(stars) != 1 or not isinstance(stars[0], ast.Name):
            return False
        pname = stars[0].id
        params = [a.arg for a in fn_node.args.args]
        if pname not in params or any(isinstance(x, ast.Name) and x.id == pname and not isinstance(x.ctx, ast.Load) for x in walk_local(fn_node)):
            return False
        pos = params.index(pname)
        ok_, n_ext = True, 0
        for host in list(funcs.values()) + list(fbm.values()):
            for k in walk_local(host):
                if isinstance(k, ast.Call) and ((isinstance(k.func, ast.Name) and k.func.id == fn_node.name) or (isinstance(k.func, ast.Attribute) and k.func.attr == fn_node.name)):
                    a = k.args[pos] if pos < len(k.args) else kwarg(k, pname)
                    if host is fn_node and isinstance(a, ast.Name) and a.id == pname:
                        continue  # the helper handing its own options on to itself
                    n_ext += 1
                    given = None
                    if isinstance(a, ast.Call) and call_name(a) == "dict" and not a.args:
                        given = kwarg(a, "by_alias")
                    elif isinstance(a, ast.Dict):
                        given = next((v for kk, v in zip(a.keys, a.values) if isinstance(kk, ast.Constant) and kk.value == "by_alias"), None)
                    ok_ = ok_ and given is not None and ast.unparse(given) == "by_alias" and "by_alias" in [x.arg for x in host.args.args + host.args.kwonlyargs]
        return ok_ and n_ext >= 1

    nested = _nested_dumps(fbm.get("_serialize_value", dump), set())
    R.ob("R3", "fallback passes by_alias down to nested models", bool(nested) and all(_hands_on_by_alias(c, f_) for c, f_ in nested), base.rel, "")

    # model configuration that rewrites or restricts values (only Pydantic reads it)
    from ..models import config_findings

    cf = config_findings(T)
    for m, k, v, effect in cf:
        R.ob("R4", f"{m.name}: model_config sets nothing that rewrites or rejects a member", False, f"{m.ci.module.rel}:{m.ci.node.lineno}",
             f"model_config[{k!r}] = {v!r} {effect}: a spec-valid member is changed or refused on validation (and only under Pydantic)")
    if not cf:
        R.ob("R4", "no protocol model's configuration rewrites or restricts member values", True, base.rel, "", sample=f"R4 model_config keys in use: {sorted({k for m in T.models.values() for k in m.config})}")

    # ------------------------------------------------------------------ R5: no constraint beyond the MCP schema's own
    R.rule("R5", "a spec-valid wire object is accepted: the only value constraints (Field ge/le/gt/lt/min_length/max_length/pattern/multiple_of) on protocol model fields are the ones the MCP schema itself states — the four 0‥1 priorities; any other constraint refuses members the specification allows")
    SCHEMA_CONSTRAINTS = {
        ("ModelPreferences", "costPriority"): {"ge": 0.0, "le": 1.0},  # schema: @minimum 0 @maximum 1
        ("ModelPreferences", "speedPriority"): {"ge": 0.0, "le": 1.0},
        ("ModelPreferences", "intelligencePriority"): {"ge": 0.0, "le": 1.0},
        ("Annotations", "priority"): {"ge": 0.0, "le": 1.0},
    }
    n_con = 0
    from ..consteval import try_fold as _fold

    for q, m in sorted(T.models.items()):
        for fi in m.own_fields.values():
            if not fi.constraints or not m.ci.module.name.startswith("chuk_mcp.protocol."):
                continue  # (transport/host parameter classes are configuration, not wire objects)
            n_con += 1
            want = SCHEMA_CONSTRAINTS.get((m.name, fi.name))
            got = {}
            for k, v in fi.constraints.items():
                try:
                    got[k] = float(v)
                except (TypeError, ValueError):
                    fv = _fold(P, m.ci.module, ast.parse(v, mode="eval").body) if isinstance(v, str) else v
                    got[k] = float(fv) if isinstance(fv, (int, float)) and not isinstance(fv, bool) else (fv if fv is not None else v)
            R.ob("R5", f"{m.name}.{fi.name}: constrained exactly as the MCP schema constrains it", want is not None and got == want, f"{m.ci.module.rel}:{fi.lineno}",
                 f"Field constraints {got} " + ("differ from the schema's " + str(want) if want is not None else "have no counterpart in the MCP schema: a wire object the specification allows (any string / any number here) is refused on validation, by both backends where the fallback reads the constraint"),
                 sample=f"R5 {m.name}.{fi.name}: {got}")
    R.need(n_con >= 4, f"only {n_con} constrained fields found (4 confirmed by hand)")


    # ------------------------------------------------------------------ R6: a declared default belongs to one object
    R.rule("R6", "an added member is the declared default, for every object: the no-Pydantic backend hands `field.default` to each new instance as it is (no copy), so no protocol model declares a mutable value — a constructed object, a list/dict/set display — as a plain default; mutable defaults go through default_factory (Pydantic copies plain defaults per instance, the fallback shares them: a change made through one object shows up as the 'default' of every later one)")
    fb_base = P.module(A.MOD_BASE)
    builder = next((f for f in P.funcs_in(A.MOD_BASE) if f.name == "_build_field_values"), None)
    copies = None
    if builder is not None:
        for s_ in walk_local(builder.node):
            if isinstance(s_, ast.Assign) and any(isinstance(x, ast.Attribute) and x.attr == "default" for x in ast.walk(s_.value)) and not isinstance(s_.value, ast.Compare):
                v_ = s_.value
                copies = isinstance(v_, ast.Call) and call_name(v_).split(".")[-1] in ("deepcopy", "copy")
    R.need(copies is not None, "anchor: where the fallback constructor takes a field's plain default was not found")
    IMMUTABLE_CALLS = {"frozenset", "tuple", "str", "int", "float", "bool", "bytes", "Field"}
    n_def = 0
    n_mut = 0
    for q, m in sorted(T.models.items()):
        if not m.ci.module.name.startswith("chuk_mcp.protocol."):
            continue
        for fi in m.own_fields.values():
            d = fi.default
            if isinstance(d, ast.Call) and ast.unparse(d.func).split(".")[-1] == "Field":
                d = next((k.value for k in d.keywords if k.arg == "default"), d.args[0] if d.args else None)
            if d is None:
                continue
            n_def += 1
            mutable = isinstance(d, (ast.List, ast.Dict, ast.Set, ast.ListComp, ast.DictComp, ast.SetComp)) or (isinstance(d, ast.Call) and ast.unparse(d.func).split(".")[-1] not in IMMUTABLE_CALLS)
            if mutable:
                n_mut += 1
                R.ob("R6", f"{m.name}.{fi.name}: the declared default is not one object shared by all instances", bool(copies), f"{m.ci.module.rel}:{fi.lineno}",
                     f"default `{ast.unparse(d)[:60]}` is evaluated once, at class creation; {builder.qual if builder else 'the fallback constructor'} assigns that very object to every instance that omits the member — after `obj.{fi.name}.<member> = …` on any one of them, every later object built from a wire object without `{fi.name}` serialises the changed value as its default")
    R.ob("R6", "plain defaults of protocol models are immutable values (or the fallback copies them)", n_mut == 0 or bool(copies), fb_base.rel + f":{builder.node.lineno if builder else 1}", f"{n_def} plain defaults, {n_mut} mutable, fallback copies: {bool(copies)}",
         sample=f"R6 {n_def} plain defaults, {n_mut} mutable")
    R.need(n_def >= 30, f"only {n_def} plain field defaults seen")

    # ------------------------------------------------------------------ R7: the envelope's own dump leaves the payload alone
    from ..lift import lift

    lift(P, R, "C02", {"R5"}, "R7",
         "validate → dump returns every member of the input: an envelope class that overrides model_dump / model_dump_json only filters absent top-level members and never rewrites what is inside params, result, error or an unknown extension member (the override obligations of C02-R5, read here for 'every member of the input is preserved exactly, unknown members included')",
         "envelope: ", min_n=1, suffix=" — an explicit null inside a free-form payload (tool arguments, structuredContent, a schema's default, an extension member) is a member of the input and is gone from the output")
