"""Chunk-independence rules shared by the stream readers (stdio C05, http C11, sse C12).

A reader is independent of how its input is chunked only if (a) every chunk is
appended to the carry-over buffer — the only chunk that may be skipped is the
empty one —, (b) lines are cut at the constant LF only (no computed separator,
no `splitlines`, which also cuts at U+0085/U+2028/U+2029 and friends), and (c)
offsets into the *text* buffer never derive from the length of a *bytes* chunk."""
from __future__ import annotations

import ast
from typing import List, Optional

from ..model import FuncInfo, call_name, walk_local
from ..paths import PState, PathAnalysis, run_paths
from ..report import Report


def accumulate_var(loop: ast.AST) -> Optional[str]:
    for s in walk_local(loop):
        if isinstance(s, ast.AugAssign) and isinstance(s.op, ast.Add) and isinstance(s.target, ast.Name):
            return s.target.id
    return None


def no_discard_before_accumulate(R: Report, rule: str, f: FuncInfo, loop: ast.AST, label: str) -> None:
    chunk = ast.unparse(loop.target)
    buf = accumulate_var(loop)
    if buf is None:
        # carried over in another spelling (`text = tail + decode(chunk)` … `tail = rest`): something assigned in the loop is
        # joined with what the loop reads — an accumulation these rules do not read, not a missing one
        stored_in_loop = {t_.id for s_ in walk_local(loop) if isinstance(s_, ast.Assign) for t_ in s_.targets if isinstance(t_, ast.Name)} | \
            {e_.id for s_ in walk_local(loop) if isinstance(s_, ast.Assign) for t_ in s_.targets if isinstance(t_, ast.Tuple) for e_ in t_.elts if isinstance(e_, ast.Name)}
        joins = [b_ for b_ in walk_local(loop) if isinstance(b_, ast.BinOp) and isinstance(b_.op, ast.Add) and any(isinstance(x_, ast.Name) and x_.id in stored_in_loop for x_ in (b_.left, b_.right))]
        if joins:
            from ..model import AnalysisError as _AE

            raise _AE(f"{f.module.rel}:{loop.lineno}: the read loop carries text over as `{ast.unparse(joins[0])[:50]}` — a shape this rule cannot read (expected `buffer += chunk`)")
        R.ob(rule, f"{label}: every chunk is appended to a carry-over buffer", False, f"{f.module.rel}:{loop.lineno}", "no `buffer += …` in the read loop: a line cut by a chunk boundary is lost")
        return

    def sev(stmt, st, an):
        if isinstance(stmt, ast.AugAssign) and isinstance(stmt.target, ast.Name) and stmt.target.id == buf:
            return "acc"
        return None

    an, out = run_paths(ast.Module(body=loop.body, type_ignores=[]), stmt_event_of=sev, fallible=False)
    bad = []
    for st in list(out.cont) + list(out.normal) + list(out.brk):
        if "acc" in st.events:
            continue
        lits = {l for l in st.lits if chunk in l}
        if f"not {chunk}" in st.lits:
            continue
        bad.append(sorted(lits))
    R.ob(rule, f"{label}: only an empty chunk is skipped before it is appended to the buffer", not bad, f"{f.module.rel}:{loop.lineno}",
         f"an iteration ends without `{buf} += …` under {bad[:2]}: content that arrives in a chunk of its own (e.g. a line terminator) is discarded, so delivery depends on the chunking",
         sample=f"{rule} {label}: skip-before-accumulate paths only under `not {chunk}`")


def line_cut_discipline(R: Report, rule: str, f: FuncInfo, scope: ast.AST, subjects: List[str], label: str) -> None:
    """Every call that cuts or searches `subjects` (buffer / text) for line ends uses the constant LF."""
    n = 0
    for c in walk_local(scope):
        if not (isinstance(c, ast.Call) and isinstance(c.func, ast.Attribute)):
            continue
        m = c.func.attr
        base = c.func.value
        base_names = {x.id for x in ast.walk(base) if isinstance(x, ast.Name)}
        if not (base_names & set(subjects)):
            continue
        if m == "splitlines":
            n += 1
            R.ob(rule, f"{label}: lines are cut at LF only", False, f"{f.module.rel}:{c.lineno}", "splitlines() also cuts at U+0085, U+2028, U+2029, VT, FF…: a JSON string containing one of them is torn apart")
        elif m in ("split", "rsplit", "partition", "rpartition", "find", "rfind", "index", "rindex"):
            n += 1
            a0 = c.args[0] if c.args else None
            ok = isinstance(a0, ast.Constant) and a0.value in ("\n", b"\n")
            R.ob(rule, f"{label}: lines are cut at LF only", ok, f"{f.module.rel}:{c.lineno}",
                 f"`{ast.unparse(c)[:60]}` cuts at `{ast.unparse(a0) if a0 is not None else 'whitespace'}`, not at the constant LF: a body that mixes CRLF and LF line ends (or contains the separator inside data) is cut in the wrong places")
    test_in = [n_ for n_ in walk_local(scope) if isinstance(n_, ast.Compare) and len(n_.ops) == 1 and isinstance(n_.ops[0], ast.In) and ast.unparse(n_.comparators[0]) in subjects and isinstance(n_.left, ast.Constant)]
    for t in test_in:
        R.ob(rule, f"{label}: line-end tests look for LF", t.left.value in ("\n", b"\n"), f"{f.module.rel}:{t.lineno}", f"`{ast.unparse(t)}`")
    if n == 0:
        R.ob(rule, f"{label}: lines are cut at LF only", False, f"{f.module.rel}:{getattr(scope, 'lineno', 0)}", "no line-cutting call found on the buffer")


def no_byte_length_offsets(R: Report, rule: str, f: FuncInfo, loop: ast.AST, label: str) -> None:
    """`len(<chunk>)` of a chunk that may be bytes must not flow into positions of the text buffer."""
    chunk = ast.unparse(loop.target)
    buf = accumulate_var(loop)
    may_be_bytes = any(isinstance(c, ast.Call) and call_name(c) == "isinstance" and len(c.args) == 2 and ast.unparse(c.args[0]) == chunk and "bytes" in ast.unparse(c.args[1]) for c in walk_local(loop))
    if not may_be_bytes or buf is None:
        return
    tainted = set()
    for s in walk_local(loop):
        val = None
        tgt = None
        if isinstance(s, ast.Assign) and len(s.targets) == 1 and isinstance(s.targets[0], ast.Name):
            tgt, val = s.targets[0].id, s.value
        elif isinstance(s, ast.AugAssign) and isinstance(s.target, ast.Name):
            tgt, val = s.target.id, s.value
        if val is not None and any(isinstance(c, ast.Call) and call_name(c) == "len" and c.args and ast.unparse(c.args[0]) == chunk for c in ast.walk(val)):
            tainted.add(tgt)
    bad = []
    for n in walk_local(loop):
        if isinstance(n, ast.Call) and isinstance(n.func, ast.Attribute) and isinstance(n.func.value, ast.Name) and n.func.value.id == buf:
            for a in n.args[1:]:
                if {x.id for x in ast.walk(a) if isinstance(x, ast.Name)} & tainted:
                    bad.append(f"line {n.lineno}: `{ast.unparse(n)[:50]}`")
        if isinstance(n, ast.Subscript) and isinstance(n.value, ast.Name) and n.value.id == buf:
            if {x.id for x in ast.walk(n.slice) if isinstance(x, ast.Name)} & tainted:
                bad.append(f"line {n.lineno}: `{ast.unparse(n)[:50]}`")
    R.ob(rule, f"{label}: positions in the text buffer do not derive from a byte count", not bad, f"{f.module.rel}:{loop.lineno}",
         f"{sorted(tainted)} is computed from len({chunk}) where {chunk} may be bytes, and is used as a character position in `{buf}`: {bad[:2]} — for non-ASCII text bytes ≠ characters, so a line terminator can be skipped")
