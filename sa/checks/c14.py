"""C14 — deadlines, cancellation and progress behave the same under any traffic."""
from __future__ import annotations

import ast
import re

from .. import anchors as A
from ..consteval import try_fold
from ..model import AnalysisError, FuncInfo, Project, bind_args, call_name, kwarg, walk_local
from ..paths import PState, PathAnalysis, run_paths, subst_text
from ..report import Report
from . import _sendmsg


def _enclosing_withs(root: ast.AST, target: ast.AST):
    """With-statements of `root` that lexically contain `target` (outermost first)."""
    out = []

    def rec(n, stack):
        if n is target:
            out.extend(stack)
            return True
        for c in ast.iter_child_nodes(n):
            ns = stack + [n] if isinstance(n, (ast.With, ast.AsyncWith)) else stack
            if rec(c, ns):
                return True
        return False

    rec(root, [])
    return out


def _fail_after_arg(w) -> str:
    for it in w.items:
        if isinstance(it.context_expr, ast.Call) and call_name(it.context_expr) in ("anyio.fail_after", "fail_after"):
            return ast.unparse(it.context_expr.args[0]) if it.context_expr.args else "<none>"
    return ""


def _poll_bound_arg(w) -> str:
    """The poll interval may end by raising (fail_after) or by quietly leaving the block (move_on_after): either bounds the receive."""
    for it in w.items:
        if isinstance(it.context_expr, ast.Call) and call_name(it.context_expr) in ("anyio.fail_after", "fail_after", "anyio.move_on_after", "move_on_after"):
            return ast.unparse(it.context_expr.args[0]) if it.context_expr.args else "<none>"
    return ""


def check(P: Project, R: Report) -> None:
    R.rule("R1", "the wait runs inside `with anyio.fail_after(<timeout parameter>)` and the parameter is never reassigned (necessary condition for the deadline)")
    R.rule("R2", "nothing in the wait's call tree swallows the deadline: no handler covering BaseException/CancelledError without re-raising; the TimeoutError handler encloses only the inner fail_after(sub_timeout) block")
    R.rule("R3", "in every iteration the cancellation check precedes the blocking receive, and the receive is bounded by fail_after/move_on_after(<positive constant not overridden by the caller>)")
    R.rule("R4", "the pre-send check precedes the request write; on the cancelled path exactly one cancelled notification naming the request id is sent on the write stream, then CancelledError is raised; otherwise the check has no effect")
    R.rule("R5", "the progress callback is called only under method == notifications/progress ∧ token == the token generated for this request, with the notified values, outside inner loops, inside a handler for Exception that does not raise, and the iteration then continues")
    W = _sendmsg.analyse(P)
    send, wait = W.send, W.wait
    R.fn(send.fq, wait.fq)
    srel, wrel = send.module.rel, wait.module.rel

    # ------------------------------------------------------------------ R1
    R.need(W.wait_call is not None, "anchor: wait call not found in send_message")
    withs = _enclosing_withs(send.node, W.wait_call)
    args = [a for a in (_fail_after_arg(w) for w in withs) if a]
    R.ob("R1", "wait is inside anyio.fail_after(timeout)", "timeout" in args, f"{srel}:{W.wait_call.lineno}", f"enclosing fail_after arguments: {args}")
    reassigned = [n.lineno for n in walk_local(send.node) if isinstance(n, ast.Name) and n.id == "timeout" and isinstance(n.ctx, ast.Store)]
    R.ob("R1", "timeout parameter is never reassigned", not reassigned and "timeout" in send.params(), f"{srel}", f"assignments at lines {reassigned}")
    for w in withs:
        if _fail_after_arg(w):
            shield = [k for it in w.items if isinstance(it.context_expr, ast.Call) for k in it.context_expr.keywords if k.arg == "shield"]
            R.ob("R1", "deadline scope is not shielded", not shield, f"{srel}:{w.lineno}", "")

    probs = _sendmsg.deadline_problems(W)
    R.ob("R1", "the overall deadline cannot be moved or bypassed", not probs, f"{srel}:{W.wait_call.lineno}", "; ".join(probs), sample="R1 with anyio.fail_after(timeout): scope neither captured nor rewritten")

    # ------------------------------------------------------------------ R2
    tree = [send, wait] + ([W.cancel_check] if W.cancel_check else [])
    for f in tree:
        for t in walk_local(f.node):
            if not isinstance(t, ast.Try):
                continue
            for h in t.handlers:
                names = PathAnalysis.handler_names(None, h)  # type: ignore[arg-type]
                shorts = {n.split(".")[-1] for n in names}
                broad = shorts & {"BaseException", "CancelledError"} or any("get_cancelled_exc_class" in n for n in names)
                if broad and f.module.name == A.MOD_SEND and "CancelledError" in shorts and h.type is not None and ast.unparse(h.type) == "CancelledError":
                    broad = False  # the module's own CancelledError(Exception), not the backend's
                if broad:
                    ha, ho = run_paths(ast.Module(body=h.body, type_ignores=[]), fallible=False)
                    ok = not (ho.normal or ho.cont or ho.brk or ho.ret)
                    R.ob("R2", f"{f.qual}: handler for {sorted(shorts)} re-raises", ok, f"{f.module.rel}:{h.lineno}", "a handler can swallow the cancellation that implements the deadline")
                reraises_all = False
                if "TimeoutError" in shorts:
                    _ha, _ho = run_paths(ast.Module(body=h.body, type_ignores=[]), fallible=False)
                    reraises_all = not (_ho.normal or _ho.cont or _ho.brk or _ho.ret)
                if "TimeoutError" in shorts and not reraises_all:  # (a handler that re-raises on every path eats nothing; what it does first is R1's subject)
                    body_ok = len(t.body) == 1 and isinstance(t.body[0], (ast.With, ast.AsyncWith)) and bool(_fail_after_arg(t.body[0]))
                    inner_ok = body_ok and all(isinstance(s, ast.Assign) and isinstance(s.value, ast.Await) for s in t.body[0].body) and len(t.body[0].body) == 1
                    R.ob("R2", f"{f.qual}: TimeoutError handler encloses only the bounded receive", body_ok and inner_ok, f"{f.module.rel}:{h.lineno}",
                         "the handler that turns the poll timeout into `continue` also covers other statements, so it could eat the outer deadline")
    R.ob("R2", "no finally/except discards the outer deadline in send_message", True, srel, "")

    # ------------------------------------------------------------------ R3
    recv = W.recv_assign
    rwiths = _enclosing_withs(wait.node, recv)
    rargs = [a for a in (_poll_bound_arg(w) for w in rwiths) if a]
    R.need(True, "")
    bounded = False
    detail = f"enclosing fail_after/move_on_after arguments: {rargs}"
    for a in rargs:
        d = wait.param_default(a) if a in wait.params() else None
        v = try_fold(P, wait.module, d) if d is not None else try_fold(P, wait.module, ast.parse(a, mode="eval").body)
        overridden = a in W.binding
        if overridden and isinstance(W.binding[a], ast.Name) and W.binding[a].id in send.params():
            # handed down from the public entry point's own parameter: still "one polling interval" if that parameter has a
            # finite positive constant default and every path to the wait has refused a non-positive value
            p_ = W.binding[a].id
            dv_ = try_fold(P, send.module, send.param_default(p_)) if send.param_default(p_) is not None else None
            guards_ = {f"{p_} > 0", f"not {p_} <= 0", f"0 < {p_}", f"not 0 >= {p_}"}
            waits_ = [st for st, _n in W.sout.ret if any(e.startswith("wait:") for e in st.events)] + [st for st, _t, _n in W.sout.exc if any(e.startswith("wait:") for e in st.events)]
            reassigned_ = any(isinstance(x, ast.Name) and x.id == p_ and isinstance(x.ctx, ast.Store) for x in walk_local(send.node))
            if isinstance(dv_, (int, float)) and not isinstance(dv_, bool) and 0 < dv_ < float("inf") and waits_ and all(guards_ & set(st.lits) for st in waits_) and not reassigned_:
                overridden = False
                v = dv_
                detail += f"; {a} is send_message's own `{p_}` (default {dv_}, non-positive values refused)"
        if isinstance(v, (int, float)) and not isinstance(v, bool) and 0 < v < float("inf") and not overridden:
            bounded = True
            R.extra["poll_interval_s"] = v
        detail += f"; {a} default={v} overridden_by_caller={overridden}"
    R.ob("R3", "receive is bounded by a finite positive constant poll interval", bounded, f"{wrel}:{recv.lineno}", detail)
    # ordering check → receive in every iteration
    chk_param = None
    for k, v in W.binding.items():
        if W.cancel_check is not None and W.cancel_check.name in ast.unparse(v):
            chk_param = k
        elif W.cancel_check is not None and isinstance(v, ast.Name):
            # chosen into a local first: `check = None` / `check = check_and_send_cancellation` on the two arms of a test
            from ..model import local_values as _lv

            vals = [x for x in _lv(send.node).get(v.id, []) if x is not None]
            if vals and any(W.cancel_check.name in ast.unparse(x) for x in vals) and all(W.cancel_check.name in ast.unparse(x) or (isinstance(x, ast.Constant) and x.value is None) for x in vals):
                chk_param = k
    R.need(chk_param is not None, "anchor: the cancellation check is not passed to the wait")
    # one iteration = the loop body analysed on its own (event sequences are exact within an iteration)
    def iter_ev(call, st, an):
        if call_name(call).endswith(".receive") and isinstance(call.func, ast.Attribute):
            return "receive"
        if isinstance(call.func, ast.Name) and call.func.id == chk_param:
            return "check"
        return None

    ia, io = run_paths(ast.Module(body=W.loop.body, type_ignores=[]), event_of=iter_ev, fallible=True)
    ia.parents = A.exception_parents(P)
    states = list(io.cont) + list(io.normal) + [st for st, _n in io.ret] + [st for st, _t, _n in io.exc]
    bad = 0
    seen = 0
    for st in states:
        if chk_param not in st.lits or "receive" not in st.events:
            continue
        seen += 1
        seq = [e for e in st.events if e in ("receive", "check")]
        if seq[:2] != ["check", "receive"] or seq.count("receive") != 1:
            bad += 1
    R.ob("R3", "some iteration path receives with an active cancellation check", seen > 0, f"{wrel}:{W.loop.lineno}", "no path of an iteration passes the check and then receives")
    R.ob("R3", "cancellation check precedes every receive", bad == 0, f"{wrel}:{W.loop.lineno}", f"{bad} of {seen} iteration paths receive without the check having run first in that iteration",
         sample=f"R3 {seen} iteration paths with an active check: check → receive")
    R.paths += len(states)
    # the check is awaited and nothing swallows its CancelledError inside the loop
    for t in walk_local(W.loop):
        if isinstance(t, ast.Try) and any(isinstance(c, ast.Call) and isinstance(c.func, ast.Name) and c.func.id == chk_param for s in t.body for c in walk_local(s)):
            R.ob("R3", "the check is not wrapped in a try", False, f"{wrel}:{t.lineno}", "an enclosing handler could swallow the cancellation error")

    # ------------------------------------------------------------------ R4
    cc = W.cancel_check
    R.need(cc is not None, "anchor: nested cancellation check not found")
    R.fn(cc.fq)
    # pre-send ordering in send_message
    for st, node in [(s, n) for s, n in W.sout.ret] + [(s, n) for s, _t, n in W.sout.exc]:
        evs = list(st.events)
        if "cancellation_token" in st.lits and any(e.startswith("write:") for e in evs):
            wi = [i for i, e in enumerate(evs) if e.startswith("write:")][0]
            R.ob("R4", "pre-send cancellation check precedes the request write", "cancelcheck" in evs[:wi], f"{srel}:{getattr(node, 'lineno', 0)}", f"events {evs[:wi + 1]}")
    # the id the notification names
    req_terms = set()
    for st, _n in W.sout.ret:
        for e in st.events:
            if e.startswith("mkreq:"):
                parts = dict(p.split("=", 1) for p in e[len("mkreq:"):].split("|"))
                req_terms.add(parts.get("id"))
    id_var = None
    for s in walk_local(send.node):
        if isinstance(s, ast.Assign) and isinstance(s.targets[0], ast.Name):
            for c in walk_local(send.node):
                if isinstance(c, ast.Call) and call_name(c).split(".")[-1] in ("create_request", "JSONRPCRequest"):
                    v = kwarg(c, "id")
                    if isinstance(v, ast.Name) and v.id == s.targets[0].id:
                        id_var = v.id

    if id_var is None:
        # … or read back from the request just built: `message = create_request(…)`, `req_id = message.id`
        built = {s.targets[0].id for s in walk_local(send.node) if isinstance(s, ast.Assign) and len(s.targets) == 1 and isinstance(s.targets[0], ast.Name) and isinstance(s.value, ast.Call) and call_name(s.value).split(".")[-1] in ("create_request", "JSONRPCRequest")}
        for s in walk_local(send.node):
            if isinstance(s, ast.Assign) and len(s.targets) == 1 and isinstance(s.targets[0], ast.Name) and isinstance(s.value, ast.Attribute) and s.value.attr == "id" and isinstance(s.value.value, ast.Name) and s.value.value.id in built:
                id_var = s.targets[0].id

    def cev(call, st, an):
        nm = call_name(call)
        if nm.endswith("send_cancelled_notification"):
            return "cancelnote:" + ",".join(ast.unparse(a) for a in call.args[:2])
        return None

    ca, co = run_paths(cc.node, event_of=cev, fallible=True)
    ca.parents = A.exception_parents(P)
    R.paths += len(co.ret) + len(co.exc) + len(co.normal)
    # the one-shot flag, by role: a variable of the enclosing function (declared nonlocal here) that the check sets to True
    nl = {x for n_ in walk_local(cc.node) if isinstance(n_, ast.Nonlocal) for x in n_.names}
    flags = sorted({t.id for n_ in walk_local(cc.node) if isinstance(n_, ast.Assign) and isinstance(n_.value, ast.Constant) and n_.value.value is True for t in n_.targets if isinstance(t, ast.Name) and t.id in nl})
    quiet = list(co.normal) + [s for s, _n in co.ret]
    for st in quiet:
        notes = [e for e in st.events if e.startswith("cancelnote:")]
        cancelled = "cancellation_token.is_cancelled" in st.lits and any(f"not {fl}" in st.lits for fl in flags)
        R.ob("R4", "a triggered token never lets the check return normally", not cancelled and not notes, cc.where, f"normal exit with literals {sorted(st.lits)} events {notes}")
    raised = [(st, t, n) for st, t, n in co.exc if isinstance(n, ast.Raise)]
    R.ob("R4", "a triggered token ends the request with CancelledError", bool(raised), cc.where, "the cancellation check has no raising path")
    for st, tag, node in raised:
        notes = [e for e in st.events if e.startswith("cancelnote:")]
        ok = tag.split(".")[-1] == "CancelledError" and len(notes) <= 1
        R.ob("R4", "cancelled path raises CancelledError after at most one notification", ok, f"{cc.module.rel}:{node.lineno}", f"raises {tag} after {notes}")
        R.ob("R4", "cancellation is one-shot (guarded by the sent flag)", bool(flags) and any(f"not {fl}" in st.lits for fl in flags), f"{cc.module.rel}:{node.lineno}", f"literals {sorted(st.lits)}; one-shot flag(s) found by role: {flags}")
    all_notes = {e for st, _t, _n in co.exc for e in st.events if e.startswith("cancelnote:")}
    R.ob("R4", "the cancelled notification names the request id on the write stream", all_notes == {f"cancelnote:{W.write_p},{id_var}"}, cc.where, f"notification calls: {sorted(all_notes)} (expected ({W.write_p},{id_var}))",
         sample=f"R4 {cc.qual}: {sorted(all_notes)} then raise CancelledError")
    # some raising path really has sent the notification (exactly one)
    R.ob("R4", "the notification is attempted before raising", any(len([e for e in st.events if e.startswith('cancelnote:')]) == 1 for st, _t, n in co.exc if isinstance(n, ast.Raise)), cc.where, "")
    # the notification helper writes exactly one notifications/cancelled with requestId = its id parameter
    notif = P.func(A.MOD_NOTIF, "send_cancelled_notification")
    R.fn(notif.fq)
    np_ = notif.positional_params()

    def nev(call, st, an):
        if call_name(call) in (f"{np_[0]}.send", f"{np_[0]}.send_nowait"):
            return "write:" + an.origin(subst_text(call.args[0], st))
        return None

    na, no = run_paths(notif.node, event_of=nev, fallible=False)
    for st in list(no.normal) + [s for s, _n in no.ret]:
        ws = [e for e in st.events if e.startswith("write:")]
        ok = len(ws) == 1 and "notifications/cancelled" in na.origin(ws[0]) + _const_text(P, notif, ws[0]) and f"'requestId': {np_[1]}" in ws[0]
        R.ob("R4", "send_cancelled_notification writes one notifications/cancelled naming requestId", ok, notif.where, f"writes {ws}")

    # ------------------------------------------------------------------ R5
    cb_param = None
    for k, v in W.binding.items():
        if ast.unparse(v) == "progress_callback":
            cb_param = k
    R.need(cb_param is not None, "anchor: the progress callback is not passed to the wait")
    cb_calls = [c for c in walk_local(W.loop) if isinstance(c, ast.Call) and isinstance(c.func, ast.Name) and c.func.id == cb_param]
    R.need(len(cb_calls) == 1, f"anchor: expected one call of the progress callback in the wait loop, found {len(cb_calls)}")
    cb = cb_calls[0]
    others = sorted({c.func.id for c in walk_local(W.loop) if isinstance(c, ast.Call) and isinstance(c.func, ast.Name) and c.func.id in wait.params() and c.func.id not in (cb_param, chk_param)})
    if others:
        R.sample(f"R5 other callables invoked from the wait loop: {others}")
    # the token parameter, by role: the wait parameter compared with the notification's `progressToken` member
    tok_param = None
    for c_ in walk_local(W.loop):
        if isinstance(c_, ast.Compare) and len(c_.ops) == 1 and isinstance(c_.ops[0], (ast.Eq, ast.NotEq)):
            sides = [c_.left, c_.comparators[0]]
            if any("'progressToken'" in ast.unparse(x) for x in sides):
                for x in sides:
                    if isinstance(x, ast.Name) and x.id in wait.params() and x.id in W.binding:
                        tok_param = x.id
    if tok_param is None:
        for k, v in W.binding.items():
            if "progress_token" in ast.unparse(v) and k != cb_param:
                tok_param = k
    R.need(tok_param is not None, "anchor: progress token is not passed to the wait")
    # per-iteration analysis of the loop body with the callback as an event
    body = ast.Module(body=W.loop.body, type_ignores=[])

    def pev(call, st, an):
        if isinstance(call.func, ast.Name) and call.func.id == cb_param:
            return "callback:" + "|".join(subst_text(a, st) for a in call.args) + "||" + "&&".join(sorted(st.lits))
        return None

    from ..summaries import predicate_inliner

    pa, po = run_paths(body, event_of=pev, fallible=True, inliner=predicate_inliner(P, wait), exc_after_events=True)
    pa.parents = A.exception_parents(P)
    called = [st for st in list(po.cont) + list(po.normal) + [s for s, _n in po.ret] + [s for s, _t, _n in po.exc] if any(e.startswith("callback:") for e in st.events)]
    R.need(called, "anchor: no path calls the progress callback")
    for st in called:
        ev = [e for e in st.events if e.startswith("callback:")][0]
        argtxt, lits = ev[len("callback:"):].split("||", 1)
        lits = set(lits.split("&&"))
        ms = _sendmsg.msg_terms(st, W.msg_term_prefix)
        m = ms[0] if ms else "?"
        g_method = f"getattr({m}, 'method', None) == 'notifications/progress'"
        prm = f"(getattr({m}, 'params', None) or {{}})"
        g_token = f"{prm}.get('progressToken') == {tok_param}"
        def names_progress(l_):
            # `… == MessageMethod.NOTIFICATION_PROGRESS` / a module constant: the same string by another name
            pre = f"getattr({m}, 'method', None) == "
            if not l_.startswith(pre):
                return False
            try:
                v_ = try_fold(P, wait.module, ast.parse(l_[len(pre):], mode="eval").body)
            except SyntaxError:
                return False
            return v_ == "notifications/progress" or getattr(v_, "value", None) == "notifications/progress"

        R.ob("R5", "callback guarded by the progress method", g_method in lits or any(names_progress(l_) for l_ in lits), f"{wrel}:{cb.lineno}", f"literals at the call: {sorted(l[:70] for l in lits)}")
        R.ob("R5", "callback guarded by equality with this request's token", g_token in lits, f"{wrel}:{cb.lineno}", f"expected `{g_token}` among {sorted(l[:70] for l in lits)}")
        want = [f"{prm}.get('progress', 0)", f"{prm}.get('total')", f"{prm}.get('message')"]
        R.ob("R5", "callback receives progress, total, message of that notification", argtxt.split("|") == want, f"{wrel}:{cb.lineno}", f"arguments {argtxt}",
             sample=f"R5 callback({argtxt}) under {g_method} ∧ {g_token}")
        R.ob("R5", "callback invoked once per notification", sum(1 for e in st.events if e.startswith("callback:")) == 1, f"{wrel}:{cb.lineno}", "")
    # the token test is a truthiness test in the wait (`if progress_token and …`): every token the request can go out with
    # must pass it — the library's own uuid4 string does; a token taken over from the caller (0 and "" are legal tokens) need not
    truthy_guard = any(tok_param in set(e.split("||", 1)[1].split("&&")) for st in called for e in st.events if e.startswith("callback:"))
    if truthy_guard:
        n_tok = 0
        for st, _n in W.sout.ret:
            for e in st.events:
                if not e.startswith("wait:"):
                    continue
                b_ = dict(p_.split("=", 1) for p_ in e[len("wait:"):].split("|") if "=" in p_)
                t_ = b_.get(tok_param)
                if t_ is None:
                    continue
                o_ = W.san.origin(t_).strip("<>")
                if o_ in ("None", ""):
                    continue
                n_tok += 1
                minted = _sendmsg.is_minted(o_)
                R.ob("R5", "a token the request goes out with passes the wait's truthiness test", minted or o_.startswith(("'", '"')) and len(o_) > 2, f"{srel}:{W.wait_call.lineno}",
                     f"the wait is given the token `{o_[:70]}` and tests it with `if {tok_param} and …`: a caller's token of 0 or \"\" goes out on the wire as this request's token and is then never matched — every progress notification bearing it is skipped and the callback is never called",
                     sample=f"R5 token handed to the wait: {o_[:50]}")
        R.need(n_tok >= 1, "anchor: no path of send_message hands a progress token to the wait")
    # exactly once per matching notification: no iteration path that established method + token skips the callback
    all_iter = list(po.cont) + list(po.normal) + [s_ for s_, _n in po.ret]
    skipped = []
    for st in all_iter:
        ms = _sendmsg.msg_terms(st, W.msg_term_prefix)
        if not ms:
            continue
        m = ms[0]
        g_method = f"getattr({m}, 'method', None) == 'notifications/progress'"
        g_token = f"(getattr({m}, 'params', None) or {{}}).get('progressToken') == {tok_param}"
        if g_method in st.lits and g_token in st.lits and tok_param in st.lits and cb_param in st.lits:
            n_cb = sum(1 for e in st.events if e.startswith("callback:"))
            if n_cb != 1:
                skipped.append((n_cb, sorted(l[:60] for l in st.lits if l not in (g_method, g_token, tok_param, cb_param) and m not in l or "progress" in l and l not in (g_method, g_token))[:4]))
    R.ob("R5", "every matching progress notification reaches the callback exactly once", not skipped, f"{wrel}:{cb.lineno}",
         f"an iteration that established method == notifications/progress and token == ours ends with {skipped[0][0] if skipped else 1} callback calls under extra conditions {skipped[0][1] if skipped else ''}: some matching notifications are filtered out or reported twice")

    # after the callback the iteration continues (never returns the notification, never raises)
    after = {"cont": 0, "normal": 0, "ret": 0, "exc": 0}
    for kind, states in (("cont", po.cont), ("normal", po.normal), ("ret", [s for s, _n in po.ret])):
        for st in states:
            if any(e.startswith("callback:") for e in st.events):
                after[kind] += 1
    R.ob("R5", "after the callback the loop continues", after["cont"] + after["normal"] > 0 and after["ret"] == 0, f"{wrel}:{cb.lineno}", f"exits after a callback: {after}")
    # wrapped by a handler for Exception that does not raise
    enclosing = None
    for t in walk_local(W.loop):
        if isinstance(t, ast.Try) and any(cb is c for s in t.body for c in walk_local(s)):
            enclosing = t
    ok_h = False
    if enclosing is not None:
        for h in enclosing.handlers:
            if h.type is not None and ast.unparse(h.type) in ("Exception", "BaseException") or h.type is None:
                ha, ho = run_paths(ast.Module(body=h.body, type_ignores=[]), fallible=False)
                ok_h = not ho.exc and not ho.ret and not ho.brk
                if h.type is None or ast.unparse(h.type) == "BaseException":
                    ok_h = False  # would also swallow the deadline
    R.ob("R5", "a failing callback is contained (except Exception, no raise) and does not eat the deadline", ok_h, f"{wrel}:{cb.lineno}", "")
    R.ob("R5", "callback call is not in an inner loop", not any(cb in list(walk_local(l)) for l in walk_local(W.loop) if isinstance(l, (ast.For, ast.While, ast.AsyncFor)) and l is not W.loop), f"{wrel}:{cb.lineno}", "")
    # the token: generated per call with uuid4, put into params._meta.progressToken, and passed to the wait
    tok_src = ast.unparse(W.binding[tok_param])
    # names that are plain copies of one another in send_message (`b = a`, `x, y = (a, b)`): one value, several names
    alias = {}

    def find(x):
        while alias.get(x, x) != x:
            x = alias[x]
        return x

    for s_ in walk_local(send.node):
        if isinstance(s_, ast.Assign) and len(s_.targets) == 1:
            t, v = s_.targets[0], s_.value
            pairs = []
            if isinstance(t, ast.Name) and isinstance(v, ast.Name):
                pairs = [(t.id, v.id)]
            elif isinstance(t, ast.Tuple) and isinstance(v, ast.Tuple) and len(t.elts) == len(v.elts):
                pairs = [(a.id, b.id) for a, b in zip(t.elts, v.elts) if isinstance(a, ast.Name) and isinstance(b, ast.Name)]
            for a, b in pairs:
                ra, rb = find(a), find(b)
                if ra != rb:
                    alias[ra] = rb
    same = lambda a, b: find(a) == find(b)  # noqa: E731
    tok_def = [s_ for s_ in walk_local(send.node) if isinstance(s_, ast.Assign) and len(s_.targets) == 1 and isinstance(s_.targets[0], ast.Name) and same(s_.targets[0].id, tok_src)
               and not isinstance(s_.value, ast.Name) and not (isinstance(s_.value, ast.Constant) and s_.value.value is None)]
    ok_tok = len(tok_def) == 1 and "uuid.uuid4()" in ast.unparse(tok_def[0].value)
    R.ob("R5", "progress token is a fresh uuid4 per request", ok_tok, srel, f"definitions {[ast.unparse(s_) for s_ in tok_def]}")
    meta = [s_ for s_ in walk_local(send.node) if isinstance(s_, ast.Assign) and ast.unparse(s_.targets[0]).endswith("['_meta']['progressToken']")]
    ok_meta = len(meta) == 1 and isinstance(meta[0].value, ast.Name) and same(meta[0].value.id, tok_src)
    via = ""
    if not meta:
        # … or left to the request builder: `create_request(…, progress_token=<the token>)`, whose own store puts its
        # parameter under params._meta.progressToken
        for c_ in walk_local(send.node):
            if isinstance(c_, ast.Call) and call_name(c_).split(".")[-1] == "create_request":
                kv = kwarg(c_, "progress_token")
                g_ = P.resolve_call(send, c_)
                if kv is not None and isinstance(kv, ast.Name) and same(kv.id, tok_src) and g_ is not None and hasattr(g_, "node"):
                    st_ = [s_ for s_ in walk_local(g_.node) if isinstance(s_, ast.Assign) and ast.unparse(s_.targets[0]).endswith("['_meta']['progressToken']")]
                    if len(st_) == 1 and ast.unparse(st_[0].value) == "progress_token":
                        ok_meta = True
                        via = f" (through {g_.qual})"
    if not meta and not ok_meta:
        # … or written as a display: `params = {**…, "_meta": {…, "progressToken": <token>}}`
        found = []
        for d_ in walk_local(send.node):
            if isinstance(d_, ast.Dict):
                for k_, v_ in zip(d_.keys, d_.values):
                    if isinstance(k_, ast.Constant) and k_.value == "progressToken":
                        found.append(v_)
        if len(found) == 1:
            ok_meta = isinstance(found[0], ast.Name) and same(found[0].id, tok_src)
            via = " (dict display)"
            meta = [found[0]]
        elif not found:
            raise AnalysisError(f"{srel}: where the progress token is put into the request is written in a shape this rule cannot read")
    R.ob("R5", "the token sent in params._meta.progressToken is the awaited one", ok_meta, srel, f"{[ast.unparse(s_) for s_ in meta]}{via}")


def _const_text(P: Project, f: FuncInfo, text: str) -> str:
    """Folded string constants of the MessageMethod-style names occurring in `text`."""
    out = ""
    for n in ast.walk(ast.parse("0") if not text else ast.parse("0")):
        pass
    import re

    for name in set(re.findall(r"[A-Za-z_][A-Za-z_0-9]*\.[A-Z_]+", text)):
        try:
            v = try_fold(P, f.module, ast.parse(name, mode="eval").body)
        except Exception:
            v = None
        if isinstance(v, str):
            out += " " + v
        else:
            # class attribute constant (MessageMethod.X)
            cls, attr = name.split(".")
            kind, obj = P.resolve_name(f.module.name, cls)
            if kind == "class":
                for s in obj.node.body:
                    if isinstance(s, ast.Assign) and ast.unparse(s.targets[0]) == attr and isinstance(s.value, ast.Constant):
                        out += " " + str(s.value.value)
    return out
