"""C18 — concurrent requests on one connection: no cross-talk and no lost responses."""
from __future__ import annotations

import ast

from .. import anchors as A
from ..model import Project, call_name, walk_local
from ..paths import PState, run_paths, subst_text, is_benign_call
from ..report import Report
from . import _sendmsg
from .c01 import id_literal, no_method, not_list, skipped_messages


def check(P: Project, R: Report) -> None:
    R.rule("R1", "no cross-talk: a waiter returns only a method-less, non-list message whose id equals its own request id (same obligation as C01-R1, evaluated on the shared wait loop)")
    R.rule("R2", "no discarding consumer: on every path where a response taken from the shared read stream fails the waiter's id filter, the message is handed on (re-queued or dispatched); a path from receive() to the next iteration that never uses it again loses another caller's response")
    W = _sendmsg.analyse(P)
    R.fn(W.send.fq, W.wait.fq)
    wrel = W.wait.module.rel
    for st, node in W.out.ret:
        ms = _sendmsg.msg_terms(st, W.msg_term_prefix)
        where = f"{wrel}:{node.lineno}"
        if not ms:
            R.ob("R1", "return of a received message", False, where, "default return")
            continue
        m = ms[0]
        ok = id_literal(st, m) is not None and bool(no_method(st, m)) and bool(not_list(st, m))
        R.ob("R1", "a waiter returns only its own response", ok, where, f"literals {sorted(l[:60] for l in st.lits)}",
             sample=f"R1 return carries id=={id_literal(st, m)} ∧ {no_method(st, m)} ∧ {not_list(st, m)}")
    R.paths += len(W.out.ret)

    # one iteration of the loop body, analysed on its own: which exits go round again, and did they hand the message on?
    body = ast.Module(body=W.loop.body, type_ignores=[])

    def ev(call, st, an):
        nm = call_name(call)
        if is_benign_call(call) or nm.endswith(".receive"):
            return None
        args = [subst_text(a, st) for a in call.args] + [subst_text(k.value, st) for k in call.keywords]
        for a in args:
            if W.msg_term_prefix in a and not a.startswith(("getattr(",)):
                return "handoff:" + nm + "(" + a + ")"
        return None

    from ..summaries import predicate_inliner

    ban, bout = run_paths(body, event_of=ev, fallible=False, inliner=predicate_inliner(P, W.wait))
    again = list(bout.cont) + list(bout.normal)
    R.paths += len(again)
    R.need(again, "anchor: the loop body has no path to the next iteration")
    n_foreign = 0
    for st in again:
        ms = _sendmsg.msg_terms(st, W.msg_term_prefix)
        if not ms:
            continue  # nothing was received on this iteration (poll timeout)
        m = ms[0]
        g = f"getattr({m}, 'id', None)"
        foreign = any(l.startswith(g + " != ") or l.startswith(f"{m}.id != ") for l in st.lits)
        if not foreign:
            continue
        if not no_method(st, m) and any("method" in l for l in st.lits if m in l and "is not None" in l):
            continue  # a request/notification, not a response
        n_foreign += 1
        handed = [e for e in st.events if e.startswith("handoff:")]
        R.ob("R2", "wait loop: response with a foreign id is dropped (no hand-off)", bool(handed), f"{wrel}:{W.loop.lineno}",
             "every waiter consumes from the shared stream and discards what is not its own: two outstanding requests can eat each other's answers and both time out",
             sample=f"R2 path receive→next iteration with {sorted(l[:50] for l in st.lits if m in l)} hands on: {handed or 'nothing'}")
    r1_ok = all(o.ok for o in R.obligations if o.rule == "R1")
    R.need(n_foreign >= 1 or not r1_ok, "anchor: no foreign-id path found in the loop body although returns are id-guarded")

    # ------------------------------------------------------------------ R4: a waiter never loses its own response
    R.rule("R4", "a waiter never drops its own response: every path that takes a message off the shared stream and keeps waiting carries a test the waiter's own response cannot pass (other id, a method, a list)")
    ids = {id_literal(st, _sendmsg.msg_terms(st, W.msg_term_prefix)[0]) for st, _n in W.out.ret if _sendmsg.msg_terms(st, W.msg_term_prefix)} - {None}
    for why, about, others in skipped_messages(W, ids, R):
        R.ob("R4", "a message taken off the shared stream is passed over only for a reason the waiter's own response cannot have", bool(why), f"{wrel}:{W.recv_assign.lineno}",
             f"after `{ast.unparse(W.recv_assign)[:60]}` completed the waiter keeps waiting with " + (f"only {about} known about the message" if about else f"nothing tested on the message (path: {others})") + ": its own response, sent within the deadline, is consumed and never returned",
             sample=f"R4 passed over because `{why[:70]}`")

    # ------------------------------------------------------------------ R3: the per-request routing table
    R.rule("R3", "the stdio client's per-request routing table is a map from request id to that request's stream: entries are inserted only by the registration call under the caller's id, looked up and removed by the router only under the id of the message it is routing, and otherwise only touched by the shutdown path — nothing else removes, closes or re-keys another request's entry")
    from . import _stdio

    cl = _stdio.client(P)
    meths = P.methods(cl)
    reg = None
    attr = None
    for f in meths.values():
        if f.name.startswith("_"):
            continue
        has_stream = any(isinstance(c, ast.Call) and call_name(c).split(".")[-1] == "create_memory_object_stream" for c in walk_local(f.node))
        for s_ in walk_local(f.node):
            if has_stream and isinstance(s_, ast.Assign) and len(s_.targets) == 1 and isinstance(s_.targets[0], ast.Subscript):
                t = s_.targets[0]
                if isinstance(t.value, ast.Attribute) and isinstance(t.value.value, ast.Name) and t.value.value.id == "self" and isinstance(t.slice, ast.Name) and t.slice.id in f.positional_params():
                    reg, attr = f, t.value.attr
    R.need(reg is not None, "anchor: the per-request registration call (public method storing a new stream under its id parameter) was not found")
    R.fn(reg.fq)
    rt = _stdio.router(P)
    R.fn(rt.fq)
    mp = [p for p in rt.positional_params() if p != "self"][0]
    tab = f"self.{attr}"
    # names in the router that hold the routed message's id (possibly through str())
    id_names = set()
    for s_ in walk_local(rt.node):
        if isinstance(s_, ast.Assign) and len(s_.targets) == 1 and isinstance(s_.targets[0], ast.Name):
            v = ast.unparse(s_.value)
            if v in (f"getattr({mp}, 'id', None)", f"{mp}.id") or any(v == f"str({n})" for n in list(id_names)) or v in (f"str(getattr({mp}, 'id', None))", f"str({mp}.id)"):
                id_names.add(s_.targets[0].id)

    def key_is_routed_id(k: ast.AST) -> bool:
        t = ast.unparse(k)
        return t in id_names or t in (f"str({n})" for n in id_names) or t in (f"getattr({mp}, 'id', None)", f"{mp}.id", f"str(getattr({mp}, 'id', None))", f"str({mp}.id)")

    import re as _re

    def sweep_only_drops_closed(f) -> bool:
        """A sweep over the table is harmless iff every removal/close in it happens under a literal saying that
        nobody holds the receive end any more."""
        def sev(stmt, st, an2):
            txt = ast.unparse(stmt)
            removing = (isinstance(stmt, ast.Delete) and tab in txt) or (isinstance(stmt, ast.Expr) and isinstance(stmt.value, (ast.Call, ast.Await)) and _re.search(r"\.(pop|popitem|clear|close|aclose)\(", txt))
            if not removing:
                return None
            closed = any(_re.search(r"open_receive_streams\s*(==|<=)\s*0|^not .*open_receive_streams(?! *[><=])", an2.origin(l)) for l in st.lits)
            return "remove:closed" if closed else "remove:LIVE"

        an2, o2 = run_paths(f.node, stmt_event_of=sev, fallible=False)
        ends = [st for st, _n in o2.ret] + list(o2.normal)
        return not any("remove:LIVE" in st.events for st in ends)

    SHUTDOWN = {"__aexit__", "close", "aclose"} | {f.name for f in meths.values() if f.name != rt.name and any(isinstance(c, ast.Call) and call_name(c) == f"self.{f.name}" for g in (meths.get("__aexit__"),) if g is not None for c in walk_local(g.node))}
    n_sites = 0
    for f in meths.values():
        for n in walk_local(f.node):
            site = None
            ok = True
            why = ""
            if isinstance(n, ast.Subscript) and ast.unparse(n.value) == tab and isinstance(n.ctx, (ast.Store, ast.Del)):
                site = ast.unparse(n)
                if isinstance(n.ctx, ast.Store):
                    ok = f is reg
                    why = "an entry is (re)written outside the registration call"
                else:
                    ok = (f is rt and key_is_routed_id(n.slice)) or f.name in SHUTDOWN or (f is not rt and f is not reg and sweep_only_drops_closed(f))
                    why = f"`del {site}` removes an entry whose key is not the id of the message being routed"
            elif isinstance(n, ast.Call) and isinstance(n.func, ast.Attribute) and ast.unparse(n.func.value) == tab:
                m_ = n.func.attr
                site = ast.unparse(n)[:60]
                if m_ in ("get", "__getitem__", "__contains__"):
                    ok = f.name in SHUTDOWN or (f is rt and bool(n.args) and key_is_routed_id(n.args[0]))
                    why = "the stream is looked up under a key that is not the routed message's id: a response could reach another request's stream"
                elif m_ in ("pop",):
                    # a public deregistration call removes the entry of the id it is given: the caller's own request
                    own_key = (not f.name.startswith("_")) and bool(n.args) and isinstance(n.args[0], ast.Name) and n.args[0].id in f.positional_params()
                    ok = f.name in SHUTDOWN or (f is rt and bool(n.args) and key_is_routed_id(n.args[0])) or own_key
                    why = "an entry is removed under a key that is neither the routed message's id nor the id handed to a public deregistration call"
                elif m_ in ("clear", "popitem", "update", "setdefault"):
                    ok = f.name in SHUTDOWN
                    why = f"`.{m_}()` on the routing table outside the shutdown path"
                elif m_ in ("items", "values", "keys", "copy"):
                    ok = f.name in SHUTDOWN or f.name == "__repr__" or sweep_only_drops_closed(f)
                    why = "the table is swept as a whole outside the shutdown path, and the sweep removes or closes entries on a path that has not established that the caller's receive end is closed (`statistics().open_receive_streams == 0`): those requests may still be about to wait for their response"
                else:
                    continue
            elif isinstance(n, ast.Subscript) and ast.unparse(n.value) == tab and isinstance(n.ctx, ast.Load):
                site = ast.unparse(n)
                ok = f.name in SHUTDOWN or (f is rt and key_is_routed_id(n.slice))
                why = "the stream is looked up under a key that is not the routed message's id"
            if site is None:
                continue
            n_sites += 1
            R.call_sites += 1
            R.ob("R3", f"{f.qual}: `{site}` respects the id → stream map", ok, f"{f.module.rel}:{n.lineno}", why + " — a caller whose response the server did send can lose it (or receive someone else's)",
                 sample=f"R3 {f.qual}: {site}")
    R.ob("R3", "registration, lookup and removal sites of the routing table were found", n_sites >= 3, f"{cl.module.rel}:{cl.node.lineno}", f"{n_sites} sites of {tab}")
    # the router hands the message to the looked-up stream itself
    for c in walk_local(rt.node):
        if isinstance(c, ast.Call) and isinstance(c.func, ast.Attribute) and c.func.attr in ("send", "send_nowait") and isinstance(c.func.value, ast.Name):
            lv = [s_ for s_ in walk_local(rt.node) if isinstance(s_, ast.Assign) and len(s_.targets) == 1 and ast.unparse(s_.targets[0]) == c.func.value.id]
            if lv and tab in ast.unparse(lv[-1].value):
                R.ob("R3", "the per-request stream receives the routed message itself", bool(c.args) and ast.unparse(c.args[0]) == mp, f"{rt.module.rel}:{c.lineno}", f"sends `{ast.unparse(c.args[0]) if c.args else ''}`")

    # ------------------------------------------------------------------ R5: the transport hands every response to the shared stream
    from ..lift import lift

    lift(P, R, "C05", {"R4"}, "R5",
         "every response the child wrote reaches the shared read stream: the stdio router delivers a message with an id on the main stream exactly once on every path, a full stream included (the routing obligation of C05-R4, read here for the waiters: a response dropped in the transport is one no caller can receive)",
         "stdio router: ", min_n=1, select=lambda o: o.key.startswith("message with id") or o.key.startswith("a full main stream"))
    # … and a response is not lost because something else in the same read could not be parsed
    lift(P, R, "C05", {"R3"}, "R7",
         "a response reaches the stream whatever else the child wrote around it: in the stdio reader a line or batch member that cannot be parsed is dropped alone — no exception, break or return leaves the per-line / per-member body (the containment obligations of C05-R3, read here for the waiters: a response that follows a bad member in the same batch is one its caller never receives)",
         "stdio reader: ", min_n=1, suffix=" — the callers whose responses come after it wait until their deadlines")

    # ------------------------------------------------------------------ R6: ids the library chooses cannot collide
    R.rule("R6", "two outstanding requests never share an id by the library's doing: the id send_message builds a request with is the caller's message_id, or uuid4-derived where the library chooses it (a counter or clock value can equal an id a caller picked for another outstanding request, and the id filter then hands one caller the other's response)")
    from .c01 import id_origin_ok

    n6 = 0
    for st, node in list(W.sout.ret)[:6] + [(s_, n_) for s_, _t, n_ in list(W.sout.exc)[:6]]:
        mk = [e for e in st.events if e.startswith("mkreq:")]
        if not mk:
            continue
        parts = dict(p_.split("=", 1) for p_ in mk[-1][len("mkreq:"):].split("|") if "=" in p_)
        o = W.san.origin(parts.get("id", ""))
        ok6, why6 = id_origin_ok(o)
        n6 += 1
        R.ob("R6", "the request id is the caller's or uuid4-derived", ok6, f"{W.send.module.rel}:{W.send.node.lineno}", f"id origin `{o[:80]}`" + (f": {why6}" if why6 else ""), sample=f"R6 id := {o[:60]}")
    R.need(n6 >= 1, "anchor: no path of send_message builds the request")
    # … and no function of the package picks the id for its caller (the caller's own id handed on, or none at all)
    from ._sendmsg import request_id_problems

    n_calls = sum(1 for f_ in P.funcs.values() for c_ in walk_local(f_.node) if isinstance(c_, ast.Call) and f_ is not W.send and P.resolve_call(f_, c_) is W.send)
    R.need(n_calls >= 10, f"only {n_calls} calls of send_message found in the package (19 confirmed by hand)")
    R.call_sites += n_calls
    probs6 = request_id_problems(P, W.send)
    for f_, c_, t_ in probs6:
        R.ob("R6", f"{f_.qual} leaves the request id to its caller or to send_message", False, f"{f_.module.rel}:{c_.lineno}",
             f"passes message_id=`{t_[:60]}`: every request this function sends on a pair of streams carries that id, so two of them outstanding — or a retry after a timeout, with the late answer to the first attempt still to come — are told apart by nothing, and the id filter hands the second caller the first one's response")
    if not probs6:
        R.ob("R6", "no library function chooses a request id for its caller", True, W.send.module.rel, "", sample=f"R6 {n_calls} calls of send_message in the package: message_id absent or the caller's own")

