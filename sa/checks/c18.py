"""C18 — concurrent requests on one connection: no cross-talk and no lost responses."""
from __future__ import annotations

import ast

from .. import anchors as A
from ..model import Project, call_name, walk_local
from ..paths import PState, run_paths, subst_text, is_benign_call
from ..report import Report
from . import _sendmsg
from .c01 import id_literal, no_method, not_list


def check(P: Project, R: Report) -> None:
    R.rule("R1", "no cross-talk: a waiter returns only a method-less, non-list message whose id equals its own request id (same obligation as C01-R1, evaluated on the shared wait loop)")
    R.rule("R2", "no discarding consumer: on every path where a response taken from the shared read stream fails the waiter's id filter, the message is handed on (re-queued or dispatched); a path from receive() to the next iteration that never uses it again loses another caller's response")
    W = _sendmsg.analyse(P)
    R.fn(W.send.fq, W.wait.fq)
    wrel = W.wait.module.rel
    for st, node in W.out.ret:
        ms = _sendmsg.msg_terms(st, W.msg_term_prefix)
        where = f"{wrel}:{node.lineno}"
        if not ms:
            R.ob("R1", "return of a received message", False, where, "default return")
            continue
        m = ms[0]
        ok = id_literal(st, m) is not None and bool(no_method(st, m)) and bool(not_list(st, m))
        R.ob("R1", "a waiter returns only its own response", ok, where, f"literals {sorted(l[:60] for l in st.lits)}",
             sample=f"R1 return carries id=={id_literal(st, m)} ∧ {no_method(st, m)} ∧ {not_list(st, m)}")
    R.paths += len(W.out.ret)

    # one iteration of the loop body, analysed on its own: which exits go round again, and did they hand the message on?
    body = ast.Module(body=W.loop.body, type_ignores=[])

    def ev(call, st, an):
        nm = call_name(call)
        if is_benign_call(call) or nm.endswith(".receive"):
            return None
        args = [subst_text(a, st) for a in call.args] + [subst_text(k.value, st) for k in call.keywords]
        for a in args:
            if W.msg_term_prefix in a and not a.startswith(("getattr(",)):
                return "handoff:" + nm + "(" + a + ")"
        return None

    from ..summaries import predicate_inliner

    ban, bout = run_paths(body, event_of=ev, fallible=False, inliner=predicate_inliner(P, W.wait))
    again = list(bout.cont) + list(bout.normal)
    R.paths += len(again)
    R.need(again, "anchor: the loop body has no path to the next iteration")
    n_foreign = 0
    for st in again:
        ms = _sendmsg.msg_terms(st, W.msg_term_prefix)
        if not ms:
            continue  # nothing was received on this iteration (poll timeout)
        m = ms[0]
        g = f"getattr({m}, 'id', None)"
        foreign = any(l.startswith(g + " != ") or l.startswith(f"{m}.id != ") for l in st.lits)
        if not foreign:
            continue
        if not no_method(st, m) and any("method" in l for l in st.lits if m in l and "is not None" in l):
            continue  # a request/notification, not a response
        n_foreign += 1
        handed = [e for e in st.events if e.startswith("handoff:")]
        R.ob("R2", "wait loop: response with a foreign id is dropped (no hand-off)", bool(handed), f"{wrel}:{W.loop.lineno}",
             "every waiter consumes from the shared stream and discards what is not its own: two outstanding requests can eat each other's answers and both time out",
             sample=f"R2 path receive→next iteration with {sorted(l[:50] for l in st.lits if m in l)} hands on: {handed or 'nothing'}")
    r1_ok = all(o.ok for o in R.obligations if o.rule == "R1")
    R.need(n_foreign >= 1 or not r1_ok, "anchor: no foreign-id path found in the loop body although returns are id-guarded")
