"""C16 — stdio client shutdown is bounded and leaves no child process behind.

Process-table, file-descriptor and wall-clock facts are out of static reach.
Decided: the structure that bounds the shutdown (kill ladder), that every exit
of the shutdown routine — normal, by Exception, or by cancellation raised at
any of its awaits — reaches the terminate step with its awaits shielded, that a
spawn failure propagates, and that the transport fabricates no result."""
from __future__ import annotations

import ast
import re

from .. import anchors as A
from ..consteval import try_fold
from ..flow import ANY_EXC, CANCEL
from ..model import AnalysisError, FuncInfo, Project, call_name, kwarg, local_values, walk_local
from ..paths import PState, PathAnalysis, has_await, run_paths, subst_text, calls_in_order, is_benign_call
from ..report import Report
from . import _stdio


def _shield_of(w):
    """None if `w` is not a shielded cancel scope; otherwise its deadline expression (or 'none' for no deadline)."""
    for it in getattr(w, "items", []):
        c = it.context_expr
        if not isinstance(c, ast.Call):
            continue
        nm = call_name(c)
        sh = kwarg(c, "shield")
        if not (isinstance(sh, ast.Constant) and sh.value is True):
            continue
        if nm.endswith("CancelScope"):
            d = kwarg(c, "deadline")
            return "none" if d is None else ast.unparse(d)
        if nm.split(".")[-1] in ("move_on_after", "fail_after"):
            return ast.unparse(c.args[0]) if c.args else "none"
    return None


def _shielded_with(w) -> bool:
    return _shield_of(w) is not None


class ShutdownAnalysis(PathAnalysis):
    """Every await may raise `Cancelled` unless it runs inside a shielded cancel scope."""

    track_cancel = False

    def absorbing_scope(self, s) -> bool:
        # deadlines of (shielded) scopes around the shutdown are R2's own subject: a shield's deadline must outlast
        # the bounded ladder, in which case it never fires inside it
        return False

    def raises(self, node, state):
        tags = set()
        hv = tuple(h.name for h in self.handler_stack if h.name)
        for c in calls_in_order(node):
            if not is_benign_call(c, hv):
                tags.add(ANY_EXC)
                break
        if has_await(node) and not any(_shielded_with(w) for w in self.with_stack):
            tags.add(CANCEL)
        return tags


def check(P: Project, R: Report) -> None:
    R.rule("R1", "kill ladder: terminate() precedes the first wait, kill() happens only on that wait's timeout arm and precedes the second wait, every process.wait() is inside fail_after(<constant>) and the constants sum to at most 2.0 s")
    R.rule("R2", "exit reaches the ladder: every exit of __aexit__ — normal, Exception, or cancellation raised at any unshielded await — has passed the terminate step unless the path established that no process is running; on cancelled exits the terminate step that ran is inside a shielded cancel scope")
    R.rule("R3", "__aexit__ never raises an Exception of its own and returns False (does not swallow the body's exception)")
    R.rule("R4", "a command that cannot be started makes entering the context raise: the handler around open_process re-raises")
    R.rule("R5", "no fabricated results: the stdio transport constructs no success response")
    cl = _stdio.client(P)
    meths = P.methods(cl)
    rel = cl.module.rel

    # ------------------------------------------------------------------ R9: descriptors the client opens for itself
    R.rule("R9", "no descriptor of the client's own is left open: a file, pipe or socket the client opens itself and keeps on the object (a spool for the child's stderr, a log file) is closed on the part of __aexit__ that runs on every exit — statements of its outermost `finally` not conditional on the state of the process — cancellation and an already-dead child included")
    OPENERS = ("open", "tempfile.TemporaryFile", "tempfile.NamedTemporaryFile", "tempfile.SpooledTemporaryFile", "tempfile.mkstemp", "os.open", "os.pipe", "os.dup", "socket.socket", "socket.socketpair", "io.open")
    opened = {}
    for f in meths.values():
        for s_ in walk_local(f.node):
            if isinstance(s_, (ast.Assign, ast.AnnAssign)) and isinstance(getattr(s_, "value", None), ast.Call) and call_name(s_.value) in OPENERS:
                for t_ in (s_.targets if isinstance(s_, ast.Assign) else [s_.target]):
                    if isinstance(t_, ast.Attribute) and isinstance(t_.value, ast.Name) and t_.value.id == "self":
                        opened[t_.attr] = (f, s_)
    ax9 = meths.get("__aexit__")
    for attr_, (f_, s_) in sorted(opened.items()):
        R.fn(f_.fq)

        def holders_of(node):
            hs = set()
            for a_ in walk_local(node):
                if isinstance(a_, ast.Assign) and len(a_.targets) == 1:
                    pairs_ = [(a_.targets[0], a_.value)]
                    if isinstance(a_.targets[0], ast.Tuple) and isinstance(a_.value, ast.Tuple) and len(a_.targets[0].elts) == len(a_.value.elts):
                        pairs_ = list(zip(a_.targets[0].elts, a_.value.elts))
                    for t_, v_ in pairs_:
                        if isinstance(t_, ast.Name) and ast.unparse(v_) == f"self.{attr_}":
                            hs.add(t_.id)  # (`spool, self._spool = self._spool, None`: the local is the object)
            return hs

        def none_forms_of(hs):
            return {f"self.{attr_} is None", f"not self.{attr_}"} | {f"{h_} is None" for h_ in hs} | {f"not {h_}" for h_ in hs}

        def nothing_open_in(st, an_, forms):
            return any(an_.origin(l).replace("<", "").replace(">", "") in forms or re.sub(r"·\d+·\w+", "", l) in forms for l in st.lits)

        def closes(g, depth=0):
            """True if every way out of method g has closed self.<attr_>"""
            holders = holders_of(g.node)

            def cev(call, st, an):
                nm = call_name(call)
                if nm.endswith(".close") and isinstance(call.func, ast.Attribute) and isinstance(call.func.value, ast.Name) and call.func.value.id in holders:
                    return "close"
                if nm == f"self.{attr_}.close" or (nm.endswith(".close") and isinstance(call.func, ast.Attribute) and an.origin(subst_text(call.func.value, st)).strip("<>") in (f"self.{attr_}",)):
                    return "close"
                if nm.startswith("self.") and nm.count(".") == 1 and nm[5:] in meths and meths[nm[5:]] is not g and depth < 2 and closes(meths[nm[5:]], depth + 1):
                    return "close"
                return None

            ga, go = run_paths(g.node, event_of=cev, fallible=False)
            outs = [st for st, _n in go.ret] + list(go.normal)
            none_forms = none_forms_of(holders)
            nothing_open = lambda st: nothing_open_in(st, ga, none_forms)
            return bool(outs) and all("close" in st.events or nothing_open(st) for st in outs)

        ok9, why9 = False, "__aexit__ not found"
        if ax9 is not None:
            outer = [t_ for t_ in ax9.node.body if isinstance(t_, ast.Try) and t_.finalbody]
            why9 = "__aexit__ has no outermost `finally`: a cancellation delivered at its first await skips everything after it"
            if outer:
                fin_mod = ast.Module(body=outer[-1].finalbody, type_ignores=[])
                fholders = holders_of(fin_mod)

                def fev(call, st, an):
                    nm = call_name(call)
                    if nm == f"self.{attr_}.close" or (nm.endswith(".close") and isinstance(call.func, ast.Attribute) and isinstance(call.func.value, ast.Name) and call.func.value.id in fholders):
                        return "close"
                    if nm.startswith("self.") and nm.count(".") == 1 and nm[5:] in meths and closes(meths[nm[5:]]):
                        return "close"
                    return None

                fa, fo = run_paths(ast.Module(body=outer[-1].finalbody, type_ignores=[]), event_of=fev, fallible=False)
                outs = list(fo.normal) + [st for st, _n in fo.ret]
                missing = [st for st in outs if "close" not in st.events and not nothing_open_in(st, fa, none_forms_of(fholders))]
                ok9 = bool(outs) and not missing
                why9 = f"a path through the `finally` of __aexit__ does not close it (under {sorted(l[:60] for l in missing[0].lits)[:3] if missing else ''})"
        R.ob("R9", f"self.{attr_} (opened in {f_.qual}) is closed on every exit", ok9, f"{rel}:{s_.lineno}",
             f"`{ast.unparse(s_)[:70]}`: {why9} — when the context is left by cancellation (a timeout around it) the statements of the `try` body after the first await do not run, so with a child that has already exited nothing closes the descriptor and it stays open as long as the client object lives")
    if not opened:
        R.ob("R9", "the client opens no file, pipe or socket of its own", True, rel, "", sample="R9 no open()/tempfile/os.open/os.pipe/socket result kept on the client")

    # ------------------------------------------------------------------ R10: the wrapper's exit is the client's exit
    R.rule("R10", "leaving the transport context is leaving the client context: on every path of StdioTransport.__aexit__ that holds a client, the client's __aexit__ is awaited — no counter, flag or mode lets the exit return while the child it started is still running")
    tmod = "chuk_mcp.transports.stdio.transport"
    tax = P.maybe_func(tmod, "StdioTransport.__aexit__")
    R.need(tax is not None, "anchor: StdioTransport.__aexit__ not found")
    R.fn(tax.fq)
    holder = None
    tcls = tax.cls
    for f_ in P.methods(tcls).values():
        for s_ in walk_local(f_.node):
            if isinstance(s_, (ast.Assign, ast.AnnAssign)) and isinstance(getattr(s_, "value", None), ast.Call) and P.resolve_call(f_, s_.value) is cl:
                for t_ in (s_.targets if isinstance(s_, ast.Assign) else [s_.target]):
                    if isinstance(t_, ast.Attribute) and isinstance(t_.value, ast.Name) and t_.value.id == "self":
                        holder = f"self.{t_.attr}"
            # … or built into a local first and published after a successful start (`client = StdioClient(…); …; self._client = client`)
            if isinstance(s_, ast.Assign) and len(s_.targets) == 1 and isinstance(s_.targets[0], ast.Attribute) and isinstance(s_.targets[0].value, ast.Name) and s_.targets[0].value.id == "self" and isinstance(s_.value, ast.Name):
                defs_ = [x.value for x in walk_local(f_.node) if isinstance(x, ast.Assign) and len(x.targets) == 1 and isinstance(x.targets[0], ast.Name) and x.targets[0].id == s_.value.id]
                if defs_ and all(isinstance(d_, ast.Call) and P.resolve_call(f_, d_) is cl for d_ in defs_):
                    holder = f"self.{s_.targets[0].attr}"
    R.need(holder is not None, "anchor: StdioTransport keeps its client under no attribute this rule can find")
    # locals of __aexit__ that stand for the client (`client, self._client = self._client, None`)
    talias = set()
    for a_ in walk_local(tax.node):
        if isinstance(a_, ast.Assign) and len(a_.targets) == 1:
            pairs_ = [(a_.targets[0], a_.value)]
            if isinstance(a_.targets[0], ast.Tuple) and isinstance(a_.value, ast.Tuple) and len(a_.targets[0].elts) == len(a_.value.elts):
                pairs_ = list(zip(a_.targets[0].elts, a_.value.elts))
            for t_, v_ in pairs_:
                if isinstance(t_, ast.Name) and ast.unparse(v_) == holder:
                    talias.add(t_.id)

    def tev(call, st, an):
        nm = call_name(call)
        if nm == f"{holder}.__aexit__" or (nm.endswith(".__aexit__") and nm[: -len(".__aexit__")] in talias):
            return "client-exit"
        return None

    ta, to = run_paths(tax.node, event_of=tev, fallible=False)
    touts = [(st, n_) for st, n_ in to.ret] + [(st, None) for st in to.normal]
    R.need(touts, "anchor: StdioTransport.__aexit__ has no normal exit")
    for st, n_ in touts:
        forms_ = {f"not {holder}", f"{holder} is None"} | {f"not {a_}" for a_ in talias} | {f"{a_} is None" for a_ in talias}
        none_held = any(ta.origin(l).replace("<", "").replace(">", "") in forms_ or re.sub(r"·\d+·\w+", "", l) in forms_ for l in st.lits)
        R.ob("R10", "the transport's exit shuts its client down whenever it has one", "client-exit" in st.events or none_held, f"{tax.module.rel}:{getattr(n_, 'lineno', tax.node.lineno)}",
             f"a path returns without awaiting `{holder}.__aexit__` although a client may exist (under {sorted(l[:50] for l in st.lits)[:4]}): the child, its pipes and the reader/writer tasks outlive the context — for instance after an earlier entry that failed left a count or flag behind",
             sample=f"R10 {tax.qual}: returns only after {holder}.__aexit__ or with no client")

    # ------------------------------------------------------------------ R1
    term = None
    for f in meths.values():
        names = {call_name(c) for c in walk_local(f.node) if isinstance(c, ast.Call)}
        if "self.process.terminate" in names:
            term = f
    R.need(term is not None, "anchor: no StdioClient method terminates the process")
    R.fn(term.fq)

    # a bounded wait factored into a helper of the client: `if await self._wait_for_exit(1.0): return` … kill()
    wait_helpers = {}
    for g in meths.values():
        if g is term or not any(isinstance(c, ast.Call) and call_name(c) == "self.process.wait" for c in walk_local(g.node)):
            continue
        if not any(isinstance(c, ast.Call) and call_name(c) == f"self.{g.name}" for c in walk_local(term.node)):
            continue  # (only helpers of the terminate routine itself)
        if any(isinstance(c, ast.Call) and call_name(c) in ("self.process.kill", "self.process.terminate") for c in walk_local(g.node)):
            continue
        gp = [p_ for p_ in g.positional_params() if p_ != "self"]
        bexpr = None
        for w in walk_local(g.node):
            if isinstance(w, (ast.With, ast.AsyncWith)) and any(isinstance(c, ast.Call) and call_name(c) == "self.process.wait" for c in walk_local(w)):
                for it in w.items:
                    c = it.context_expr
                    if isinstance(c, ast.Call) and call_name(c) in ("anyio.fail_after", "fail_after", "anyio.move_on_after") and c.args:
                        bexpr = c.args[0]
        ga, go = run_paths(g.node, fallible=False, mark_handlers=True, exc_after_events=True)
        on_timeout = lambda st_: any(e.startswith("caught:") and "TimeoutError" in e for e in st_.events) or any(l.endswith(".cancelled_caught") and not l.startswith("not ") for l in st_.lits)
        rets_ = [(ast.unparse(n_.value) if n_.value is not None else "None", on_timeout(st_)) for st_, n_ in go.ret] + [("None", on_timeout(st_)) for st_ in go.normal]
        false_on_timeout = bool(rets_) and all((v_ == "False") == t_ for v_, t_ in rets_) and {v_ for v_, _t in rets_} <= {"True", "False"}
        true_on_timeout = bool(rets_) and all((v_ == "True") == t_ for v_, t_ in rets_) and {v_ for v_, _t in rets_} <= {"True", "False"}
        escapes = any(t_ not in (CANCEL,) and "TimeoutError" in t_ for _s, t_, _n in go.exc)
        if bexpr is None or not (false_on_timeout or true_on_timeout or escapes):
            raise AnalysisError(f"{rel}: {g.qual} waits for the child in a shape this rule cannot summarise (bound {ast.unparse(bexpr) if bexpr is not None else None}, returns {sorted(set(rets_))})")
        wait_helpers[g.name] = (gp, bexpr, "false" if false_on_timeout else ("true" if true_on_timeout else "raises"))

    def lev(call, st, an):
        nm = call_name(call)
        if nm == "self.process.terminate":
            return "terminate"
        if nm.startswith("self.") and nm[5:] in wait_helpers:
            gp, bexpr, _how = wait_helpers[nm[5:]]
            be = bexpr
            if isinstance(bexpr, ast.Name) and bexpr.id in gp:
                i_ = gp.index(bexpr.id)
                be = call.args[i_] if i_ < len(call.args) else (kwarg(call, bexpr.id) or meths[nm[5:]].param_default(bexpr.id))
            v = None
            if be is not None:
                v = try_fold(P, term.module, be)
                if v is None and isinstance(be, ast.Name):
                    d_ = term.param_default(be.id) if be.id in term.params() else None
                    v = try_fold(P, term.module, d_) if d_ is not None else None
            return f"wait:{v if isinstance(v, (int, float)) else '?'}"
        if nm == "self.process.kill":
            arm = an.handler_stack and any("TimeoutError" in n for n in an.handler_names(an.handler_stack[-1]))
            # … or after a wait helper said so: `if await self._wait_for_exit(g): return` / `if not await …: kill()`
            for hn_, (_gp, _b, how_) in wait_helpers.items():
                for l in st.lits:
                    if f"self.{hn_}(" in l:
                        neg = l.startswith("not ")
                        if (how_ == "false" and neg) or (how_ == "true" and not neg):
                            arm = True
            # … or the flag form: `with move_on_after(t) as scope: await wait()` … `if scope.cancelled_caught: kill()`
            arm = arm or any(l.endswith(".cancelled_caught") and not l.startswith("not ") for l in st.lits)
            return "kill@" + ("timeout-arm" if arm else "elsewhere")
        if nm == "self.process.wait":
            bound = None
            for w in reversed(an.with_stack):
                for it in w.items:
                    c = it.context_expr
                    if isinstance(c, ast.Call) and call_name(c) in ("anyio.fail_after", "fail_after", "anyio.move_on_after") and c.args:
                        v = try_fold(P, term.module, c.args[0])
                        bound = v if isinstance(v, (int, float)) else "?"
                        break
                if bound is not None:
                    break
            return f"wait:{bound}"
        return None

    la, lo = run_paths(term.node, event_of=lev, fallible=True, exc_after_events=True)
    la.parents = A.exception_parents(P)
    R.paths += len(lo.ret) + len(lo.normal) + len(lo.exc)
    ends = [st for st, _n in lo.ret] + list(lo.normal) + [st for st, _t, _n in lo.exc]
    seqs = {tuple(e for e in st.events) for st in ends}
    worst = 0.0
    for seq in sorted(seqs):
        ok = True
        why = ""
        total = 0.0
        seen_wait = 0
        for i, e in enumerate(seq):
            if e.startswith("wait:"):
                b = e[5:]
                if b in ("None", "?"):
                    ok, why = False, "process.wait() is not bounded by fail_after(<constant>)"
                else:
                    total += float(b)
                if "terminate" not in seq[:i]:
                    ok, why = False, "wait before terminate()"
                if seen_wait >= 1 and not any(x.startswith("kill@") for x in seq[:i]):
                    ok, why = False, "second wait without kill()"
                seen_wait += 1
            if e.startswith("kill@"):
                if e != "kill@timeout-arm" or seen_wait < 1:
                    ok, why = False, "kill() outside the first wait's timeout arm"
                if "terminate" not in seq[:i]:
                    ok, why = False, "kill() before terminate()"
        worst = max(worst, total)
        R.ob("R1", f"ladder path {' → '.join(seq) or '(no process)'}", ok, term.where, why, sample=f"R1 {term.qual}: {' → '.join(seq)} (bounded waits {total}s)")
    R.ob("R1", "grace periods sum to at most 2.0 s", worst <= 2.0, term.where, f"worst-case bounded waiting {worst}s")
    R.extra["worst_case_wait_s"] = worst
    R.ob("R1", "the ladder contains terminate → wait → kill → wait", any(len([e for e in s if e.startswith('wait:')]) == 2 and any(e.startswith("kill@") for e in s) for s in seqs), term.where, f"{sorted(seqs)}")
    # the ladder itself swallows nothing but reports: its own failures must not escape as Exception (else __aexit__'s handler path)
    R.ob("R1", "the ladder lets no Exception escape", not any(t != CANCEL for _s, t, _n in lo.exc), term.where, f"{sorted({t for _s, t, _n in lo.exc})}")

    # ------------------------------------------------------------------ R2 / R3
    ax = meths.get("__aexit__")
    R.need(ax is not None, "anchor vanished: StdioClient.__aexit__")
    R.fn(ax.fq)

    def xev(call, st, an):
        nm = call_name(call)
        if nm == f"self.{term.name}":
            kinds = [_shield_of(w) for w in an.with_stack if _shield_of(w) is not None]
            if not kinds:
                return "terminate:unshielded"
            # a shield with its own deadline must outlast the whole kill ladder, or kill() is never reached
            for k in kinds:
                if k != "none":
                    v = try_fold(P, ax.module, ast.parse(k, mode="eval").body)
                    if not (isinstance(v, (int, float)) and v > worst):
                        return f"terminate:shield-expires-first({k}={v})"
            return "terminate:shielded"
        return None

    xa, xo = run_paths(ax.node, event_of=xev, cls=ShutdownAnalysis, exc_after_events=True)
    xa.parents = A.exception_parents(P)
    R.paths += len(xo.ret) + len(xo.normal) + len(xo.exc)

    ALIVE = ("self.process", "self.process is not None", "self.process.returncode is None")

    def not_running(st: PState) -> bool:
        if any(l in st.lits for l in ("not self.process", "self.process is None", "self.process.returncode is not None")):
            return True
        # … or the same said through a flag: `alive = self.process is not None and self.process.returncode is None` … `if alive:`
        for l in st.lits:
            if l.startswith("not "):
                d = xa.defs.get(l[4:], ("", None))[1]
                if isinstance(d, ast.BoolOp) and isinstance(d.op, ast.And) and all(ast.unparse(v) in ALIVE for v in d.values):
                    return True
                if d is not None and not isinstance(d, ast.BoolOp) and ast.unparse(d) in ALIVE:
                    return True
        return False

    # a "done already" latch: `if self._closed: return` … `self._closed = True` in the exit routine.  The early return is the
    # second call of the same session's exit only if entering re-arms the latch before it spawns the next child.
    def latch_flags():
        out = {}
        ae_ = meths.get("__aenter__")
        for s_ in walk_local(ax.node):
            if isinstance(s_, ast.Assign) and len(s_.targets) == 1 and isinstance(s_.targets[0], ast.Attribute) and isinstance(s_.targets[0].value, ast.Name) and s_.targets[0].value.id == "self" \
                    and isinstance(s_.value, ast.Constant) and s_.value.value is True:
                flag = s_.targets[0].attr
                inl_ = getattr(P, "inliner", None)
                read_in = {x.split(" into ")[0].split(":")[-1].split(".")[-1] for x in (inl_.inlined if inl_ is not None else [])}  # helpers already read into the exit routine
                other = [m_.name for m_ in meths.values() if m_ is not ax and m_.name not in ("__init__", "__aenter__") and m_.name not in read_in and any(isinstance(x, ast.Attribute) and x.attr == flag and isinstance(x.ctx, ast.Store) for x in walk_local(m_.node))]
                if other:
                    continue  # set elsewhere too: not a latch of this routine
                rearmed = False
                if ae_ is not None:
                    def aev(stmt, st, an, flag=flag):
                        if isinstance(stmt, ast.Assign) and any(isinstance(t, ast.Attribute) and t.attr == flag and ast.unparse(t.value) == "self" for t in stmt.targets) and isinstance(stmt.value, ast.Constant) and stmt.value.value is False:
                            return "rearm"
                        return None

                    def cev(call, st, an):
                        return "spawn" if call_name(call).endswith("open_process") else None

                    _a, ao = run_paths(ae_.node, event_of=cev, stmt_event_of=aev, fallible=True)
                    ends_ = [st for st, _n in ao.ret] + list(ao.normal) + [st for st, _t, _n in ao.exc]
                    spawned = [st for st in ends_ if "spawn" in st.events]
                    rearmed = bool(spawned) and all("rearm" in st.events and list(st.events).index("rearm") < list(st.events).index("spawn") for st in spawned)
                out[flag] = rearmed
        return out

    LATCH = latch_flags()

    def latched(st: PState):
        """name of a re-armed latch whose being set explains this path, or None; un-re-armed latches are reported"""
        for fl, ok_ in LATCH.items():
            if f"self.{fl}" in st.lits:
                return fl, ok_
        return None

    exits = [("return", st, n) for st, n in xo.ret] + [("falloff", st, ax.node) for st in xo.normal] + [(t, st, n) for st, t, n in xo.exc]
    R.need(exits, "__aexit__ has no exit")
    n_c = 0
    for kind, st, node in exits:
        terms = [e for e in st.events if e.startswith("terminate:")]
        where = f"{rel}:{getattr(node, 'lineno', ax.node.lineno)}"
        if kind == CANCEL:
            n_c += 1
            ok = "terminate:shielded" in terms or not_running(st)
            R.ob("R2", "cancelled exit still terminates the child (shielded)", ok, where,
                 f"cancellation raised at `{ast.unparse(node)[:50]}` leaves __aexit__ with terminate events {terms} (kill ladder needs {worst}s): the child keeps running", sample=f"R2 Cancelled at `{ast.unparse(node)[:40]}` → {terms}")
        elif kind in ("return", "falloff"):
            ok = bool(terms) or not_running(st)
            la_ = latched(st) if not ok else None
            if la_ is not None:
                fl_, rearmed_ = la_
                R.ob("R2", f"an exit skipped under the latch `self.{fl_}` belongs to a session whose exit has run already", rearmed_, where,
                     f"`self.{fl_}` is set by the first exit and never cleared before __aenter__ spawns the next child: when the same client object is entered again, leaving that second context returns here at once — nothing is closed, the task group is not cancelled, the terminate/kill ladder does not run, and the new child stays alive with its pipes open",
                     sample=f"R2 latch self.{fl_}: re-armed in __aenter__ before the spawn")
                continue
            R.ob("R2", "normal exit has terminated the child", ok, where, f"terminate events {terms}; literals {sorted(l[:40] for l in st.lits if 'process' in l)}")
            if kind == "return":
                rv = ast.unparse(node.value) if node.value is not None else "None"
                R.ob("R3", "__aexit__ returns False", rv in ("False", "None"), where, f"returns {rv}: a truthy value swallows the body's exception")
        else:
            R.ob("R3", f"__aexit__ lets no {kind} escape", False, where, f"raised at `{ast.unparse(node)[:50]}`")
            ok = bool(terms) or not_running(st)
            R.ob("R2", "exceptional exit has terminated the child", ok, where, f"terminate events {terms}")
    R.ob("R2", "cancellation edges were explored", n_c > 0, ax.where, "no await of __aexit__ is cancellable: analysis is vacuous")
    R.extra["cancelled_exit_states"] = n_c
    # R6: bounded shutdown — every await of __aexit__ is a prompt one, the terminate routine, or lexically bounded
    R.rule("R6", "bounded shutdown: every await in __aexit__ is a stream aclose, the task-group exit after its cancel, the (bounded) terminate routine, or lies inside fail_after/move_on_after(<constant>)")
    PROMPT = (".aclose", ".tg.__aexit__", f"self.{term.name}")
    for aw in [n for n in walk_local(ax.node) if isinstance(n, ast.Await)]:
        txt = ast.unparse(aw.value)
        callee = call_name(aw.value) if isinstance(aw.value, ast.Call) else txt
        prompt = callee.endswith(PROMPT[:2]) or callee == PROMPT[2]
        bounded = False
        for w in [w for w in walk_local(ax.node) if isinstance(w, (ast.With, ast.AsyncWith)) and any(aw is x for x in walk_local(w))]:
            for it in w.items:
                c = it.context_expr
                if isinstance(c, ast.Call) and call_name(c).split(".")[-1] in ("fail_after", "move_on_after") and c.args and isinstance(try_fold(P, ax.module, c.args[0]), (int, float)):
                    bounded = True
        if callee.endswith(".tg.__aexit__"):
            cancels = [c for c in walk_local(ax.node) if isinstance(c, ast.Call) and call_name(c).endswith("cancel_scope.cancel") and c.lineno < aw.lineno]
            prompt = bool(cancels)
        R.ob("R6", f"`await {txt[:50]}` cannot block the shutdown", prompt or bounded, f"{rel}:{aw.lineno}",
             "an unbounded wait before the terminate step: if it never completes (e.g. the writer is blocked on a child that stopped reading), the kill ladder is never reached and leaving the context hangs",
             sample=f"R6 await {txt[:50]}: " + ("prompt" if prompt else "bounded"))

    # wrappers delegate
    tw = P.func("chuk_mcp.transports.stdio.transport", "StdioTransport.__aexit__")
    # the attribute holding the client: assigned `StdioClient(...)` somewhere in StdioTransport
    holder = {ast.unparse(s.targets[0]) for g in P.methods(tw.cls).values() for s in walk_local(g.node)
              if isinstance(s, ast.Assign) and len(s.targets) == 1 and isinstance(s.value, ast.Call) and call_name(s.value).split(".")[-1] == "StdioClient"}
    R.need(len(holder) == 1, f"anchor: StdioTransport holds its client in {sorted(holder)}")
    hold_ = next(iter(holder))
    lvt = local_values(tw.node)

    def _is_holder(e):
        if ast.unparse(e) == hold_:
            return True
        if isinstance(e, ast.Name):
            vs = [v for v in lvt.get(e.id, []) if v is not None]
            return bool(vs) and all(ast.unparse(v) == hold_ for v in vs)
        return False

    calls = [c for c in walk_local(tw.node) if isinstance(c, ast.Call) and isinstance(c.func, ast.Attribute) and c.func.attr == "__aexit__" and _is_holder(c.func.value)]
    R.ob("R2", "StdioTransport.__aexit__ delegates to the client's shutdown", len(calls) == 1, tw.where, "")
    for wname in ("stdio_client", "stdio_client_with_initialize"):
        w = P.func(A.MOD_STDIO, wname)
        lv = local_values(w.node)

        def _is_client(e):
            if isinstance(e, ast.Call):
                return call_name(e).split(".")[-1] == "StdioClient"
            if isinstance(e, ast.Name):
                vs = lv.get(e.id)
                return bool(vs) and all(v is not None and _is_client(v) for v in vs)
            return False

        aw = [n for n in walk_local(w.node) if isinstance(n, ast.AsyncWith) and any(_is_client(it.context_expr) for it in n.items)]
        R.ob("R2", f"{wname} enters the client with `async with` (shutdown runs on every exit)", len(aw) == 1, w.where, "")

    # ------------------------------------------------------------------ R4
    ae = meths.get("__aenter__")
    R.need(ae is not None, "anchor vanished: StdioClient.__aenter__")
    R.fn(ae.fq)
    spawn = [c for c in walk_local(ae.node) if isinstance(c, ast.Call) and call_name(c).endswith("open_process")]
    R.need(len(spawn) == 1, "anchor: open_process call not found in __aenter__")
    # … and the spawn itself fails for a program that cannot be started only if the program is exec'ed directly: an
    # argv list. A string is run through the shell, which always starts (and exits 127 later, inside the context).
    a0 = spawn[0].args[0] if spawn[0].args else kwarg(spawn[0], "command")
    forms = [a0]
    if isinstance(a0, ast.Name):
        forms = [v for v in local_values(ae.node).get(a0.id, []) if v is not None] or [a0]
    # a package helper that builds the command: read what it can return
    expanded = []
    for x in forms:
        g_ = P.resolve_call(ae, x) if isinstance(x, ast.Call) else None
        if isinstance(g_, FuncInfo):
            rets_ = [r_.value for r_ in walk_local(g_.node) if isinstance(r_, ast.Return) and r_.value is not None]
            lvg_ = local_values(g_.node)
            for r_ in rets_:
                if isinstance(r_, ast.Name) and r_.id not in g_.params():
                    expanded += [v for v in lvg_.get(r_.id, []) if v is not None] or [r_]
                else:
                    expanded.append(r_)
        else:
            expanded.append(x)
    def _alts(x):
        if isinstance(x, ast.IfExp):
            return _alts(x.body) + _alts(x.orelse)
        if isinstance(x, ast.BoolOp):
            return [y for v in x.values for y in _alts(v)]
        return [x]

    forms = [y for x in expanded for y in _alts(x)]
    unknown = [x for x in forms if not isinstance(x, (ast.List, ast.Tuple, ast.Constant, ast.JoinedStr, ast.BinOp, ast.Attribute, ast.Name)) and not (isinstance(x, ast.Call) and (call_name(x) in ("list", "tuple", "str", "shlex.join") or (isinstance(x.func, ast.Attribute) and x.func.attr in ("join", "strip", "lstrip", "rstrip", "format", "replace", "lower"))))]
    if unknown:
        raise AnalysisError(f"{rel}:{spawn[0].lineno}: what open_process is given (`{ast.unparse(unknown[0])[:60]}`) is built in a shape this rule cannot read")
    stringly = [x for x in forms if not isinstance(x, (ast.List, ast.Tuple)) and not (isinstance(x, ast.Call) and call_name(x) in ("list", "tuple"))]
    R.ob("R4", "open_process is given an argv list on every path (never a command string)", not stringly and kwarg(spawn[0], "shell") is None, f"{rel}:{spawn[0].lineno}",
         f"the command can reach open_process as `{ast.unparse(stringly[0])[:60] if stringly else 'shell=…'}`: a string is started through the shell, so a program that does not exist no longer makes entering the context raise — the shell starts, exits 127, and the context is entered with a dead child",
         sample=f"R4 open_process({ast.unparse(forms[0])[:50]})")
    trys = [t for t in walk_local(ae.node) if isinstance(t, ast.Try) and any(spawn[0] in list(walk_local(s)) for s in t.body)]
    if not trys:
        R.ob("R4", "spawn failure propagates (no handler at all)", True, ae.where, "")
    for t in trys:
        for h in t.handlers:
            ha, ho = run_paths(ast.Module(body=h.body, type_ignores=[]), fallible=False)
            ok = not (ho.normal or ho.ret or ho.brk or ho.cont) and {tg for _s, tg, _n in ho.exc} <= {"<reraise>"}
            R.ob("R4", "handler around open_process re-raises", ok, f"{rel}:{h.lineno}", "a spawn failure would be swallowed and the context entered without a child", sample="R4 __aenter__: except Exception → log → raise")

    # ------------------------------------------------------------------ R7: no suspension between the spawn and handing the context over
    R.rule("R7", "entering: once open_process has returned, __aenter__ either returns without suspending (the only await allowed is entering the task group it has just created, which does not yield) or a cancellation raised at any later await passes the terminate step before it leaves __aenter__ — `async with` never calls __aexit__ for a failed __aenter__, so nothing else would reap the child")
    tg_names = set()
    for s_ in walk_local(ae.node):
        if isinstance(s_, ast.Assign) and isinstance(s_.value, ast.Call) and call_name(s_.value).split(".")[-1] == "create_task_group":
            tg_names |= {ast.unparse(t) for t in s_.targets}

    class EnterAnalysis(PathAnalysis):
        def raises(self, node, state):
            tags = set()
            if "spawn" not in state.events and not any(call_name(c).endswith("open_process") for c in calls_in_order(node)):
                return tags
            for aw in [n for n in ast.walk(node) if isinstance(n, ast.Await)]:
                v = aw.value
                if isinstance(v, ast.Call) and call_name(v).endswith("open_process"):
                    continue  # cancelled inside the spawn itself: anyio does not hand out a process
                if isinstance(v, ast.Call) and call_name(v).endswith(".__aenter__") and ast.unparse(v.func.value) in tg_names:
                    continue  # TaskGroup.__aenter__ enters a cancel scope and returns: no checkpoint
                if any(_shielded_with(w) for w in self.with_stack):
                    continue
                tags.add(CANCEL)
            return tags

    def eev(call, st, an2):
        nm = call_name(call)
        if nm.endswith("open_process"):
            return "spawn"
        if nm in (f"self.{term.name}", "self.process.kill", "self.process.terminate"):
            return "terminate"
        return None

    ea, eo = run_paths(ae.node, event_of=eev, cls=EnterAnalysis, exc_after_events=True)
    n_after = 0
    for st, tag, node in eo.exc:
        if tag != CANCEL or "spawn" not in st.events:
            continue
        n_after += 1
        R.ob("R7", "a cancellation between the spawn and the return of __aenter__ terminates the child", "terminate" in st.events, f"{rel}:{getattr(node, 'lineno', 0)}",
             f"`{ast.unparse(node)[:60]}` can be cancelled (outer scope, timeout around the context) after the child was spawned; __aenter__ then raises, __aexit__ is never called and the child keeps running")
    R.ob("R7", "__aenter__ was analysed from the spawn to its return", any("spawn" in st.events for st, _n in eo.ret), ae.where, f"{n_after} cancellable awaits after the spawn",
         sample=f"R7 __aenter__: {n_after} cancellable await(s) between open_process and return")

    # ------------------------------------------------------------------ R5
    fabricated = []
    for f in P.funcs_in(A.MOD_STDIO) + P.funcs_in("chuk_mcp.transports.stdio.transport"):
        for n in walk_local(f.node):
            if isinstance(n, ast.Call) and call_name(n).split(".")[-1] in ("JSONRPCResponse", "create_response"):
                fabricated.append(f"{f.qual}:{n.lineno} {call_name(n)}")
            if isinstance(n, ast.Dict) and any(isinstance(k, ast.Constant) and k.value == "result" for k in n.keys) and any(isinstance(k, ast.Constant) and k.value == "jsonrpc" for k in n.keys):
                fabricated.append(f"{f.qual}:{n.lineno} dict with result")
    R.ob("R5", "the stdio transport builds no success response", not fabricated, rel, f"{fabricated}")

    # ------------------------------------------------------------------ R8: the group's tasks stay cancellable
    R.rule("R8", "the task-group exit is prompt only if its tasks can be cancelled: no task started in the client's task group — nor any method it calls — suspends inside a shielded cancel scope that has no constant deadline")
    from ..roles import self_closure

    entries = []
    for c in walk_local(ae.node):
        if isinstance(c, ast.Call) and call_name(c).endswith((".start_soon", ".start")) and c.args and call_name(c).split(".")[-2:-1] and ast.unparse(c.func.value) in tg_names:
            a0 = c.args[0]
            if isinstance(a0, ast.Attribute) and isinstance(a0.value, ast.Name) and a0.value.id == "self" and a0.attr in meths:
                entries.append(meths[a0.attr])
            else:
                raise AnalysisError(f"{rel}:{c.lineno}: the task group starts `{ast.unparse(a0)[:50]}`, which is not a method of the client")
    R.need(len(entries) >= 2, f"anchor: expected the reader and the writer to be started in the task group, found {[e.name for e in entries]}")
    task_fns = {}
    for e in entries:
        task_fns.update(self_closure(P, cl, e))
    n_sh = 0
    for name, f in sorted(task_fns.items()):
        R.fn(f.fq)
        for w in walk_local(f.node):
            if not isinstance(w, (ast.With, ast.AsyncWith)):
                continue
            d = _shield_of(w)
            if d is None:
                continue
            n_sh += 1
            suspends = any(isinstance(x, (ast.Await, ast.AsyncFor, ast.AsyncWith)) for b in w.body for x in walk_local(b)) or any(isinstance(b, (ast.AsyncFor, ast.AsyncWith)) for b in w.body)
            v = None if d == "none" else try_fold(P, f.module, ast.parse(d, mode="eval").body)
            finite = isinstance(v, (int, float)) and not isinstance(v, bool) and v < float("inf")
            R.ob("R8", f"{f.qual}: a shielded scope in a task of the group does not suspend without a deadline", (not suspends) or finite, f"{f.module.rel}:{w.lineno}",
                 f"`{ast.unparse(w.items[0].context_expr)[:60]}` shields awaits in a task of the client's task group (deadline {d}): if one of them blocks (a full stream, a child that stopped reading) the cancellation done by __aexit__ cannot interrupt it, the task-group exit never returns and the kill ladder is never reached")
    n_h = 0
    for name, f in sorted(task_fns.items()):
        for n in walk_local(f.node):
            if isinstance(n, ast.Assign) and any(isinstance(t, ast.Attribute) and t.attr == "shield" for t in n.targets) and not (isinstance(n.value, ast.Constant) and n.value.value is False):
                R.ob("R8", f"{f.qual}: no cancel scope of a task is switched to shielded", False, f"{f.module.rel}:{n.lineno}", f"`{ast.unparse(n)[:60]}` shields what the task awaits next from the cancellation done by __aexit__")
            if isinstance(n, ast.ExceptHandler):
                n_h += 1
                caught = "<bare>" if n.type is None else ast.unparse(n.type)
                absorbs = n.type is None or any(k in caught for k in ("BaseException", "CancelledError", "get_cancelled_exc_class"))
                reraises = bool(n.body) and isinstance(n.body[-1], ast.Raise) and n.body[-1].exc is None
                R.ob("R8", f"{f.qual}: `except {caught[:40]}` does not absorb the cancellation", (not absorbs) or reraises, f"{f.module.rel}:{n.lineno}",
                     "the handler catches the cancellation delivered by __aexit__ and does not re-raise it: the task carries on (its loop waits again) and the task-group exit does not return")
    R.extra["task_group_handlers"] = n_h
    R.ob("R8", "the tasks of the client's task group can be cancelled at every suspension", True, ae.where, "", sample=f"R8 {sorted(task_fns)}: {n_sh} shielded scope(s), none suspends without a deadline")
    R.extra["task_group_functions"] = sorted(task_fns)
