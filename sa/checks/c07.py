"""C07 — an error response always surfaces as a classified exception carrying its code."""
from __future__ import annotations

import ast
import re

from .. import anchors as A
from ..consteval import module_const, try_fold
from ..model import local_values, AnalysisError, FuncInfo, Project, walk_local, call_name
from ..paths import PathAnalysis, PState, norm_lit, run_paths, subst_text
from ..report import Report

RANGE_BOUNDS = {"SERVER_ERROR_START": "bound of the reserved range, not a code", "SERVER_ERROR_END": "bound of the reserved range, not a code"}

# R4: helpers that are documented to report an error as False instead of raising
BOOL_HELPERS = {
    "chuk_mcp.protocol.messages.ping.send_messages:send_ping": "documented boolean call (C07 statement)",
    "chuk_mcp.protocol.messages.resources.send_messages:send_resources_subscribe": "documented boolean call (C07 statement)",
    "chuk_mcp.protocol.messages.resources.send_messages:send_resources_unsubscribe": "documented boolean call (C07 statement)",
}
# R4: handlers allowed to convert instead of re-raising, one reason per symbol
CONVERTERS = {
    "chuk_mcp.protocol.messages.initialize.send_messages:send_initialize": "may convert -32602 + 'protocol version' into VersionMismatchError (C03); every other path re-raises",
}
# R4: callers that are not request helpers; one named symbol and one reason each.  They are listed in the
# evidence, and any *other* function with a swallowing handler is reported.
NOT_REQUEST_HELPERS = {
    "chuk_mcp.__main__:test_server": "CLI connectivity test: its feature probes print the error and continue",
    "chuk_mcp.mcp_client.host.server_manager:run_command": "multi-server runner reports a failed server and continues with the others",
    "chuk_mcp.transports.stdio.stdio_client:stdio_client_with_initialize": "transport context wrapper that filters shutdown noise by message text and re-raises everything else; the request helper inside it has already raised the classified error (a server message containing 'cancel scope' would surface as contextlib's RuntimeError: recorded, not an obligation of the request API)",
}


def _pure_code_projection(text: str) -> bool:
    """`<error>.get('code'[, <constant default>])` or `<error>['code']` and nothing around it: an `or <default>`,
    an int() coercion or arithmetic would replace some of the server's codes (0 is falsy)."""
    try:
        n = ast.parse(text.replace("<", "(").replace(">", ")"), mode="eval").body
    except SyntaxError:
        return False
    if isinstance(n, ast.Subscript) and isinstance(n.slice, ast.Constant) and n.slice.value == "code":
        return "error" in ast.unparse(n.value)
    if isinstance(n, ast.Call) and isinstance(n.func, ast.Attribute) and n.func.attr == "get" and n.args and isinstance(n.args[0], ast.Constant) and n.args[0].value == "code" and not n.keywords:
        if len(n.args) == 2 and not isinstance(n.args[1], (ast.Constant, ast.Name, ast.UnaryOp, ast.Attribute)):
            return False
        return "error" in ast.unparse(n.func.value)
    return False


def _callers(P: Project, f: FuncInfo) -> set:
    out = set()
    for g in P.funcs.values():
        for c in walk_local(g.node):
            if isinstance(c, ast.Call) and P.resolve_call(g, c) is f:
                out.add(g.fq)
    return out


def _serves_only_bool_helpers(P: Project, f: FuncInfo) -> bool:
    inl = getattr(P, "inliner", None)
    if inl is None or not inl.is_new(f):
        return False
    cs = _callers(P, f)
    return bool(cs) and cs <= set(BOOL_HELPERS)


def check(P: Project, R: Report) -> None:
    R.rule("R1", "NON_RETRYABLE_ERRORS and RETRYABLE_ERRORS are disjoint and every named code constant belongs to exactly one of them")
    R.rule("R2", "is_retryable_error is total: on every path it returns the complement of membership in NON_RETRYABLE_ERRORS and never raises")
    R.rule("R3", "in the response processor every path with error present ends in raise RetryableError/NonRetryableError chosen by is_retryable_error(code), carrying code and the server's message; no return on that branch")
    R.rule("R4", "no function that awaits send_message (directly or through a helper) swallows the two error classes, except the three documented boolean helpers, which must return False")
    errors = P.module(A.MOD_ERRORS)

    # ---------------------------------------------------------------- R5: the tables read off by R1/R2 are the tables at run time
    R.rule("R5", "the classification is a function of the code alone: nothing in the package changes NON_RETRYABLE_ERRORS or RETRYABLE_ERRORS after import — no in-place operator, mutating method, element store or global rebinding applied to them or to a local that is just another name for them (a copy may be changed freely)")
    from ..tables import table_mutations

    muts = table_mutations(P, A.MOD_ERRORS, {"NON_RETRYABLE_ERRORS", "RETRYABLE_ERRORS"})
    for rel, line, qual, what in muts:
        R.ob("R5", f"{qual}: the code tables are only read", False, f"{rel}:{line}",
             f"{what}: from then on the same code is classified differently than before (and the two sets need no longer be disjoint) — the error class a caller sees depends on what ran earlier in the process")
    R.ob("R5", "no construct in the package mutates the code tables", not muts, errors.rel + ":1", f"{len(muts)} mutation site(s)", sample="R5 code tables: read-only everywhere")

    # ---------------------------------------------------------------- R1
    non_retry = module_const(P, A.MOD_ERRORS, "NON_RETRYABLE_ERRORS")
    retry = module_const(P, A.MOD_ERRORS, "RETRYABLE_ERRORS")
    R.need(isinstance(non_retry, (set, frozenset)) and isinstance(retry, (set, frozenset)), "error code sets are not set displays")
    named = {}
    for n in errors.tree.body:
        if isinstance(n, ast.Assign) and len(n.targets) == 1 and isinstance(n.targets[0], ast.Name):
            nm = n.targets[0].id
            if nm.isupper() or (nm.replace("_", "").isupper() and nm.replace("_", "").isalpha()):
                v = try_fold(P, errors, n.value)
                if isinstance(v, int) and not isinstance(v, bool) and nm not in RANGE_BOUNDS:
                    named[nm] = v
    # names the errors module re-exports from wherever the constants were moved to
    for local_name, (tm, tn) in sorted(errors.imports.items()):
        if tn and (local_name.isupper() or (local_name.replace("_", "").isupper() and local_name.replace("_", "").isalpha())) and local_name not in named and local_name not in RANGE_BOUNDS:
            v = try_fold(P, errors, ast.Name(id=local_name, ctx=ast.Load()))
            if isinstance(v, int) and not isinstance(v, bool):
                named[local_name] = v
    R.need(len(named) >= 10, f"only {len(named)} named integer code constants found in errors.py (14 confirmed by hand)")
    R.extra["named_codes"] = {k: v for k, v in sorted(named.items())}
    both = sorted(non_retry & retry)
    R.ob("R1", "sets-disjoint", not both, errors.rel, f"codes in both sets: {both}" if both else f"{len(non_retry)} permanent, {len(retry)} retryable, disjoint")
    for nm, v in sorted(named.items()):
        n_in = (v in non_retry) + (v in retry)
        R.ob("R1", f"code {nm}", n_in == 1, errors.rel, f"{nm}={v} is in {n_in} of the two sets (must be exactly one)",
             sample=f"R1 {nm}={v}: " + ("permanent" if v in non_retry else "retryable" if v in retry else "UNCLASSIFIED"))
    stray = sorted((set(non_retry) | set(retry)) - set(named.values()))
    R.ob("R1", "no-unnamed-member", not stray, errors.rel, f"set members that are not named code constants: {stray}")

    # ---------------------------------------------------------------- R2
    fi = P.func(A.MOD_ERRORS, "is_retryable_error")
    R.fn(fi.fq)
    params = fi.positional_params()
    R.need(len(params) == 1, "is_retryable_error no longer takes exactly one parameter")
    p = params[0]
    an, out = run_paths(fi.node, fallible=False)
    R.paths += len(out.ret) + len(out.exc) + len(out.normal)
    R.ob("R2", "no-raise", not out.exc, fi.where, "is_retryable_error has a raising exit: " + ", ".join(sorted({t for _s, t, _n in out.exc})))
    R.ob("R2", "no-fall-off", not out.normal, fi.where, "a path falls off the end (returns None)")
    member, non_member = f"{p} in NON_RETRYABLE_ERRORS", f"{p} not in NON_RETRYABLE_ERRORS"
    R.need(out.ret, "is_retryable_error has no return")
    # The classifier written as a lookup (a disposition table, a default for unlisted codes) instead of the membership
    # test: decided by reading its value off the body for every named code and for codes in no table.  That is exact as
    # long as the code is only used as a key or compared for (in)equality — an ordering test or arithmetic on the code
    # (a range fast path) makes unlisted codes differ from one another, and the path rule below speaks instead.
    from ..consteval import NotConstant, fold_function

    uses = [n for n in ast.walk(fi.node) if isinstance(n, ast.Name) and n.id == p and isinstance(n.ctx, ast.Load)]
    parents = {id(c): n for n in ast.walk(fi.node) for c in ast.iter_child_nodes(n)}
    key_only = True
    for u in uses:
        par = parents.get(id(u))
        if isinstance(par, ast.Compare) and all(isinstance(o, (ast.In, ast.NotIn, ast.Eq, ast.NotEq)) for o in par.ops):
            continue
        if isinstance(par, ast.Call) and isinstance(par.func, ast.Attribute) and par.func.attr == "get" and par.args and par.args[0] is u:
            continue
        if isinstance(par, ast.Subscript) and par.slice is u:
            continue
        if isinstance(par, (ast.JoinedStr, ast.FormattedValue)) or (isinstance(par, ast.Call) and ast.unparse(par.func).split(".")[0] in ("logging", "logger")):
            continue
        key_only = False
    syntactic = all(node.value is not None and (norm_lit(ast.parse(subst_text(node.value, st), mode="eval").body, True) in (non_member, "True", "False")) for st, node in out.ret)
    if key_only and not syntactic:
        universe = sorted(set(named.values()) | set(non_retry) | set(retry)) + [0, 1, -1, -32099, 12345, -40000]
        try:
            wrong = [(c, fold_function(P, fi, [c])) for c in universe]
        except NotConstant as e:
            raise AnalysisError(f"{fi.module.rel}: is_retryable_error is neither the membership test nor a lookup these rules can read off ({e})")
        bad = [(c, v) for c, v in wrong if v is not (c not in non_retry)]
        R.ob("R2", "classifier as a table lookup: value read off for every named code and for unlisted codes", not bad, fi.where,
             f"is_retryable_error({bad[0][0] if bad else ''}) reads off as {bad[0][1] if bad else ''}, the sets say {bad[0][0] not in non_retry if bad else ''}",
             sample=f"R2 lookup form decided over {len(universe)} codes")
        out = type(out)()  # the per-return membership rule does not apply to this form
    for st, node in out.ret:
        val = node.value
        ok = False
        why = ""
        if val is None:
            why = "returns None"
        else:
            txt = norm_lit(ast.parse(subst_text(val, st), mode="eval").body, True)
            if txt == non_member and not ({member, non_member} & st.lits):
                ok = True
            elif txt == "True" and non_member in st.lits:
                ok = True
            elif txt == "False" and member in st.lits:
                ok = True
            elif txt in ("True", "False"):
                why = f"returns {txt} on a path with literals {sorted(st.lits)}"
            else:
                why = f"returns `{txt}` which is not the complement of membership in NON_RETRYABLE_ERRORS"
        R.ob("R2", f"return `{ast.unparse(node)}`", ok, f"{fi.module.rel}:{node.lineno}", why,
             sample=f"R2 is_retryable_error: path {sorted(st.lits)} -> {ast.unparse(node)}")

    # ---------------------------------------------------------------- R3
    wait_fn, loop, recv_assign, root = A.find_wait_loop(P)
    # the processor: callee applied to the received message in the loop's return
    procs = []
    for n in walk_local(loop):
        if isinstance(n, ast.Return) and isinstance(n.value, ast.Call):
            r = P.resolve_call(wait_fn, n.value)
            if isinstance(r, FuncInfo):
                procs.append(r)
    cand = procs or [wait_fn]
    proc = None
    for f in cand:
        if any(isinstance(c, ast.Call) and call_name(c) == "is_retryable_error" for c in walk_local(f.node)):
            proc = f
        elif any(isinstance(c, ast.Compare) and len(c.ops) == 1 and isinstance(c.ops[0], (ast.In, ast.NotIn)) and ast.unparse(c.comparators[0]) in ("NON_RETRYABLE_ERRORS", "RETRYABLE_ERRORS") for c in walk_local(f.node)):
            proc = f  # the classifier's test written out in the processor
    R.need(proc is not None, "anchor: no response processor using is_retryable_error found under the receive loop")
    R.fn(proc.fq, wait_fn.fq)
    an, out = run_paths(proc.node, fallible=False)
    an.parents = A.exception_parents(P)
    R.paths += len(out.ret) + len(out.exc) + len(out.normal)

    def err_present(st: PState):
        return [l for l in st.lits if l.endswith("is not None") and "error" in l]

    def err_absent(st: PState):
        return [l for l in st.lits if l.endswith("is None") and "error" in l]

    raising = [(st, tag, n) for st, tag, n in out.exc if err_present(st)]
    R.need(raising, "anchor: response processor has no raising path under `error is not None`")
    for st, node in out.ret:
        ok = bool(err_absent(st))
        R.ob("R3", f"return `{ast.unparse(node)[:50]}` not reachable with an error", ok, f"{proc.module.rel}:{node.lineno}",
             f"return reachable without having established that error is None (literals {sorted(st.lits)})")
    for st in out.normal:
        R.ob("R3", "no-fall-off", bool(err_absent(st)), proc.where, "falls off the end on the error branch")
    classes_seen = set()
    for st, tag, node in out.exc:
        if not err_present(st):
            R.ob("R3", f"raise {tag} outside error branch", False, f"{proc.module.rel}:{node.lineno}", "raise on a path where error is not present")
            continue
        short = tag.split(".")[-1]
        key = f"raise {short}"
        if short not in ("RetryableError", "NonRetryableError"):
            R.ob("R3", key, False, f"{proc.module.rel}:{node.lineno}", f"error branch raises {tag}, not one of the two documented classes")
            continue
        classes_seen.add(short)
        call = node.exc if isinstance(node, ast.Raise) and isinstance(node.exc, ast.Call) else None
        R.need(call is not None, f"raise at line {node.lineno} is not a constructor call")
        args = [subst_text(a, st) for a in call.args] + [f"{k.arg}={subst_text(k.value, st)}" for k in call.keywords]
        # which literal chose this class
        # the classifier's verdict may be tested directly or through a local it was bound to (`r = is_retryable_error(code)`)
        expanded = [an.origin(l).replace("<", "").replace(">", "") for l in st.lits]
        chooser_pos = [l for l in expanded if l.startswith("is_retryable_error(")]
        chooser_neg = [l for l in expanded if l.startswith("not is_retryable_error(")]
        # the same test written out: `code not in NON_RETRYABLE_ERRORS` is what is_retryable_error(code) returns (R2)
        for l in expanded:
            m_ = re.fullmatch(r"(.+) not in NON_RETRYABLE_ERRORS", l)
            if m_:
                chooser_pos.append(f"is_retryable_error({m_.group(1)})")
            m_ = re.fullmatch(r"(.+) in NON_RETRYABLE_ERRORS", l)
            if m_ and not l.startswith("not ") and not m_.group(1).endswith(" not"):
                chooser_neg.append(f"not is_retryable_error({m_.group(1)})")
        if short == "RetryableError":
            ok_choice = bool(chooser_pos) and not chooser_neg
            chosen = chooser_pos
        else:
            ok_choice = bool(chooser_neg) and not chooser_pos
            chosen = chooser_neg
        R.ob("R3", key + " chosen by is_retryable_error(code)", ok_choice, f"{proc.module.rel}:{node.lineno}",
             f"class {short} raised on a path with classifier literals {chooser_pos + chooser_neg}")
        code_term = None
        if chosen:
            inner = chosen[0]
            inner = inner[len("not "):] if inner.startswith("not ") else inner
            code_term = inner[len("is_retryable_error("):-1]
        # the code argument is the classified code and comes from the error object
        code_arg = None
        kw = {k.arg: subst_text(k.value, st) for k in call.keywords}
        if "code" in kw:
            code_arg = kw["code"]
        elif len(call.args) >= 2:
            code_arg = subst_text(call.args[1], st)
        ok_code = code_arg is not None and code_arg == code_term and _pure_code_projection(an.origin(code_arg))
        R.ob("R3", key + " carries the code", ok_code, f"{proc.module.rel}:{node.lineno}",
             f"code argument `{code_arg}` vs classified `{code_term}` (origin {an.origin(code_arg or '')})",
             sample=f"R3 {proc.qual}: error present ∧ {chosen} -> raise {short}({', '.join(args)[:120]})")
        msg_arg = kw.get("message") or (subst_text(call.args[0], st) if call.args else "")
        ok_msg = ".get('message'" in an.origin(msg_arg)
        if not ok_msg and any(an.origin(l_).replace("<", "").replace(">", "").endswith(".get('message') is None") for l_ in st.lits):
            ok_msg = True  # the server sent no message: the standard text for the code stands in for it
        if not ok_msg:
            # the text may be put together in a mapping that is filled in step by step (`fields["description"] = …`, then
            # `LAYOUT % fields`): what is stored into a mapping the message is built from is part of the message
            reach, todo = set(), [msg_arg]
            while todo:
                t_ = todo.pop()
                for k_ in an.defs:
                    if k_ in t_ and k_ not in reach:
                        reach.add(k_)
                        todo.append(an.defs[k_][0])
            for s_ in walk_local(proc.node):
                if isinstance(s_, ast.Assign) and len(s_.targets) == 1 and isinstance(s_.targets[0], ast.Subscript) and isinstance(s_.targets[0].value, ast.Name):
                    tb_ = st.term(s_.targets[0].value.id)
                    if tb_ in reach and ".get('message'" in an.origin(subst_text(s_.value, st)):
                        ok_msg = True
        # … as data: the server's text is never the template of a formatting operation
        lvp_ = local_values(proc.node)

        def _from_server_message(e_, depth=0) -> bool:
            if depth > 4:
                return False
            if ".get('message'" in ast.unparse(e_) or "['message']" in ast.unparse(e_):
                return True
            for x_ in ast.walk(e_):
                if isinstance(x_, ast.Name):
                    for v_ in lvp_.get(x_.id, []) or []:
                        if v_ is not None and v_ is not e_ and _from_server_message(v_, depth + 1):
                            return True
            return False

        for n_ in walk_local(proc.node):
            tmpl = None
            if isinstance(n_, ast.BinOp) and isinstance(n_.op, ast.Mod) and not isinstance(n_.left, ast.Constant):
                tmpl = n_.left
            elif isinstance(n_, ast.Call) and isinstance(n_.func, ast.Attribute) and n_.func.attr in ("format", "format_map") and not isinstance(n_.func.value, ast.Constant):
                tmpl = n_.func.value
            if tmpl is not None and _from_server_message(tmpl):
                R.ob("R3", key + " carries the server's message as it was sent", False, f"{proc.module.rel}:{n_.lineno}",
                     f"`{ast.unparse(n_)[:70]}` uses text that comes from the server's `message` as a format template: a message containing a percent sign or braces (a percent-encoded URI, `100% used`) raises ValueError/TypeError/KeyError out of the response processor — neither documented class — or is silently rewritten")
        R.ob("R3", key + " carries the server's message", ok_msg, f"{proc.module.rel}:{node.lineno}", f"message argument `{an.origin(msg_arg)[:120]}` does not derive from error['message']")
    R.ob("R3", "both classes raised", classes_seen == {"RetryableError", "NonRetryableError"}, proc.where, f"classes raised on the error branch: {sorted(classes_seen)}")
    # the exception classes: whatever constructor chain each of the two classes resolves to must (a) store .code from the
    # code argument and (b) be total — an exception *constructor* that can raise for some error shape (say, data that is
    # not a dict) replaces the classified error by an unrelated TypeError/ValueError
    from ..paths import is_benign_call

    for cname in ("RetryableError", "NonRetryableError"):
        ci = P.cls(A.MOD_ERRORS, cname)
        init = P.lookup_method(ci, "__init__")
        R.need(init is not None, f"anchor: no __init__ on the hierarchy of {cname}")
        chain = []
        cur, cur_ci = init, (init.cls or ci)
        ps = [x for x in cur.positional_params() if x != "self"]
        code_name = ps[1] if len(ps) >= 2 else None
        stores = False
        fallible = []
        for _ in range(6):
            chain.append(cur)
            R.fn(cur.fq)
            sup = None
            # operations under an isinstance() test (statement or conditional expression) are type-guarded: not counted
            guarded = set()
            for g in (x for stmt in cur.node.body for x in walk_local(stmt)):
                if isinstance(g, ast.If) and "isinstance(" in ast.unparse(g.test):
                    guarded |= {id(y) for b in g.body for y in ast.walk(b)}
                if isinstance(g, ast.IfExp) and "isinstance(" in ast.unparse(g.test):
                    guarded |= {id(y) for y in ast.walk(g.body)}
            for n in (x for stmt in cur.node.body for x in walk_local(stmt)):
                if id(n) in guarded:
                    continue
                if isinstance(n, ast.Assign) and any(isinstance(t, ast.Attribute) and t.attr == "code" and isinstance(t.value, ast.Name) and t.value.id == "self" for t in n.targets):
                    stores = stores or (code_name is not None and isinstance(n.value, ast.Name) and n.value.id == code_name)
                if isinstance(n, ast.Call):
                    nm = call_name(n)
                    if nm in ("super().__init__",) or nm.startswith("super(") and nm.endswith(".__init__"):
                        sup = n
                        continue
                    if nm == "super" or nm.startswith("super("):
                        continue
                    if not is_benign_call(n):
                        fallible.append(f"{cur.qual} line {n.lineno}: `{ast.unparse(n)[:50]}`")
                if isinstance(n, ast.Subscript) and isinstance(n.ctx, ast.Load):
                    fallible.append(f"{cur.qual} line {n.lineno}: `{ast.unparse(n)[:50]}`")
                if isinstance(n, ast.Raise):
                    fallible.append(f"{cur.qual} line {n.lineno}: raise")
            if sup is None:
                break
            # follow the chain to the next user-defined constructor, carrying the code parameter's name along
            parent = None
            for q, c2 in P.classes.items():
                if c2.name in [b.split(".")[-1] for b in cur_ci.bases] and c2.module.name == cur_ci.module.name:
                    parent = c2
            if parent is None:
                break
            nxt = P.lookup_method(parent, "__init__")
            if nxt is None or nxt is cur:
                break
            nps = [x for x in nxt.positional_params() if x != "self"]
            new_code = None
            for i, a in enumerate(sup.args):
                if isinstance(a, ast.Name) and a.id == code_name and i < len(nps):
                    new_code = nps[i]
            for k in sup.keywords:
                if isinstance(k.value, ast.Name) and k.value.id == code_name and k.arg:
                    new_code = k.arg
            code_name = new_code
            cur, cur_ci = nxt, (nxt.cls or parent)
        R.ob("R3", f"{cname}: exception stores .code from its 2nd argument", stores, init.where, "self.code is not assigned from the code parameter anywhere on the constructor chain " + " → ".join(c.qual for c in chain))
        R.ob("R3", f"{cname}: exception constructor is total", not fallible, init.where,
             "the constructor can itself raise for some error shapes, so the caller sees that exception instead of the classified one: " + "; ".join(fallible[:3]),
             sample=f"R3 {cname}: constructor chain {' → '.join(c.qual for c in chain)} is total")

    # ---------------------------------------------------------------- R4
    send = P.func(A.MOD_SEND, "send_message")
    reach = {send.fq}
    changed = True
    calls_to = {}
    while changed:
        changed = False
        for f in P.funcs.values():
            if f.fq in reach:
                continue
            for c, g in A.callees(P, f):
                if g.fq in reach:
                    reach.add(f.fq)
                    changed = True
                    break
    n_sites = 0
    for fq in sorted(reach):
        f = P.funcs[fq]
        if f.module.name == A.MOD_SEND:
            continue
        for t in walk_local(f.node):
            if not isinstance(t, ast.Try):
                continue
            body_calls = []
            for sub in t.body:
                for c in walk_local(sub):
                    if isinstance(c, ast.Call):
                        g = P.resolve_call(f, c)
                        if isinstance(g, FuncInfo) and g.fq in reach:
                            body_calls.append((c, g))
            if not body_calls:
                continue
            for h in t.handlers:
                names = [n.split(".")[-1] for n in PathAnalysis.handler_names(None, h)]  # type: ignore[arg-type]
                catches = set(names) & {"Exception", "BaseException", "RetryableError", "NonRetryableError", "JSONRPCError"}
                if not catches:
                    continue
                n_sites += 1
                R.call_sites += 1
                R.fn(f.fq)
                ha, ho = run_paths(ast.Module(body=h.body, type_ignores=[]), fallible=False)
                exits_normal = bool(ho.normal or ho.brk or ho.cont)
                rets = [n for _s, n in ho.ret]
                key = f"{f.fq} except {'/'.join(sorted(catches))} around {body_calls[0][1].name}"
                where = f"{f.module.rel}:{h.lineno}"
                if f.fq in BOOL_HELPERS:
                    ok = not exits_normal and rets and all(isinstance(r.value, ast.Constant) and r.value.value is False for r in rets) and not ho.exc
                    R.ob("R4", key + " returns False", ok, where, "documented boolean helper must report an error as False on every handler path",
                         sample=f"R4 {f.qual}: handler returns False ({BOOL_HELPERS[f.fq]})")
                elif _serves_only_bool_helpers(P, f):
                    # a new helper that does the request for the documented boolean calls and hands them the outcome: an
                    # error must come back to them as "not acknowledged" (False, alone or first of a tuple)
                    def _false_first(r_):
                        v_ = r_.value
                        if isinstance(v_, ast.Tuple) and v_.elts:
                            v_ = v_.elts[0]
                        return isinstance(v_, ast.Constant) and v_.value is False
                    ok = not exits_normal and rets and all(_false_first(r_) for r_ in rets) and not ho.exc
                    R.ob("R4", key + " reports the error to the boolean helper as False", ok, where,
                         f"a helper serving only the documented boolean calls ends its error arm with {[ast.unparse(r_)[:40] for r_ in rets]} (falls through={exits_normal})",
                         sample=f"R4 {f.qual}: serves {sorted(c_.split(':')[-1] for c_ in _callers(P, f))} — error arm returns False")
                elif f.fq.split(".<locals>")[0] in NOT_REQUEST_HELPERS:
                    # the table names public functions; their nested helpers (whatever they are called) belong to them
                    why = NOT_REQUEST_HELPERS[f.fq.split(".<locals>")[0]]
                    R.sample(f"R4 {f.fq}: not a request helper — {why}")
                    R.ob("R4", key + " (not a request helper)", True, where, why)
                else:
                    tags = {t for _s, t, _n in ho.exc}
                    ok = not exits_normal and not rets and bool(ho.exc)
                    if ok and f.fq not in CONVERTERS:
                        ok = tags <= {"<reraise>"}
                    elif ok:
                        ok = tags <= {"<reraise>", "VersionMismatchError"}
                    R.ob("R4", key + " re-raises", ok, where,
                         f"handler can end without re-raising (falls through={exits_normal}, returns={[ast.unparse(r) for r in rets]}, raises={sorted(tags)})",
                         sample=f"R4 {f.qual}: handler for {sorted(catches)} re-raises on all paths")
    for fq in BOOL_HELPERS:
        R.need(fq in P.funcs, f"anchor vanished: {fq}")
        R.need(fq in reach, f"{fq} no longer reaches send_message")
    R.need(n_sites >= 5, f"R4 matched only {n_sites} handler sites (≥5 confirmed by hand)")
    R.extra["reach_send_message"] = len(reach)
