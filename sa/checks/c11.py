"""C11 — Streamable HTTP: exactly one terminal message per request, whatever the server."""
from __future__ import annotations

import ast
import copy
import os
from typing import Dict, List, Optional, Tuple

from .. import anchors as A
from ..consteval import try_fold
from ..flow import ANY_EXC
from ..model import AnalysisError, ClassInfo, FuncInfo, Project, call_name, kwarg, walk_local
from ..paths import PState, PathAnalysis, run_paths, subst_text, calls_in_order, is_benign_call
from ..report import Report
from ..roles import incoming_send_calls, stream_roles
from ..summaries import contained, fallible_except_contained

# WHATWG event-stream line classes (field, raw line) and what a conformant parser extracts
LINE_CLASSES = [
    ("data field with space", "data: {\"x\":1}", ("data", "{\"x\":1}")),
    ("data field without space", "data:{\"x\":1}", ("data", "{\"x\":1}")),
    ("event field with space", "event: message", ("event", "message")),
    ("event field without space", "event:message", ("event", "message")),
    ("comment", ": keepalive", None),
    ("id field", "id: 7", None),
    ("retry field", "retry: 1000", None),
]


def transport(P: Project) -> ClassInfo:
    return P.cls(A.MOD_HTTP, "StreamableHTTPTransport")


def conditionally_evaluated_deliveries(P: Project, ci: ClassInfo):
    """(function, expression, why) for every call to a method of `ci` from which a send on the incoming stream is reached
    that stands in the right operand of `and`/`or`, or in an arm of a conditional expression: Python evaluates it only when
    the operands before it allow (`answered = answered or await self._route(item)` stops routing after the first hit)."""
    from ..roles import self_closure

    meths = P.methods(ci)
    sends = incoming_send_calls(P, ci)
    direct = {f.name for f in meths.values() if any(isinstance(x, ast.Call) and call_name(x) in sends for x in walk_local(f.node))}
    deliverers = {f.name for f in meths.values() if f.name in direct or set(self_closure(P, ci, f)) & direct}

    def delivers(e) -> bool:
        for x in ast.walk(e):
            if isinstance(x, ast.Call) and call_name(x).startswith("self.") and call_name(x)[5:] in deliverers:
                return True
            if isinstance(x, ast.Call) and call_name(x) in sends:
                return True
        return False

    out = []
    for f in meths.values():
        loops = [l for l in walk_local(f.node) if isinstance(l, (ast.For, ast.AsyncFor, ast.While))]
        for s_ in walk_local(f.node):
            # an accumulator updated from a short-circuit expression that mentions itself: `flag = flag or await route(x)`
            if not (isinstance(s_, ast.Assign) and len(s_.targets) == 1 and isinstance(s_.targets[0], ast.Name)):
                continue
            acc = s_.targets[0].id
            if not any(s_ in list(walk_local(l)) for l in loops):
                continue
            for n in ast.walk(s_.value):
                if isinstance(n, ast.BoolOp):
                    for i, v in enumerate(n.values[1:], 1):
                        before = n.values[:i]
                        if delivers(v) and any(isinstance(x, ast.Name) and x.id == acc for b in before for x in ast.walk(b)):
                            out.append((f, n, f"the delivery is evaluated only while `{acc}` — carried over from the members before — is {'false' if isinstance(n.op, ast.Or) else 'true'}"))
                            break
                elif isinstance(n, ast.IfExp) and (delivers(n.body) != delivers(n.orelse)) and any(isinstance(x, ast.Name) and x.id == acc for x in ast.walk(n.test)):
                    out.append((f, n, f"the delivery is one arm of a conditional expression decided by `{acc}`, carried over from the members before"))
    return out


def find_router(P: Project, ci: ClassInfo) -> FuncInfo:
    c = [f for f in P.methods(ci).values() if any(isinstance(x, ast.Call) and call_name(x) in incoming_send_calls(P, ci) for x in walk_local(f.node))]
    if len(c) != 1:
        raise AnalysisError(f"anchor: expected one method of {ci.name} sending on the incoming stream, found {len(c)}")
    return c[0]


def recognisers(P: Project, module: str) -> List[Tuple[FuncInfo, ast.AST]]:
    """(function, If-chain) pairs that classify SSE lines with startswith on constant prefixes."""
    out = []
    for f in P.funcs_in(module):
        heads = []
        for n in walk_local(f.node):
            if isinstance(n, ast.If) and not any(isinstance(p, ast.If) and len(p.orelse) == 1 and p.orelse[0] is n for p in walk_local(f.node)):
                arms = chain_arms(n)
                for a in arms:
                    t = a.test
                    if isinstance(t, ast.Call) and call_name(t).endswith(".startswith") and t.args and isinstance(t.args[0], ast.Constant) and isinstance(t.args[0].value, str):
                        pfx = t.args[0].value
                        if pfx.strip().rstrip(":") in ("event", "data") and pfx.strip().endswith(":"):
                            heads.append(n)
                            break
        for h in heads:
            out.append((f, h))
    return out


def chain_arms(head: ast.If):
    arms = []
    cur = head
    while isinstance(cur, ast.If):
        arms.append(cur)
        cur = cur.orelse[0] if len(cur.orelse) == 1 and isinstance(cur.orelse[0], ast.If) else None
    return arms


def full_arms(f: FuncInfo, head: ast.If):
    """The arms of the recogniser that starts at `head`, guard clauses included:

        if line.startswith("event:"): …; continue          if line.startswith("event:"): …
        if not line.startswith("data:"): continue     ≡    elif line.startswith("data:"): REST
        REST

    Each arm whose body ends in `continue`/`return` makes what follows it the rest of the chain; a negated prefix test
    that only skips the line makes what follows it the arm of that prefix."""
    arms = chain_arms(head)
    block = None
    for n in [f.node] + list(walk_local(f.node)):
        for field in ("body", "orelse", "finalbody"):
            v = getattr(n, field, None)
            if isinstance(v, list) and head in v:
                block = v
        for h in getattr(n, "handlers", []) or []:
            if head in h.body:
                block = h.body
    if block is None:
        return arms

    def leaves(stmts):
        return bool(stmts) and isinstance(stmts[-1], (ast.Continue, ast.Return))

    if not all(leaves(a.body) for a in arms) or (arms[-1].orelse and not leaves(arms[-1].orelse)):
        return arms
    rest = block[block.index(head) + 1:]
    out = list(arms)
    i = 0
    while i < len(rest):
        s_ = rest[i]
        if not isinstance(s_, ast.If):
            break
        t = s_.test
        if isinstance(t, ast.UnaryOp) and isinstance(t.op, ast.Not) and not s_.orelse and len(s_.body) == 1 and isinstance(s_.body[0], (ast.Continue, ast.Return)):
            arm = ast.If(test=t.operand, body=rest[i + 1:] or [ast.Pass()], orelse=[])
            out.append(ast.copy_location(arm, s_))
            break
        sub = chain_arms(s_)
        out.extend(sub)
        if not all(leaves(a.body) for a in sub) or (sub[-1].orelse and not leaves(sub[-1].orelse)):
            break
        i += 1
    return out


def _fold_str(node: ast.AST, env: Dict[str, str]):
    """Constant folding of the str operations the recognisers use (slices, strip, startswith) over `env`."""
    if isinstance(node, ast.Constant) and isinstance(node.value, (str, int)):
        return node.value
    if isinstance(node, ast.Name) and node.id in env:
        return env[node.id]
    if isinstance(node, ast.Subscript):
        base = _fold_str(node.value, env)
        if isinstance(base, str) and isinstance(node.slice, ast.Slice):
            lo = _fold_str(node.slice.lower, env) if node.slice.lower is not None else None
            hi = _fold_str(node.slice.upper, env) if node.slice.upper is not None else None
            if (lo is None or isinstance(lo, int)) and (hi is None or isinstance(hi, int)):
                return base[lo:hi]
        return None
    if isinstance(node, ast.Call) and isinstance(node.func, ast.Attribute):
        base = _fold_str(node.func.value, env)
        args = [_fold_str(a, env) for a in node.args]
        if isinstance(base, str) and all(isinstance(a, str) for a in args) and not node.keywords:
            m = node.func.attr
            if m in ("strip", "lstrip", "rstrip", "removeprefix") and len(args) <= 1:
                return getattr(base, m)(*args)
            if m in ("startswith", "endswith") and len(args) == 1:
                return getattr(base, m)(*args)
    if isinstance(node, ast.Call) and isinstance(node.func, ast.Name) and node.func.id == "len" and len(node.args) == 1 and not node.keywords:
        v = _fold_str(node.args[0], env)
        return len(v) if isinstance(v, str) else None
    if isinstance(node, ast.IfExp):
        c = _fold_str(node.test, env)
        if isinstance(c, (bool, str)):
            return _fold_str(node.body if c else node.orelse, env)
        return None
    if isinstance(node, ast.UnaryOp) and isinstance(node.op, ast.Not):
        v = _fold_str(node.operand, env)
        return (not v) if isinstance(v, (bool, str)) else None
    if isinstance(node, ast.Compare) and len(node.ops) == 1 and isinstance(node.ops[0], (ast.Eq, ast.NotEq)):
        a, b = _fold_str(node.left, env), _fold_str(node.comparators[0], env)
        if isinstance(a, str) and isinstance(b, str):
            return (a == b) if isinstance(node.ops[0], ast.Eq) else (a != b)
    return None


def recognise(arms, line: str):
    """Which arm of the chain takes `line`, and the text it extracts: the arm's leading statements are
    folded over the constant line (slices, strip, `if x.startswith(' '): x = x[1:]`)."""
    # the variable holding the line: receiver of the first startswith(<const>) test of the chain
    line_var = None
    for a in arms:
        t = a.test
        if isinstance(t, ast.Call) and call_name(t).endswith(".startswith") and isinstance(t.func, ast.Attribute) and isinstance(t.func.value, ast.Name):
            line_var = t.func.value.id
            break
    for a in arms:
        t = a.test
        if isinstance(t, ast.Call) and call_name(t).endswith(".startswith") and t.args and isinstance(t.args[0], ast.Constant) and isinstance(t.func, ast.Attribute) and isinstance(t.func.value, ast.Name):
            pfx = t.args[0].value
            var = t.func.value.id
            if not line.startswith(pfx):
                continue
            if pfx.strip().rstrip(":") not in ("event", "data", "id", "retry", ""):
                return (None, None)  # some other prefix arm took the line: it is not dispatched as event/data
            env = {var: line}
            extracted = None

            def run(stmts):
                nonlocal extracted
                for s in stmts:
                    if isinstance(s, ast.Assign) and len(s.targets) == 1 and isinstance(s.targets[0], ast.Name):
                        v = _fold_str(s.value, env)
                        if isinstance(v, str):
                            env[s.targets[0].id] = v
                            extracted = s.targets[0].id
                        else:
                            return False
                    elif isinstance(s, ast.If) and not s.orelse:
                        c = _fold_str(s.test, env)
                        if c is True:
                            if run(s.body) is False:
                                return False
                        elif c is not False:
                            return False
                    else:
                        return False
                return True

            # what the arm hands on: the argument of an `.append(…)` / the last folded assignment
            handed = []

            def run2(stmts):
                nonlocal extracted
                for s in stmts:
                    if isinstance(s, ast.Assign) and len(s.targets) == 1 and isinstance(s.targets[0], ast.Name):
                        v = _fold_str(s.value, env)
                        if not isinstance(v, str):
                            return False
                        env[s.targets[0].id] = v
                        extracted = s.targets[0].id
                    elif isinstance(s, ast.If):
                        c = _fold_str(s.test, env)
                        if c is True or (isinstance(c, str) and c):
                            if run2(s.body) is False:
                                return False
                        elif c is False or c == "":
                            if run2(s.orelse) is False:
                                return False
                        else:
                            return False
                    elif isinstance(s, ast.Expr) and isinstance(s.value, ast.Call) and isinstance(s.value.func, ast.Attribute) and s.value.func.attr == "append" and len(s.value.args) == 1:
                        v = _fold_str(s.value.args[0], env)
                        if not isinstance(v, str):
                            return False
                        handed.append(v)
                    elif isinstance(s, (ast.Assign, ast.AugAssign, ast.AnnAssign)):
                        v = _fold_str(s.value, env) if s.value is not None else None
                        if isinstance(v, str):
                            handed.append(v)
                        elif any(isinstance(n, ast.Name) and n.id in env for n in ast.walk(s)):
                            return False
                    elif isinstance(s, ast.Expr):
                        continue  # logging and the like
                    else:
                        return False
                return True

            env = {var: line}
            extracted = None
            complete = run2(a.body)
            if handed:
                return pfx.strip().rstrip(":"), handed[-1]
            if complete is False and not extracted:
                return ("?", None)
            return pfx.strip().rstrip(":"), (env.get(extracted) if extracted else None)
        else:
            # an arm that is not a prefix test (`if not line:`, `elif line == "":`): decided by folding it over the sample line
            c = _fold_str(t, {line_var: line}) if line_var else None
            if c is False:
                continue
            if c is True:
                return (None, None)  # the line is taken by a non-field arm (blank line handling)
            return ("?", None)
    return (None, None)


def grammar_rule(P: Project, R: Report, module: str, rule: str, label: str) -> int:
    recs = recognisers(P, module)
    R.need(recs, f"anchor: no SSE line recogniser found in {module}")
    n = 0
    for f, head in recs:
        R.fn(f.fq)
        arms = full_arms(f, head)
        where = f"{f.module.rel}:{head.lineno}"
        gots = [recognise(arms, line) for _c, line, _w in LINE_CLASSES]
        if all(g[0] == "?" for g in gots):
            # not one sample line could be classified: the recogniser is written in a shape this rule cannot evaluate
            raise AnalysisError(f"the SSE line recogniser of {f.qual} is written in a shape this rule cannot evaluate (expected an if/elif chain of startswith tests on the line)")
        for cname, line, want in LINE_CLASSES:
            got = recognise(arms, line)
            n += 1
            if want is None:
                R.ob(rule, f"{label}{f.qual}: {cname} is ignored", got[0] is None, where, f"`{line}` taken as {got}")
            else:
                ok = got == want
                R.ob(rule, f"{label}{f.qual}: {cname} is recognised", ok, where,
                     f"the event-stream grammar makes the space after the colon optional: `{line}` must yield {want}, the recogniser yields {got}",
                     sample=f"{rule} {f.qual}: `{line}` → {got}")
    return n


def blank_line_resets_event(P: Project, R: Report, module: str, rule: str) -> int:
    """In every SSE line recogniser: the variable an `event:` line sets is reset on every path through the blank-line
    arm (the end of an event), whether or not the event had data.  Otherwise the name of a data-less event
    (`event: ping` + blank line) is taken for the type of the next one, which is then not delivered."""
    n = 0
    for f, head in recognisers(P, module):
        arms = chain_arms(head)
        ev_targets = set()
        line_var = None
        for a in arms:
            t = a.test
            if isinstance(t, ast.Call) and call_name(t).endswith(".startswith") and t.args and isinstance(t.args[0], ast.Constant) and isinstance(t.func.value, ast.Name):
                line_var = line_var or t.func.value.id
                if str(t.args[0].value).strip() == "event:":
                    for s_ in walk_local(ast.Module(body=a.body, type_ignores=[])):
                        if isinstance(s_, ast.Assign) and len(s_.targets) == 1:
                            ev_targets.add(ast.unparse(s_.targets[0]))
        if not ev_targets or line_var is None:
            continue
        # the blank-line arm: `if not line:` body / `if line: … else:` orelse / `if line == "":` body, around or beside the chain
        blank = None
        for x in walk_local(f.node):
            if not isinstance(x, ast.If):
                continue
            tt = ast.unparse(x.test)
            if tt in (f"not {line_var}", f"{line_var} == ''", f"len({line_var}) == 0"):
                blank = x.body
            elif tt == line_var and x.orelse:
                blank = x.orelse
            if blank is not None:
                break
        if blank is None:
            raise AnalysisError(f"{f.module.rel}: {f.qual} sets the event name from `event:` lines but its blank-line handling is written in a shape this rule cannot read")
        for E in sorted(ev_targets):
            def sev(stmt, st, an, E=E):
                if isinstance(stmt, ast.Assign):
                    for t_ in stmt.targets:
                        pairs = [(t_, stmt.value)]
                        if isinstance(t_, ast.Tuple) and isinstance(stmt.value, ast.Tuple) and len(t_.elts) == len(stmt.value.elts):
                            pairs = list(zip(t_.elts, stmt.value.elts))
                        for tt_, v in pairs:
                            if ast.unparse(tt_) == E:
                                return "reset" if isinstance(v, ast.Constant) and v.value in (None, "") else "set"
                return None

            ba, bo = run_paths(ast.Module(body=blank, type_ignores=[]), stmt_event_of=sev, fallible=False)
            ends = list(bo.normal) + list(bo.cont) + [st for st, _n in bo.ret]
            bad = [st for st in ends if not st.events or st.events[-1] != "reset"]
            n += 1
            R.ob(rule, f"{f.qual}: a blank line resets the pending event name `{E}` on every path", not bad, f"{f.module.rel}:{blank[0].lineno}",
                 f"a path through the blank-line handling leaves `{E}` as it was (under {sorted(l[:50] for l in bad[0].lits)[:4] if bad else ''}): the name of an event that carried no data is applied to the next event, which is then dropped as an unknown type",
                 sample=f"{rule} {f.qual}: blank line → {E} = None on all {len(ends)} paths")
    return n


def field_form_event_reset(P: Project, R: Report, module: str, rule: str) -> int:
    """The same obligation as `blank_line_resets_event` for a recogniser written over (field, value) pairs, possibly as a
    small class of its own:   field, _, value = line.partition(":") … if field == "event": self._event = value …
    and a blank-line arm that may do its work through a method of the same class (`self._end_of_block()`): the place an
    `event` field stores the name in is cleared on every path through the blank-line handling."""
    n = 0
    for f in P.funcs_in(module):
        ev_targets, line_var = set(), None
        for x in walk_local(f.node):
            if isinstance(x, ast.If) and isinstance(x.test, ast.Compare) and len(x.test.ops) == 1 and isinstance(x.test.ops[0], ast.Eq):
                sides = [x.test.left, x.test.comparators[0]]
                if any(isinstance(s_, ast.Constant) and s_.value == "event" for s_ in sides) and any(isinstance(s_, ast.Name) for s_ in sides):
                    for s_ in walk_local(ast.Module(body=x.body, type_ignores=[])):
                        if isinstance(s_, ast.Assign) and len(s_.targets) == 1 and isinstance(s_.targets[0], (ast.Name, ast.Attribute)):
                            ev_targets.add(ast.unparse(s_.targets[0]))
        if not ev_targets:
            continue
        # the line variable: what the field was cut from (`line.partition(":")` / `line.split(":", 1)`)
        for x in walk_local(f.node):
            if isinstance(x, ast.Call) and isinstance(x.func, ast.Attribute) and x.func.attr in ("partition", "split") and x.args and isinstance(x.args[0], ast.Constant) and x.args[0].value == ":" and isinstance(x.func.value, ast.Name):
                line_var = x.func.value.id
        if line_var is None:
            raise AnalysisError(f"{f.module.rel}: {f.qual} reads `event` fields but the line they are cut from was not found")
        blank = None
        for x in walk_local(f.node):
            if isinstance(x, ast.If):
                tt = ast.unparse(x.test)
                if tt in (f"not {line_var}", f"{line_var} == ''", f"len({line_var}) == 0"):
                    blank = x.body
                elif tt == line_var and x.orelse:
                    blank = x.orelse
                if blank is not None:
                    break
        if blank is None:
            raise AnalysisError(f"{f.module.rel}: {f.qual} sets the event name from `event` fields but its blank-line handling is written in a shape this rule cannot read")
        sibs = {g.name: g for g in P.funcs.values() if g.cls is not None and g.cls is f.cls and g.parent is None} if f.cls is not None else {}
        top = f
        while top.parent is not None:
            top = top.parent
        nested = {g.name: g for g in P.funcs.values() if g.parent is not None and (g.parent is f or g.parent is top) and g is not f}
        for E in sorted(ev_targets):
            def sev(stmt, st, an, E=E):
                if isinstance(stmt, ast.Assign):
                    for t_ in stmt.targets:
                        pairs = [(t_, stmt.value)]
                        if isinstance(t_, ast.Tuple) and isinstance(stmt.value, ast.Tuple) and len(t_.elts) == len(stmt.value.elts):
                            pairs = list(zip(t_.elts, stmt.value.elts))
                        for tt_, v in pairs:
                            if ast.unparse(tt_) == E:
                                return ["reset" if isinstance(v, ast.Constant) and v.value in (None, "") else "set"]
                return []

            def summary(g, depth=0):
                """'reset' if every way out of the method has cleared E last, 'set' if every way out has stored something else
                last, None if it never touches E, 'maybe' otherwise"""
                ga, go = run_paths(g.node, stmt_event_of=sev, event_of=(lambda c, st, an: cev(c, st, an, depth + 1)) if depth < 2 else None, fallible=False)
                outs = [st for st, _n in go.ret] + list(go.normal)
                last = {(st.events[-1] if st.events else None) for st in outs}
                return next(iter(last)) if len(last) == 1 else "maybe"

            def cev(call, st, an, depth=0):
                nm = call_name(call)
                if nm.startswith("self.") and nm[5:] in sibs and sibs[nm[5:]] is not f:
                    return summary(sibs[nm[5:]], depth)
                if isinstance(call.func, ast.Name) and call.func.id in nested:
                    return summary(nested[call.func.id], depth)  # a closure of the recogniser (an object's method read as one)
                return None

            ba, bo = run_paths(ast.Module(body=blank, type_ignores=[]), stmt_event_of=sev, event_of=cev, fallible=False)
            ends = list(bo.normal) + list(bo.cont) + [st for st, _n in bo.ret]
            bad = [st for st in ends if not st.events or st.events[-1] != "reset"]
            n += 1
            R.fn(f.fq)
            R.ob(rule, f"{f.qual}: a blank line resets the pending event name `{E}` on every path", not bad, f"{f.module.rel}:{blank[0].lineno}",
                 f"a path through the blank-line handling leaves `{E}` as it was (what it does last about it: {bad[0].events[-1] if bad and bad[0].events else 'nothing'}): the name of an event that carried no data (`event: keepalive` + empty data + blank line) is applied to the next event, and a message framed as a default-type event right after it is dropped as an unknown type",
                 sample=f"{rule} {f.qual}: blank line → {E} cleared on all {len(ends)} paths")
    return n


FALSY_BUT_PRESENT = {"result": "{} / [] / 0 / \"\" / false / null are results", "id": "0 and \"\" are ids", "params": "{} and [] are params", "error": "an empty error object is still an error answer"}


def payload_truthiness(P: Project, R: Report, modules, rule: str) -> int:
    """No carrier decides what a parsed wire object *is* by the truthiness of a member that may be present and falsy:
    `if data.get("result"):`, `any(data.get(m) for m in ("method", "result", "error"))`, `data["id"] and …`.  Presence is
    `"result" in data` / `is not None`; a truthiness test drops or misroutes `"result": {}`, id 0, `"params": []`."""
    from ..consteval import try_fold

    n_sites = 0
    for mod in modules:
        m = P.module(mod)
        for f in P.funcs_in(mod):
            parents = {}
            for x in ast.walk(f.node):
                for c_ in ast.iter_child_nodes(x):
                    parents[id(c_)] = x

            def member_keys(e) -> list:
                """the member names `e` may read, if `e` is `<x>.get(K…)` / `<x>[K]`"""
                k = None
                if isinstance(e, ast.Call) and isinstance(e.func, ast.Attribute) and e.func.attr == "get" and 1 <= len(e.args) <= 2 and not e.keywords:
                    if len(e.args) == 2 and not (isinstance(e.args[1], ast.Constant) and not e.args[1].value):
                        return []  # a truthy default changes the question
                    k = e.args[0]
                elif isinstance(e, ast.Subscript):
                    k = e.slice
                if k is None:
                    return []
                if isinstance(k, ast.Constant) and isinstance(k.value, str):
                    return [k.value]
                if isinstance(k, ast.Name):
                    # the variable of a comprehension / loop over a constant tuple of member names
                    for x in ast.walk(f.node):
                        it = None
                        if isinstance(x, ast.comprehension) and isinstance(x.target, ast.Name) and x.target.id == k.id:
                            it = x.iter
                        elif isinstance(x, (ast.For,)) and isinstance(x.target, ast.Name) and x.target.id == k.id:
                            it = x.iter
                        if it is not None:
                            v = try_fold(P, m, it)
                            if isinstance(v, (tuple, list, set, frozenset)) and all(isinstance(y, str) for y in v):
                                return sorted(v)
                return []

            def in_truth_position(e) -> bool:
                cur, child = parents.get(id(e)), e
                while isinstance(cur, (ast.BoolOp,)) or (isinstance(cur, ast.UnaryOp) and isinstance(cur.op, ast.Not)):
                    child, cur = cur, parents.get(id(cur))
                if isinstance(cur, (ast.If, ast.While, ast.IfExp)) and cur.test is child:
                    return True
                if isinstance(cur, (ast.GeneratorExp, ast.ListComp)) and cur.elt is child:
                    g = parents.get(id(cur))
                    return isinstance(g, ast.Call) and isinstance(g.func, ast.Name) and g.func.id in ("any", "all")
                if isinstance(cur, ast.comprehension) and child in cur.ifs:
                    return True
                if isinstance(cur, ast.Call) and isinstance(cur.func, ast.Name) and cur.func.id == "bool" and child in cur.args:
                    return True
                return False

            for e in walk_local(f.node):
                keys = [k for k in member_keys(e) if k in FALSY_BUT_PRESENT]
                if not keys or not in_truth_position(e):
                    continue
                n_sites += 1
                R.fn(f.fq)
                R.ob(rule, f"{f.qual}: no wire member is judged by its truthiness", False, f"{f.module.rel}:{e.lineno}",
                     f"`{ast.unparse(e)[:50]}` is used as a truth value for member(s) {keys}: {'; '.join(FALSY_BUT_PRESENT[k] for k in keys)} — a message carrying such a value is taken for something else (not a JSON-RPC message, not a response, not a request) and is dropped or misrouted on this carrier while the others deliver it")
    return n_sites


def _slice(stmts, names):
    """The statements that mention one of `names`, with the control structure around them."""
    out = []
    for s in stmts:
        if not any(isinstance(n, ast.Name) and n.id in names for n in ast.walk(s)):
            continue
        if isinstance(s, (ast.If, ast.For, ast.AsyncFor, ast.While, ast.With, ast.AsyncWith, ast.Try)):
            c = copy.copy(s)
            for fld in ("body", "orelse", "finalbody"):
                if hasattr(c, fld):
                    blk = _slice(getattr(s, fld), names)
                    setattr(c, fld, blk or ([ast.copy_location(ast.Pass(), s)] if fld == "body" else []))
            if isinstance(s, ast.Try):
                hs = []
                for h in s.handlers:
                    h2 = copy.copy(h)
                    h2.body = _slice(h.body, names) or [ast.copy_location(ast.Pass(), h)]
                    hs.append(h2)
                c.handlers = hs
            out.append(c)
        else:
            out.append(s)
    return out


def _session_header_last(P, R, send, hdr, rel):
    """R5, order: between the store of the session attribute into the header mapping and the POST nothing else can
    write that key (a copy of configured headers, an update) — otherwise a stale configured value wins over the
    most recent id."""
    holder = {ast.unparse(s.targets[0].value) for s in hdr}
    if len(holder) != 1 or not all(isinstance(s.targets[0].value, ast.Name) for s in hdr):
        raise AnalysisError(f"{rel}: the session header is stored into something other than one local mapping ({sorted(holder)})")
    names = set(holder)
    grew = True
    while grew:  # the mapping under its other local names (`headers = built`)
        grew = False
        for n in walk_local(send.node):
            if isinstance(n, ast.Assign) and isinstance(n.value, ast.Name) and n.value.id in names:
                for t in n.targets:
                    if isinstance(t, ast.Name) and t.id not in names:
                        names.add(t.id)
                        grew = True
    body = _slice(send.node.body, names)
    SID = "mcp-session-id"

    def ev(stmt, st, an):
        if isinstance(stmt, (ast.Assign, ast.AugAssign)):
            tg = stmt.targets if isinstance(stmt, ast.Assign) else [stmt.target]
            for t in tg:
                if isinstance(t, ast.Subscript) and isinstance(t.value, ast.Name) and t.value.id in names:
                    k = t.slice
                    if isinstance(k, ast.Constant):
                        if str(k.value).lower() == SID:
                            return "sid:" + ast.unparse(stmt.value)
                        continue
                    kt = subst_text(k, st)
                    raw = ast.unparse(k)
                    spared = any(SID in l.lower() and (raw in l or kt in l) and (" != " in l or " not in " in l) for l in st.lits)
                    if not spared:
                        return f"touch:{ast.unparse(t)} = {ast.unparse(stmt.value)[:40]}"
                if isinstance(t, ast.Name) and t.id in names and isinstance(stmt, ast.AugAssign):
                    return f"touch:{ast.unparse(stmt)[:60]}"
                if isinstance(t, ast.Name) and t.id in names and not (isinstance(stmt.value, ast.Name) and stmt.value.id in names):
                    if any(isinstance(n, ast.Name) and n.id in names for n in ast.walk(stmt.value)) and not isinstance(stmt.value, ast.Name):
                        return f"touch:{ast.unparse(stmt)[:60]}"
        calls = [c for c in ast.walk(stmt) if isinstance(c, ast.Call)] if isinstance(stmt, (ast.Expr, ast.Assign, ast.Return, ast.AnnAssign)) else []
        for c in calls:
            if isinstance(c.func, ast.Attribute) and isinstance(c.func.value, ast.Name) and c.func.value.id in names and c.func.attr in ("update", "__setitem__", "pop", "clear"):  # setdefault cannot replace a key that is there
                return f"touch:{ast.unparse(c)[:60]}"
        return None

    def cev(call, st, an):
        if call_name(call).endswith((".post", ".stream", ".request")):
            h = kwarg(call, "headers")
            return "post:" + (ast.unparse(h) if h is not None else "<none>")
        return None

    an, out = run_paths(ast.Module(body=body, type_ignores=[]), event_of=cev, stmt_event_of=ev, fallible=False)
    ends = list(out.normal) + [st for st, _n in out.ret] + [st for st, _t, _n in out.exc]
    posted = 0
    seen = set()
    for st in ends:
        evs = list(st.events)
        pi = next((i for i, e in enumerate(evs) if e.startswith("post:")), None)
        if pi is None:
            continue
        posted += 1
        sent = evs[pi][5:]
        pre = [e for e in evs[:pi] if e.startswith(("sid:", "touch:"))]
        has_sid = "self._session_id" in st.lits or "self._session_id is not None" in st.lits
        key = (tuple(pre), has_sid, sent)
        if key in seen:
            continue
        seen.add(key)
        R.ob("R5", "the POST sends the mapping the session header was stored into", sent in names, f"{rel}:{send.node.lineno}", f"the request is sent with headers={sent}, the session id was stored into {sorted(names)}")
        if not has_sid:
            continue
        last_sid = max((i for i, e in enumerate(pre) if e.startswith("sid:")), default=None)
        later = [e[6:] for e in pre[last_sid + 1:]] if last_sid is not None else []
        R.ob("R5", "with a session id at hand the header is stored, and nothing that can write the same key follows before the POST", last_sid is not None and not later, f"{rel}:{hdr[0].lineno}",
             (f"after `{ast.unparse(hdr[0])}` the mapping is written again by `{later[0]}` before the request goes out: a configured or stale Mcp-Session-Id replaces the most recent one" if later else "a path reaches the POST with a session id known but without the header stored"),
             sample=f"R5 header writes before the POST, in order: {[e[:50] for e in pre]}")
    R.need(posted >= 1, "anchor: no path of the header slice reaches the POST")


def check(P: Project, R: Report) -> None:
    R.rule("R1", "terminal accounting: on every path of the per-message send routine after the POST was issued for a message with an id, at least one server message was delivered or exactly one terminal message carrying the request's id was synthesised; a branch whose only action may deliver nothing needs a fallback synthesis; error exits synthesise exactly once")
    R.rule("R2", "SSE grammar table: each line recogniser accepts `data:`/`event:` with and without the optional space and ignores comments/id/retry; an event without an event field is dispatched as the default type `message`")
    R.rule("R3", "array bodies: between the JSON decoder and the single-message validator a list is recognised and its members are routed one by one")
    R.rule("R4", "loop survival: no exception edge, break or return leaves the sender loop body (a failing request does not stop later ones)")
    R.rule("R5", "session id: the request header is built from the session attribute read at send time, and the attribute is updated from the response header before the body is dispatched")
    ci = transport(P)
    meths = P.methods(ci)
    router = find_router(P, ci)
    R.fn(router.fq)
    R.ob("R1", "the router is contained (cannot raise into the send routine)", contained(P, router), router.where, "a routing failure would reach the send routine's handlers and be answered with a second synthesised message")
    # the per-message routine: the method that POSTs
    posters = [f for f in meths.values() if any(isinstance(c, ast.Call) and call_name(c).endswith(".post") for c in walk_local(f.node))]
    R.need(len(posters) == 1, f"anchor: expected one StreamableHTTPTransport method issuing the POST, found {len(posters)}")
    send = posters[0]
    R.fn(send.fq)
    rel = send.module.rel

    # ---- helper summaries (computed): delivers / may deliver nothing / synthesises
    helper_summary: Dict[str, str] = {}

    def summarise(f: FuncInfo, depth=0) -> str:
        if f.fq in helper_summary:
            return helper_summary[f.fq]
        helper_summary[f.fq] = "may-nothing"

        def hev(call, st, an):
            g = P.resolve_call(f, call)
            if g is router:
                return "deliver"
            if isinstance(g, FuncInfo) and g is not f and g.cls is ci and depth < 3 and g is not send:
                s = summarise(g, depth + 1)
                return "deliver" if s == "delivers" else ("maybe" if s == "may-nothing" else None)
            return None

        an, out = run_paths(f.node, event_of=hev, fallible=False)
        ends = [st for st, _n in out.ret] + list(out.normal)
        if ends and all("deliver" in st.events for st in ends):
            res = "delivers"
        elif any("deliver" in st.events or "maybe" in st.events for st in ends):
            res = "may-nothing"
        else:
            res = "nothing"
        helper_summary[f.fq] = res
        return res

    def sev(call, st: PState, an: PathAnalysis):
        nm = call_name(call)
        if nm.endswith(".post"):
            return "post"
        g = P.resolve_call(send, call)
        if g is router:
            arg = call.args[0] if call.args else None
            t = subst_text(arg, st) if arg is not None else "?"
            d = arg if isinstance(arg, ast.Dict) else an.defs.get(t, ("", None))[1]
            if isinstance(d, ast.Dict) and any(isinstance(k, ast.Constant) and k.value == "jsonrpc" for k in d.keys):
                vals = {k.value: v for k, v in zip(d.keys, d.values) if isinstance(k, ast.Constant)}
                kind = "error" if "error" in vals else "result"
                idt = subst_text(vals["id"], st) if "id" in vals else "<none>"
                return f"synth:{kind}:{idt}"
            return "deliver:" + an.origin(t)[:60]
        if isinstance(g, FuncInfo) and g.cls is ci and g is not send:
            s = summarise(g)
            if s == "delivers":
                return "deliver:" + g.name
            if s == "may-nothing":
                # named by what it is, not by what it is called: the reader of a streamed body has an `async for`
                role = "the streamed event-stream reader" if any(isinstance(n_, ast.AsyncFor) for n_ in walk_local(g.node)) else "the event-stream parser for a loaded body"
                return "maybe:" + role
        return None

    def stmt_ev(stmt, st, an):
        if isinstance(stmt, ast.Assign) and any(ast.unparse(t) == "self._session_id" for t in stmt.targets):
            return "setsid:" + subst_text(stmt.value, st)
        return None

    # which exception reaches which arm is read off the `except` clauses; a handler that sorts the caught exception out
    # itself (`except Exception as e: if isinstance(e, TimeoutError): …`) hides that from these rules: undecided, not a finding
    try:
        send_as_written = P.raw_view().func(send.module.name, send.qual).node  # (a predicate helper read in at its call site is not the handler sorting things out itself)
    except Exception:
        send_as_written = send.node
    for t_ in walk_local(send_as_written):
        if isinstance(t_, ast.Try):
            for h_ in t_.handlers:
                if h_.name and any(isinstance(c_, ast.Call) and call_name(c_) == "isinstance" and c_.args and ast.unparse(c_.args[0]) == h_.name for b_ in h_.body for c_ in walk_local(b_)):
                    raise AnalysisError(f"{send.module.rel}:{h_.lineno}: the handler dispatches on the class of the caught exception (isinstance) — which failure takes which arm is not readable by the terminal-accounting rule")
    an, out = run_paths(send.node, event_of=sev, stmt_event_of=stmt_ev, fallible_pred=fallible_except_contained(P, send), exc_after_events=True)
    an.parents = {**A.exception_parents(P), "asyncio.TimeoutError": "TimeoutError"}
    R.paths += len(out.ret) + len(out.normal) + len(out.exc)
    R.extra["helper_summaries"] = {k.split(":")[1]: v for k, v in helper_summary.items()}
    id_terms = set()
    exits = [("return", st, n) for st, n in out.ret] + [("end", st, send.node) for st in out.normal]
    R.need(exits, "send routine has no normal exit")
    classes = {}
    _handler_vars = None
    for kind, st, node in exits:
        evs = list(st.events)
        if "post" not in evs:
            continue
        pi = evs.index("post")
        after = evs[pi + 1:]
        synth = [e for e in after if e.startswith("synth:")]
        deliver = [e for e in after if e.startswith("deliver:")]
        maybe = [e for e in after if e.startswith("maybe:")]
        notification = any(l.startswith("not ") and l.endswith(".get('id')") for l in st.lits)
        # classify the branch by its distinguishing literals
        tags = []
        for l in sorted(st.lits):
            for needle, tag in (("status_code >= 400", "status>=400"), ("status_code < 400", "status<400"), ("'application/json' in", "json"), ("'application/json' not in", "not-json"),
                                ("'text/event-stream' in", "event-stream"), ("'text/event-stream' not in", "not-event-stream"), ("status_code == 202", "202"), ("status_code != 202", "not-202"),
                                ("startswith('event:')", "sse-looking"), ("not response", "empty-body")):
                if needle in l and not (l.startswith("not ") and needle.startswith("'")):
                    tags.append(tag)
        # the path went through an except arm (whatever the handler variable is called)
        handler_vars = _handler_vars if _handler_vars is not None else {h.name for t_ in walk_local(send.node) if isinstance(t_, ast.Try) and any(isinstance(c_, ast.Call) and (call_name(c_).endswith(".post") or P.resolve_call(send, c_) is router or (isinstance(P.resolve_call(send, c_), FuncInfo) and P.resolve_call(send, c_).fq in helper_summary)) for b_ in t_.body for c_ in walk_local(b_)) for h in t_.handlers if h.name}
        _handler_vars = handler_vars
        caught = [v for k, v in st.env if k in handler_vars]
        if os.environ.get("VERIF_DEBUG_C11") and caught and deliver:
            print("DEBUG caught", caught, "env", [k for k, _v in st.env], "events", list(st.events)[-6:], "node", getattr(node, "lineno", None))
        sig = (tuple(sorted(set(tags))), bool(caught), tuple(synth), bool(deliver), tuple(m.split(":")[1] for m in maybe), notification)
        classes.setdefault(sig, (st, node))
    R.extra["exit_classes_after_post"] = len(classes)
    # R7: every message that can be serialised is POSTed — whether a request is sent does not depend on earlier ones
    R.rule("R7", "whether a message is POSTed is decided by the message alone: an exit (or a synthesised answer) before the POST taken under a condition on the transport's own state means the outcome of earlier requests decides whether a later one is sent")
    pre = {}

    def _deciding_tests(ret):
        """tests of the `if`s around an early return, outermost first (not inside an except arm: those are failures of this message)"""
        chain = []

        def rec(n, acc, in_handler):
            if n is ret:
                chain.extend(acc if not in_handler else [None])
                return True
            for fld, val in ast.iter_fields(n):
                items = val if isinstance(val, list) else [val]
                for c in items:
                    if not isinstance(c, ast.AST):
                        continue
                    acc2 = acc
                    if isinstance(n, ast.If) and fld in ("body", "orelse"):
                        acc2 = acc + [ast.unparse(n.test) if fld == "body" else "not (" + ast.unparse(n.test) + ")"]
                    if rec(c, acc2, in_handler or isinstance(n, ast.ExceptHandler)):
                        return True
            return False

        rec(send.node, [], False)
        return chain

    for kind, st, node in exits:
        if "post" in st.events or kind != "return":
            continue
        tests = _deciding_tests(node)
        if None in tests:
            continue
        stateful = tuple(t for t in tests if any(isinstance(n_, ast.Name) and n_.id == "self" for n_ in ast.walk(ast.parse(t, mode="eval"))))
        pre.setdefault((stateful, bool([e for e in st.events if e.startswith("synth:")]), getattr(node, "lineno", 0)), (st, node))
    for (stateful, synth_, _ln), (st, node) in sorted(pre.items(), key=lambda x: str(x[0])):
        R.ob("R7", "an exit before the POST is decided by the message alone", not stateful, f"{rel}:{getattr(node, 'lineno', send.node.lineno)}",
             f"the routine returns before the POST under {[t[:70] for t in stateful][:3]}" + (" after answering with a synthesised message" if synth_ else "") + ": whether a serialisable message is sent depends on state the transport keeps across requests — a failure of earlier requests prevents a later one from being processed",
             sample="R7 pre-POST return decided by the message alone (unserialisable object)")
    R.need(pre, "anchor: the send routine has no exit before the POST (the unserialisable-object exit vanished)")
    n_ok = 0

    def exit_construct(node) -> str:
        """Stable name of an exit: the innermost enclosing `if` test of a return (and whether it sits in an except arm)."""
        if not isinstance(node, ast.Return):
            return "end of routine"
        inner = None
        in_handler = False
        for n in walk_local(send.node):
            if isinstance(n, ast.If) and any(node is x for b in (n.body, n.orelse) for s in b for x in walk_local(s)):
                if inner is None or n.lineno >= inner.lineno:
                    inner = n
            if isinstance(n, ast.ExceptHandler) and any(node is x for s in n.body for x in walk_local(s)):
                in_handler = True
        t = ast.unparse(inner.test) if inner is not None else "<top level>"
        return f"return under `{t}`" + (" in an except arm" if in_handler else "")

    for sig, (st, node) in sorted(classes.items(), key=lambda x: str(x[0])):
        tags, caught, synth_kinds, delivered, maybes, notification = sig
        where = f"{rel}:{getattr(node, 'lineno', send.node.lineno)}"
        evs = list(st.events)
        after = evs[evs.index("post") + 1:]
        acct = [e for e in after if not e.startswith("setsid:")]
        synth = [e for e in after if e.startswith("synth:")]
        for s in synth:
            id_terms.add(s.split(":", 2)[2])
        label = "/".join(tags) or "default"
        if notification:
            # a notification never gets an id-bearing message: the only id a synthesis can carry is the request's own (None here)
            R.ob("R1", "notification branches synthesise nothing with a foreign id", all(s.split(":", 2)[2].endswith(".get('id')") for s in synth), where, f"[{label}] {synth}")
            continue
        total_definite = len(synth) + (1 if delivered else 0)
        if total_definite >= 1 and (caught or "status>=400" in tags):
            ok = len(synth) == 1 and not delivered
            R.ob("R1", "error exits synthesise exactly one terminal message", ok, where, f"[{label}{' +exception' if caught else ''}] after POST: {acct}",
                 sample=f"R1 [{label}] exception={caught}: {acct}")
        elif total_definite >= 1:
            ok = len(synth) <= 1
            n_ok += 1
            R.ob("R1", "answer branches deliver or synthesise (at most one synthesis)", ok, where, f"[{label}] after POST: {acct}", sample=f"R1 [{label}]: {acct}")
        elif maybes:
            R.ob("R1", f"fallback synthesis after {', '.join(sorted(set(maybes)))} (which may deliver nothing)", False, where,
                 f"[{label}] after POST: {acct}; an event-stream body that contains no response leaves the request without any terminal message")
        else:
            R.ob("R1", f"request accounted for at {exit_construct(node)}", False, where, f"[{label}] after the POST the routine leaves with no delivery and no synthesis; the request never completes (it times out)" + (f" [events {acct}; literals {sorted(l[:60] for l in st.lits)[:14]}]" if os.environ.get("VERIF_DEBUG_C11") else ""))
    import re as _re

    # the request's own id: `.get('id')` of the routine's message parameter or of the dict made from it
    mp = [p_ for p_ in send.positional_params() if p_ != "self"][0]

    def own(t: str) -> bool:
        m_ = _re.match(r"^([\w·]+)\.get\('id'\)$", t)
        if not m_:
            return False
        holder = m_.group(1)
        if holder == mp:
            return True
        o = an.origin(holder)
        return bool(_re.search(r"(^|[^\w.])" + _re.escape(mp) + r"($|[^\w])", o)) and not _re.search(r"\.get\(|\[", o.replace(f"{mp}.model_dump", ""))

    R.ob("R1", "synthesised messages carry the request's own id", bool(id_terms) and all(own(t) for t in id_terms), rel, f"id terms used in synthesised messages: {sorted(id_terms)} (request parameter `{mp}`)")
    R.ob("R1", "some branch delivers the server's message", n_ok >= 1, rel, "")
    # exceptions escaping the routine altogether
    R.ob("R1", "no exception leaves the send routine", not any(t != "Cancelled" for _s, t, _n in out.exc), send.where, f"{sorted({(t, getattr(n, 'lineno', 0)) for _s, t, n in out.exc})}")

    # ------------------------------------------------------------------ R5
    hdr = [s for s in walk_local(send.node) if isinstance(s, ast.Assign) and isinstance(s.targets[0], ast.Subscript) and isinstance(s.targets[0].slice, ast.Constant) and str(s.targets[0].slice.value).lower() == "mcp-session-id"]
    R.need(hdr, "anchor: the send routine no longer sets the Mcp-Session-Id header")
    R.ob("R5", "header value is the session attribute read at send time", all(ast.unparse(s.value) == "self._session_id" for s in hdr), f"{rel}:{hdr[0].lineno}", f"{[ast.unparse(s.value) for s in hdr]}", sample="R5 headers['Mcp-Session-Id'] = self._session_id (per message)")
    _session_header_last(P, R, send, hdr, rel)
    setters = [f.fq for f in P.funcs.values() for s in walk_local(f.node) if isinstance(s, ast.Assign) and any(ast.unparse(t) == "self._session_id" for t in s.targets) and f.cls is ci and f.name != "__init__"]
    R.ob("R5", "only the send routine updates the session id", set(setters) == {send.fq}, rel, f"{sorted(set(setters))}")
    for kind, st, node in exits:
        evs = list(st.events)
        sets = [i for i, e in enumerate(evs) if e.startswith("setsid:")]
        dels = [i for i, e in enumerate(evs) if e.startswith(("deliver:", "maybe:"))]
        if sets and dels:
            R.ob("R5", "the session id is recorded before the body is dispatched", min(sets) < min(dels), f"{rel}:{getattr(node, 'lineno', 0)}", f"{evs}")
        for i in sets:
            holder_ = _re.match(r"^setsid:([\w·]+)\.headers", evs[i])
            from_post = bool(holder_) and ".post(" in an.origin(holder_.group(1))
            # … the header value itself: whatever the server issued is what later requests must carry, character for character
            exact_ = bool(_re.fullmatch(r"setsid:[\w·]+\.headers(\[['\"]mcp-session-id['\"]\]|\.get\(['\"]mcp-session-id['\"](, [^()]*)?\))", evs[i], _re.I))
            R.ob("R5", "the recorded value is the response's mcp-session-id header", from_post and "mcp-session-id" in evs[i].lower() and exact_, f"{rel}",
                 evs[i] + (f" (origin `{an.origin(holder_.group(1))[:60]}`)" if holder_ else "") + ("" if exact_ else " — the header value is transformed before it is kept (split, stripped, decoded): a session id containing the characters involved is stored changed, and every later request carries an id the server never issued"))

    # ------------------------------------------------------------------ R2
    grammar_rule(P, R, A.MOD_HTTP, "R2", "")
    # dispatch condition: an event without an event field
    for f in P.funcs_in(A.MOD_HTTP):
        for n in walk_local(f.node):
            if isinstance(n, ast.If) and any(isinstance(c, ast.Call) and call_name(c).endswith("_process_sse_event") for s in n.body for c in walk_local(s)):
                t = ast.unparse(n.test)
                needs_event = "current_event and" in t or t.startswith("current_event")
                R.ob("R2", f"{f.qual}: an event without an event field is dispatched (default type message)", not needs_event, f"{f.module.rel}:{n.lineno}",
                     f"dispatch is conditional on `{t}`: data-only events — the default `message` type of the event-stream format — are dropped")

    # a blank line ends the event: whatever name an `event:` line set does not survive it, dispatched or not
    blank_line_resets_event(P, R, A.MOD_HTTP, "R2")
    field_form_event_reset(P, R, A.MOD_HTTP, "R2")
    # every message a body contains is yielded, whatever its values: nothing is filtered by the truthiness of a member
    if payload_truthiness(P, R, [A.MOD_HTTP], "R2") == 0:
        R.ob("R2", "no parsed object is filtered by the truthiness of result / error / id / params", True, "", "", sample="R2 http carrier: members are tested for presence, never for truth")

    # chunk- and terminator-independence of the two http recognisers
    from . import _chunks

    R.rule("R6", "line cutting: the SSE body is cut at the constant LF only (a trailing CR is stripped per line), and the streaming reader appends every non-empty chunk to its buffer")
    for f in P.funcs_in(A.MOD_HTTP):
        for l in walk_local(f.node):
            if isinstance(l, ast.AsyncFor) and isinstance(l.iter, ast.Call) and call_name(l.iter).endswith(".aiter_lines"):
                R.ob("R6", f"{f.qual}: body lines end at CR/LF only", False, f"{f.module.rel}:{l.lineno}",
                     f"`{ast.unparse(l.iter)[:50]}` cuts lines wherever str.splitlines() does — U+2028, U+2029, U+0085, VT, FF included: a message whose JSON text carries one of them raw inside a string arrives as two `data:` fragments and is lost")
    for f, head in recognisers(P, A.MOD_HTTP):
        loops = [l for l in walk_local(f.node) if isinstance(l, (ast.AsyncFor,)) and "aiter" in ast.unparse(l.iter)]
        if loops:
            lp = loops[0]
            _chunks.no_discard_before_accumulate(R, "R6", f, lp, f.qual)
            b = _chunks.accumulate_var(lp)
            if b:
                _chunks.line_cut_discipline(R, "R6", f, lp, [b], f.qual)
        else:
            tp = [p for p in f.positional_params() if p != "self"]
            if tp:
                _chunks.line_cut_discipline(R, "R6", f, f.node, [tp[0]], f.qual)
        strips = [c for c in walk_local(f.node) if isinstance(c, ast.Call) and isinstance(c.func, ast.Attribute) and c.func.attr in ("rstrip", "strip") and (not c.args or (isinstance(c.args[0], ast.Constant) and "\r" in str(c.args[0].value)))]
        R.ob("R6", f"{f.qual}: a trailing CR is removed from each line (CRLF bodies)", bool(strips), f"{f.module.rel}:{f.node.lineno}", "no per-line rstrip('\\r'): with CRLF line ends the blank line that ends an event is never recognised")

    # ------------------------------------------------------------------ R3
    val_calls = [c for c in walk_local(router.node) if isinstance(c, ast.Call) and call_name(c).endswith(".model_validate")]
    R.need(val_calls, "anchor: the router no longer validates with the single-message class")
    rp = [p for p in router.positional_params() if p != "self"][0]
    list_tests = [n for n in walk_local(router.node) if isinstance(n, ast.Call) and call_name(n) == "isinstance" and len(n.args) == 2 and ast.unparse(n.args[0]) == rp and "list" in ast.unparse(n.args[1])]
    callers_test = False
    for f in meths.values():
        for c in walk_local(f.node):
            if isinstance(c, ast.Call) and P.resolve_call(f, c) is router and c.args:
                a = ast.unparse(c.args[0])
                if any(isinstance(n, ast.Call) and call_name(n) == "isinstance" and ast.unparse(n.args[0]) == a and "list" in ast.unparse(n.args[1]) for n in walk_local(f.node)):
                    callers_test = True
    # … or on the value that is about to be validated (a work list instead of recursion: `item = work.pop(); if isinstance(item, list): …`)
    varg = ast.unparse(val_calls[0].args[0]) if val_calls[0].args else ""
    list_tests += [n for n in walk_local(router.node) if isinstance(n, ast.Call) and call_name(n) == "isinstance" and len(n.args) == 2 and ast.unparse(n.args[0]) == varg and "list" in ast.unparse(n.args[1])]
    R.ob("R3", "a JSON array body is split before the single-message validator", bool(list_tests) or callers_test, f"{router.module.rel}:{val_calls[0].lineno}",
         "response bodies go straight into JSONRPCMessage.model_validate: a batch array raises there, is logged and swallowed by the router, so none of its members is delivered")
    if list_tests and not callers_test:
        # path form: the validator is reached only with a value known not to be a list, and the list branch passes the members on
        def rev(call, st, an):
            if call_name(call).endswith(".model_validate") and call.args:
                t = subst_text(call.args[0], st)
                guarded = any(l.startswith(f"not isinstance({t}, ") and "list" in l for l in st.lits)
                return ("validate:guarded:" if guarded else "validate:open:") + t
            if call_name(call) == "isinstance" or is_benign_call(call):
                return None
            texts = [subst_text(a, st) for a in call.args] + [subst_text(call.func.value, st) if isinstance(call.func, ast.Attribute) else ""]
            lists = [l[len("isinstance("):].split(",")[0] for l in st.lits if l.startswith("isinstance(") and "list" in l]
            if any(x and (x in t_ or t_ in an.origin(x)) for t_ in texts for x in lists) or any(x and an.origin(t_).find(x) >= 0 for t_ in texts if t_ for x in lists):
                return "members:" + call_name(call)
            return None

        ra, ro = run_paths(router.node, event_of=rev, fallible=False)
        opens = sorted({e for st in list(ro.normal) + [s_ for s_, _n in ro.ret] for e in st.events if e.startswith("validate:open:")})
        R.ob("R3", "the single-message validator is reached only with a value already known not to be a list", not opens, f"{router.module.rel}:{val_calls[0].lineno}",
             f"a path reaches `{ast.unparse(val_calls[0])[:60]}` without having excluded a list ({opens[:1]})", sample="R3 validate(x) only under `not isinstance(x, list)`")

    # … in the order the server wrote them
    from .c15 import worklist_order_problems

    for f_ in meths.values():
        for node_, why_ in worklist_order_problems(f_):
            R.ob("R3", f"{f_.qual}: the members of an array body are routed in order", False, f"{f_.module.rel}:{node_.lineno}",
                 f"{why_}: a body `[progress, progress, response]` delivers the terminal response first and the notifications that led to it afterwards")
    # every member is routed: a delivery never sits where Python evaluates it only if an earlier result allows it
    for f_, node_, why_ in conditionally_evaluated_deliveries(P, ci):
        R.ob("R3", f"{f_.qual}: every message of a body is routed, whatever came before it", False, f"{f_.module.rel}:{node_.lineno}",
             f"`{ast.unparse(node_)[:70]}` — {why_}: once an earlier member produced a true (or false) value the remaining members of the array are never routed")
    R.ob("R3", "no delivery call is short-circuited by a flag carried over from earlier members of the same body", not conditionally_evaluated_deliveries(P, ci), f"{router.module.rel}:{router.node.lineno}", "", sample="R3 deliveries are statements or left operands")

    # ------------------------------------------------------------------ R4
    loops = [(f, n) for f in meths.values() for n in walk_local(f.node) if isinstance(n, (ast.AsyncFor, ast.For)) and ("self." + stream_roles(P, ci)["outgoing_recv"]) in ast.unparse(n.iter)]
    R.need(len(loops) == 1, "anchor: sender loop over the outgoing stream not found")
    lf, loop = loops[0]
    R.fn(lf.fq)

    def sem_ok(c: ast.Call) -> bool:
        return False

    la, lo = run_paths(ast.Module(body=loop.body, type_ignores=[]), fallible_pred=fallible_except_contained(P, lf))
    esc = sorted({(t, getattr(n, "lineno", 0)) for _s, t, n in lo.exc})
    R.ob("R4", "no exception edge leaves the sender loop body", not esc, f"{lf.module.rel}:{loop.lineno}", f"escaping {esc}", sample=f"R4 {lf.qual}: loop body contained ({len(lo.normal)} normal exits)")
    R.ob("R4", "no break/return leaves the sender loop", not lo.brk and not lo.ret, f"{lf.module.rel}:{loop.lineno}", "")
    per = [c for c in walk_local(loop) if isinstance(c, ast.Call) and isinstance(P.resolve_call(lf, c), FuncInfo)]
    for c in per:
        g = P.resolve_call(lf, c)
        R.ob("R4", f"{g.qual} is contained", contained(P, g), g.where, "an exception from the per-message routine would end the sender task: later requests are never sent")
