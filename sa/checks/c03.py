"""C03 — client initialization never settles on a protocol version it did not offer."""
from __future__ import annotations

import ast

from .. import anchors as A
from ..model import AnalysisError, FuncInfo, Project, walk_local, call_name, kwarg, resolved_call_name
from ..consteval import try_fold
from ..flow import ANY_EXC
from ..paths import PState, calls_in_order, run_paths, subst_text
from ..report import Report


def _method_folds_to(P: Project, f: FuncInfo, want: str) -> bool:
    """every create_notification(...) call of `f` names a method that folds (through module constants/enums) to `want`"""
    calls = [c for c in walk_local(f.node) if isinstance(c, ast.Call) and call_name(c).split(".")[-1] == "create_notification"]
    if not calls:
        return False
    for c in calls:
        m = kwarg(c, "method") or (c.args[0] if c.args else None)
        v = try_fold(P, f.module, m) if m is not None else None
        if v != want and getattr(v, "value", None) != want:
            return False
    return True


def check(P: Project, R: Report) -> None:
    R.rule("R1", "the proposed version is the preferred one on a path that established `preferred in supported`, otherwise supported[0]; it is what the request carries")
    R.rule("R2", "every path to the initialized notification and to the normal return carries `server_version == proposed` or `server_version in supported`, server_version deriving from the validated response")
    R.rule("R3", "the notification is sent exactly once on every returning path (not in a loop, after acceptance) and zero times on every raising path; the sender writes exactly one notifications/initialized and re-raises failures")
    R.rule("R4", "the returned object is the validated server answer; trackers record that object's protocolVersion")
    R.rule("R5", "whoever records the negotiated version also recomputes the batching mode from the same value")

    fi = P.func(A.MOD_INIT, "send_initialize")
    R.fn(fi.fq)
    params = fi.params()
    for need in ("supported_versions", "preferred_version"):
        R.need(need in params, f"send_initialize lost its `{need}` parameter")
    sup, pref = "supported_versions", "preferred_version"
    streams = fi.positional_params()[:2]
    notif_sender = P.func(A.MOD_INIT, "send_initialized_notification")

    def strip_copies(e: ast.AST, ordered: bool) -> ast.AST:
        """`list(x)`, `tuple(x)`, `x.copy()`, `x[:]` hold x's members in x's order; `set(x)`, `frozenset(x)`, `sorted(x)` hold
        x's members (enough for a membership test, not for `[0]`)."""
        wrappers = ("list", "tuple") if ordered else ("list", "tuple", "set", "frozenset", "sorted")
        while True:
            if isinstance(e, ast.Call) and isinstance(e.func, ast.Name) and e.func.id in wrappers and len(e.args) == 1 and not e.keywords and not isinstance(e.args[0], ast.Starred):
                e = e.args[0]
            elif isinstance(e, ast.Call) and isinstance(e.func, ast.Attribute) and e.func.attr == "copy" and not e.args and not e.keywords:
                e = e.func.value
            elif isinstance(e, ast.Subscript) and isinstance(e.slice, ast.Slice) and e.slice.lower is None and e.slice.upper is None and e.slice.step is None:
                e = e.value
            else:
                return e

    def whose_list(text: str, st: PState, ordered: bool = False) -> str:
        """'caller' when `text` holds the members of the caller's list, 'library' when it holds the library's list on a path
        where the caller gave none (None or empty), 'library-instead' when the caller did give one, '' otherwise."""
        try:
            e = strip_copies(ast.parse(text, mode="eval").body, ordered)
        except SyntaxError:
            return ""
        base = ast.unparse(e)
        if base == sup:
            return "caller"
        if base == "SUPPORTED_VERSIONS":
            return "library" if ({f"{sup} is None", f"not {sup}"} & set(st.lits)) else "library-instead"
        return ""

    def accepted(st: PState, an) -> str:
        """The acceptance literal on this path, or ''."""
        for l in st.lits:
            try:
                node = ast.parse(l, mode="eval").body
            except SyntaxError:
                continue
            if not (isinstance(node, ast.Compare) and len(node.ops) == 1 and isinstance(node.ops[0], (ast.Eq, ast.In))):
                continue
            lhs, rhs = ast.unparse(node.left), ast.unparse(node.comparators[0])
            if isinstance(node.ops[0], ast.Eq) and "model_validate" not in an.origin(lhs):
                lhs, rhs = rhs, lhs
            o = an.origin(lhs)
            if "send_message(" in o and "protocolVersion" in o and "model_validate" in o:
                if isinstance(node.ops[0], ast.In) and whose_list(rhs, st) in ("caller", "library"):
                    return l
                if isinstance(node.ops[0], ast.Eq):
                    return l + "  [rhs=" + rhs + "]"
        return ""

    def event_of(call, st, an):
        nm = call_name(call)
        if nm.split(".")[-1] == "InitializeParams" or (nm == "dict" and kwarg(call, "protocolVersion") is not None):
            v = kwarg(call, "protocolVersion")
            return "propose:" + (subst_text(v, st) if v is not None else "<missing>")
        if nm == "send_message":
            prm = kwarg(call, "params")
            rs, ws = kwarg(call, "read_stream") or (call.args[0] if call.args else None), kwarg(call, "write_stream") or (call.args[1] if len(call.args) > 1 else None)
            m = kwarg(call, "method") or (call.args[2] if len(call.args) > 2 else None)
            return "request:" + "|".join(subst_text(x, st) if x is not None else "?" for x in (rs, ws, m, prm))
        if nm == notif_sender.name:
            acc = accepted(st, an)
            arg = subst_text(call.args[0], st) if call.args else (subst_text(kwarg(call, "write_stream"), st) if kwarg(call, "write_stream") is not None else "?")
            return ("notify:accepted:" if acc else "notify:UNCHECKED:") + arg
        return None

    an, out = run_paths(fi.node, event_of=event_of)
    an.parents = A.exception_parents(P)
    R.paths += len(out.ret) + len(out.exc) + len(out.normal)
    R.need(out.ret, "send_initialize has no returning path")
    R.ob("R2", "no silent exit", not out.normal, fi.where, "a path falls off the end and returns None")

    # ------------------------------------------------------------------ R1
    proposals = set()
    for st, node in list(out.ret) + [(s, n) for s, _t, n in out.exc]:
        props = [e[len("propose:"):] for e in st.events if e.startswith("propose:")]
        reqs = [e for e in st.events if e.startswith("request:")]
        if not reqs:
            continue
        where = f"{fi.module.rel}:{getattr(node, 'lineno', fi.node.lineno)}"
        R.ob("R1", "one proposal per request", len(props) == 1 and len(reqs) == 1, where, f"proposals {props} requests {len(reqs)}")
        if len(props) != 1:
            continue
        t = props[0]
        proposals.add(t)
        first = None
        try:
            te = ast.parse(t, mode="eval").body
            if isinstance(te, ast.Subscript) and isinstance(te.slice, ast.Constant) and te.slice.value == 0:
                first = ast.unparse(te.value)
        except SyntaxError:
            pass
        if t == pref:
            ok = any(l.startswith(f"{pref} in ") and whose_list(l[len(pref) + 4:], st) in ("caller", "library") for l in st.lits)
            why = f"preferred version proposed; membership literal present: {ok}"
        elif first is not None and whose_list(first, st, ordered=True) in ("caller", "library"):
            # the fallback is for a caller without a usable preference: none given, or one that is not in the list
            no_pref = {f"not {pref}", f"{pref} is None", f"not bool({pref})"} & set(st.lits) or any(l.startswith(f"{pref} not in ") and whose_list(l[len(pref) + 8:], st) in ("caller", "library") for l in st.lits)
            if not no_pref:
                # … or the same said through a flag: `use_preferred = bool(pref) and pref in supported` … `if not use_preferred`
                def usable_conjunct(e_) -> bool:
                    t_ = ast.unparse(e_)
                    if t_ in (pref, f"bool({pref})", f"{pref} is not None"):
                        return True
                    return isinstance(e_, ast.Compare) and len(e_.ops) == 1 and isinstance(e_.ops[0], ast.In) and ast.unparse(e_.left) == pref and whose_list(subst_text(e_.comparators[0], st), st) in ("caller", "library")

                for l in st.lits:
                    if l.startswith("not "):
                        d_ = an.defs.get(l[4:], ("", None))[1]
                        if isinstance(d_, ast.BoolOp) and isinstance(d_.op, ast.And) and all(usable_conjunct(v_) for v_ in d_.values):
                            no_pref = True
                        elif d_ is not None and isinstance(d_, ast.AST) and not isinstance(d_, ast.BoolOp) and usable_conjunct(d_):
                            no_pref = True
            ok = bool(no_pref)
            why = "first supported version proposed" + ("" if ok else f" on a path that has not established that the preferred version is missing from the list (literals {sorted(l[:50] for l in st.lits)[:5]}): a preferred version that is in the caller's list is passed over")
        else:
            ok = False
            why = f"proposal `{an.origin(t)[:80]}` is neither the checked preferred version nor supported[0]"
        R.ob("R1", f"proposal `{t}` is offered by the caller", ok, where, why, sample=f"R1 send_initialize proposes {t}: {why}")
        # the request carries the proposal
        rs, ws, m, prm = reqs[0][len("request:"):].split("|", 3)
        o = an.origin(prm)
        try:
            m_val = try_fold(P, fi.module, ast.parse(m, mode="eval").body)
        except SyntaxError:
            m_val = None
        ok_req = (m in ("'initialize'", "MessageMethod.INITIALIZE") or m_val == "initialize" or getattr(m_val, "value", None) == "initialize") and rs == streams[0] and ws == streams[1] and f"protocolVersion={t}" in o
        R.ob("R1", "the initialize request carries the proposal on the caller's streams", ok_req, where, f"method {m}, streams ({rs},{ws}), params `{o[:100]}`")
    R.need(proposals, "anchor: no InitializeParams(protocolVersion=…) construction found before the request")
    R.ob("R1", "both proposal branches exist", proposals >= {pref} and len(proposals) >= 2, fi.where, f"proposals seen: {sorted(proposals)}")
    # when the caller passes no list, the default is the library's own list
    default_ok = any(
        isinstance(s, ast.Assign) and ast.unparse(s.targets[0]) == sup and ast.unparse(strip_copies(s.value, True)) == "SUPPORTED_VERSIONS"
        for s in walk_local(fi.node)
    )
    if not default_ok:
        # … or, on the paths themselves: where the caller's list is None/empty, the list the proposal is taken from is the library's
        for st, node in list(out.ret) + [(s_, n_) for s_, _t, n_ in out.exc]:
            props = [e[len("propose:"):] for e in st.events if e.startswith("propose:")]
            if not props or not ({f"{sup} is None", f"not {sup}"} & set(st.lits)):
                continue
            t = props[0]
            if (t.endswith("[0]") and whose_list(t[:-3], st, ordered=True) == "library") or any(l.startswith(f"{pref} in ") and whose_list(l[len(pref) + 4:], st) == "library" for l in st.lits):
                default_ok = True
    R.ob("R1", "default supported list is SUPPORTED_VERSIONS", default_ok, fi.where, "")
    # supported_versions is never rebound to anything else
    for s in walk_local(fi.node):
        if isinstance(s, ast.Assign) and ast.unparse(s.targets[0]) == sup:
            R.ob("R1", f"`{ast.unparse(s)[:50]}` keeps the caller's list", ast.unparse(strip_copies(s.value, True)) in (sup, "SUPPORTED_VERSIONS"), f"{fi.module.rel}:{s.lineno}", "supported_versions is replaced")

    # ------------------------------------------------------------------ R2 / R3 / R4
    for st, node in out.ret:
        where = f"{fi.module.rel}:{node.lineno}"
        acc = accepted(st, an)
        props = [e[len("propose:"):] for e in st.events if e.startswith("propose:")]
        ok_acc = bool(acc)
        if " == " in acc and props:
            ok_acc = acc.endswith(f"[rhs={props[0]}]")
        instead = [l for l in st.lits if " in " in l and not l.startswith(pref) and whose_list(l.split(" in ", 1)[1], st) == "library-instead"]
        why_acc = f"acceptance literal: `{acc[:100] or None}` (literals {sorted(l[:50] for l in st.lits)[:6]})"
        if not acc and instead:
            why_acc = f"the answer is looked up in the library's own list (`{instead[0][-60:]}`) on a path where the caller gave its list"
        R.ob("R2", "return only after acceptance", ok_acc, where, why_acc,
             sample=f"R2 return with {acc[:90]}")
        notes = [e for e in st.events if e.startswith("notify:")]
        ok_n = len(notes) == 1 and notes[0].startswith("notify:accepted:") and notes[0].endswith(":" + streams[1])
        R.ob("R3", "exactly one notification after acceptance on a returning path", ok_n, where, f"notifications on this path: {notes}")
        ret = subst_text(node.value, st) if node.value is not None else "None"
        d = an.origin(ret)
        dn = an.defs.get(ret, ("", None))[1]
        ok_ret = (
            isinstance(dn, ast.Call)
            and isinstance(dn.func, ast.Attribute)
            and dn.func.attr == "model_validate"
            and len(dn.args) == 1
            and "await send_message(" in d
            and d.startswith("<InitializeResult.model_validate(<await send_message(")
        )
        R.ob("R4", "returns the validated server answer", ok_ret, where, f"returns `{d[:100]}`")
    for st, tag, node in out.exc:
        notes = [e for e in st.events if e.startswith("notify:")]
        R.ob("R3", f"no notification on a path raising {tag}", not notes, f"{fi.module.rel}:{getattr(node, 'lineno', 0)}", f"notifications before the raise: {notes}")
    tags = {t for _s, t, _n in out.exc}
    R.ob("R2", "rejection raises VersionMismatchError", "VersionMismatchError" in tags, fi.where, f"raising exits: {sorted(tags)}")
    # the rejecting raise is reached exactly when no acceptance literal holds
    for st, tag, node in out.exc:
        in_handler = any(node is x for t_ in walk_local(fi.node) if isinstance(t_, ast.Try) for h_ in t_.handlers for b_ in h_.body for x in walk_local(b_))
        if tag == "VersionMismatchError" and isinstance(node, ast.Raise) and any(e.startswith("request:") for e in st.events) and not in_handler and not any(l.startswith("hasattr(") for l in st.lits):
            R.ob("R2", "mismatch is raised only without acceptance", not accepted(st, an), f"{fi.module.rel}:{node.lineno}", "")
    # … and once the answer has failed the acceptance test nothing but the mismatch error can leave the routine:
    # diagnostics computed on the way to the raise (a comparison of versions, a formatted explanation) must not be able to raise
    def rejected(st: PState, an_) -> bool:
        n_ = 0
        for l in st.lits:
            try:
                node_ = ast.parse(l, mode="eval").body
            except SyntaxError:
                continue
            if isinstance(node_, ast.Compare) and len(node_.ops) == 1 and isinstance(node_.ops[0], (ast.NotEq, ast.NotIn)):
                for side in (node_.left, node_.comparators[0]):
                    o_ = an_.origin(ast.unparse(side))
                    if "send_message(" in o_ and "protocolVersion" in o_ and "model_validate" in o_:
                        n_ += 1
                        if isinstance(node_.ops[0], ast.NotIn) and side is node_.left and whose_list(ast.unparse(node_.comparators[0]), st):
                            n_ += 1  # one membership test in the supported list is the whole acceptance test (the proposal is a member)
                        break
        return n_ >= 2

    # (explicit-raise model: a package function reached from the rejecting branch counts as able to raise when it — or
    # something it calls — contains a `raise` no handler of its own catches; plain total code does not)
    from ..summaries import raises_explicitly

    def rej_pred(node_, st_, an_):
        for c_ in calls_in_order(node_):
            g_ = P.resolve_call(fi, c_)
            if isinstance(g_, FuncInfo) and g_ is not fi and raises_explicitly(P, g_):
                return {ANY_EXC}
        return set()

    an_r, out_r = run_paths(fi.node, event_of=event_of, fallible_pred=rej_pred)
    an_r.parents = an.parents
    n_rej = 0
    for st, tag, node in out_r.exc:
        if not rejected(st, an_r) or accepted(st, an_r):
            continue
        n_rej += 1
        R.ob("R2", "an answer outside the caller's list ends in VersionMismatchError and nothing else", tag.split(".")[-1] in ("VersionMismatchError", "Cancelled"), f"{fi.module.rel}:{getattr(node, 'lineno', 0)}",
             f"after the answer failed the acceptance test `{ast.unparse(node)[:70]}` can raise {tag}: the caller gets that exception instead of the version-mismatch error",
             sample="R2 rejected answer → raise VersionMismatchError")
    R.need(n_rej >= 1, "anchor: no raising path after a failed acceptance test")
    # not in a loop
    for c in walk_local(fi.node):
        if isinstance(c, ast.Call) and call_name(c) == notif_sender.name:
            R.ob("R3", "notification call is not inside a loop", id(c) not in an.in_loop, f"{fi.module.rel}:{c.lineno}", "")
    # the sender
    R.fn(notif_sender.fq)
    wparam = notif_sender.positional_params()[0]

    def send_ev(call, st, an2):
        if call_name(call) in (f"{wparam}.send", f"{wparam}.send_nowait"):
            return "send:" + an2.origin(subst_text(call.args[0], st))
        return None

    sa, so = run_paths(notif_sender.node, event_of=send_ev)
    for st in list(so.normal) + [s for s, _n in so.ret]:
        sends = [e for e in st.events if e.startswith("send:")]
        ok = len(sends) == 1 and "create_notification(" in sends[0] and ("'notifications/initialized'" in sends[0] or _method_folds_to(P, notif_sender, "notifications/initialized"))
        R.ob("R3", "sender writes exactly one notifications/initialized", ok, notif_sender.where, f"writes {sends}")
    swallow = [st for st in list(so.normal) + [s for s, _n in so.ret] if not any(e.startswith("send:") for e in st.events)]
    R.ob("R3", "sender does not swallow a failed write", not swallow, notif_sender.where, "a path completes normally without having written the notification")

    # ------------------------------------------------------------------ R4 trackers
    trackers = []
    for f in P.funcs.values():
        if f is fi:
            continue
        if any(isinstance(c, ast.Call) and call_name(c) == "send_initialize" for c in walk_local(f.node)) and any(
            isinstance(c, ast.Call) and resolved_call_name(f.node, c).endswith(".set_protocol_version") for c in walk_local(f.node)
        ):
            trackers.append(f)
    R.need(len(trackers) >= 2, f"anchor: expected the tracking wrapper and MCPClient.initialize, found {[t.fq for t in trackers]}")
    for t in trackers:
        R.fn(t.fq)

        def tev(call, st, an2, t=t):
            if resolved_call_name(t.node, call).endswith(".set_protocol_version"):
                arg = call.args[0] if call.args else None
                good = False
                if isinstance(arg, ast.Attribute) and arg.attr == "protocolVersion" and isinstance(arg.value, ast.Name):
                    term = st.term(arg.value.id) or arg.value.id
                    dn = an2.defs.get(term, ("", None))[1]
                    good = isinstance(dn, ast.Await) and isinstance(dn.value, ast.Call) and call_name(dn.value) == "send_initialize"
                txt = an2.origin(subst_text(arg, st)) if arg is not None else "?"
                return ("record:" if good else "record:BAD:") + txt
            if call_name(call) == "send_initialize":
                return "handshake"
            return None

        ta, to = run_paths(t.node, event_of=tev, fallible=False)
        recs = {e for st, _n in to.ret for e in st.events if e.startswith("record:")}
        ok = bool(recs) and not any(r.startswith("record:BAD:") for r in recs)
        R.ob("R4", f"{t.qual} records the answer's protocolVersion", ok, t.where, f"recorded values: {sorted(recs)}", sample=f"R4 {t.qual}: set_protocol_version({sorted(recs)[0][:80] if recs else None})")
        # … on every path that made the handshake, unless there is nothing to record into
        holders = set(t.params()) - {"self"}
        for st, node in to.ret:
            if "handshake" not in st.events or any(e.startswith("record:") for e in st.events):
                continue
            excuse = ""
            for l in sorted(st.lits):
                try:
                    n = ast.parse(l, mode="eval").body
                except SyntaxError:
                    continue
                neg = isinstance(n, ast.UnaryOp) and isinstance(n.op, ast.Not)
                core = n.operand if neg else n
                subj = None

                def _holder(e):
                    while isinstance(e, ast.Call) and call_name(e) in ("hasattr", "getattr", "callable") and e.args:
                        e = e.args[0]
                    return ast.unparse(e)

                if neg:
                    subj = _holder(core)
                elif isinstance(core, ast.Compare) and len(core.ops) == 1 and isinstance(core.ops[0], ast.Is):
                    cmp_ = ast.unparse(core.comparators[0])
                    dflt = core.left.args[2] if isinstance(core.left, ast.Call) and call_name(core.left) == "getattr" and len(core.left.args) == 3 else None
                    # `… is None`, or `getattr(holder, name, MARK) is MARK`: the attribute is absent
                    if cmp_ == "None" or (dflt is not None and ast.unparse(dflt) == cmp_):
                        subj = _holder(core.left)
                if subj is None:
                    continue
                root = subj.split(".")[0]
                dn = ta.defs.get(subj, ("", None))[1]
                is_answer = isinstance(dn, ast.Await) and isinstance(dn.value, ast.Call) and call_name(dn.value) == "send_initialize"
                if root in holders or (root == "self" and subj.count(".") >= 1) or is_answer:
                    excuse = l
                    break
            about = sorted(l[:70] for l in st.lits)[:8]
            R.ob("R4", f"{t.qual} records the version after every handshake unless there is nothing to record into", bool(excuse), f"{t.module.rel}:{node.lineno}",
                 f"a path returns the answer of a completed handshake without recording its version, under {about}: the tracked client keeps the batching mode of an earlier version",
                 sample=f"R4 {t.qual}: unrecorded only when `{excuse[:60]}`")
        for st, node in to.ret:
            ret = ta.origin(subst_text(node.value, st)) if node.value is not None else "None"
            if "send_initialize(" in ret:
                R.ob("R4", f"{t.qual} returns the answer", True, f"{t.module.rel}:{node.lineno}", ret[:80])

    # ------------------------------------------------------------------ R5
    setters = [f for f in P.funcs.values() if f.name == "set_protocol_version" and f.cls is not None]
    R.need(setters, "anchor: no set_protocol_version method")
    for f in setters:
        R.fn(f.fq)
        p = [x for x in f.positional_params() if x != "self"][0]
        calls = [c for c in walk_local(f.node) if isinstance(c, ast.Call) and call_name(c).endswith("update_protocol_version")]
        stores = [s for s in walk_local(f.node) if isinstance(s, ast.Assign) and "protocol_version" in ast.unparse(s.targets[0])]
        ok = (len(calls) == 1 and len(calls[0].args) == 1 and ast.unparse(calls[0].args[0]) == p) or (not calls and not stores)
        if stores and not calls:
            ok = False
        # a transport that neither batches nor stores a version may ignore it
        R.ob("R5", f"{f.fq} forwards the version to the batch processor", ok, f.where, f"calls {[ast.unparse(c)[:60] for c in calls]} stores {[ast.unparse(s)[:60] for s in stores]}")
    upd = P.func(A.MOD_BATCH, "BatchProcessor.update_protocol_version")
    pv = [x for x in upd.positional_params() if x != "self"][0]
    mode = [s for s in walk_local(upd.node) if isinstance(s, ast.Assign) and ast.unparse(s.targets[0]) == "self.batching_enabled"]
    ver = [s for s in walk_local(upd.node) if isinstance(s, ast.Assign) and ast.unparse(s.targets[0]) == "self.protocol_version"]
    ok = len(mode) == 1 and len(ver) == 1 and ast.unparse(mode[0].value) == f"supports_batching({pv})" and ast.unparse(ver[0].value) == pv
    R.ob("R5", "update_protocol_version recomputes batching_enabled from the same value", ok, upd.where, "")

    # ------------------------------------------------------------------ R6: "the mode belonging to that version"
    from . import c13

    sub13 = Report(prop="C13", tier=R.tier)
    undecided13 = None
    try:
        c13.check(P, sub13)
    except AnalysisError as e:
        undecided13 = str(e)
    except Exception as e:  # an early stop after a finding of the sibling: what it produced so far stands
        if not sub13.obligations:
            undecided13 = str(e)
    r1_13 = [o for o in sub13.obligations if o.rule == "R1"]
    n6 = len(r1_13)
    if n6 >= 3 or undecided13 is None:
        R.rule("R6", "the batching mode a tracked client ends up in is the one that belongs to the recorded version: the version→mode function the tracker calls is the calendar comparison with 2025-06-18 (the region obligations of C13-R1, read here for the clause 'a tracked client's batching mode is the one belonging to that version')")
        for o in r1_13:
            R.ob("R6", "mode of a version: " + o.key, o.ok, o.where, o.detail)
    if n6 < 3 and undecided13 is not None:
        # the function is C13's subject; where its rules cannot read it, that check says so (exit 2) and this clause is left to it
        R.notes.append(f"R6 not evaluated: the version→mode function is written in a shape C13's rules cannot read ({undecided13[:120]})")
    else:
        R.need(n6 >= 3, "anchor: the region obligations of the version→mode function were not produced")

    # ------------------------------------------------------------------ R7: the answer is the answer to *this* request
    R.rule("R7", "the answer the handshake settles on is the answer to this initialize request: the handshake functions leave the request id to send_message (fresh uuid4) or hand on their own caller's — an id fixed by the library would let a late answer to an earlier, abandoned attempt on the same streams be taken for this one's")
    from ._sendmsg import analyse as _an_send, request_id_problems

    W_ = _an_send(P)
    hs = [f_ for f_ in P.funcs.values() if f_.module.name == A.MOD_INIT]
    calls7 = [(f_, c_) for f_ in hs for c_ in walk_local(f_.node) if isinstance(c_, ast.Call) and P.resolve_call(f_, c_) is W_.send]
    R.need(calls7, "anchor: the handshake module no longer calls send_message")
    probs7 = request_id_problems(P, W_.send, only=hs)
    for f_, c_, t_ in probs7:
        R.ob("R7", f"{f_.qual}: the initialize request carries a fresh id", False, f"{f_.module.rel}:{c_.lineno}",
             f"passes message_id=`{t_[:60]}`: a second handshake attempt on the same streams (after a timeout) reuses the id, and the server's late answer to the first attempt — possibly another version — is returned as the answer to the second, sent `initialized` on, and recorded by the trackers")
    if not probs7:
        R.ob("R7", "the handshake leaves the request id to send_message", True, fi.module.rel, "", sample=f"R7 {len(calls7)} call(s) of send_message in the handshake module: no message_id of the library's choosing")
