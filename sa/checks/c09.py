"""C09 — Pydantic and fallback validation backends agree on all spec-valid traffic."""
from __future__ import annotations

import ast
import re
import itertools
from typing import Dict, List, Optional, Set

from .. import anchors as A
from ..canon import canon_copy
from ..roles import canonical_fallback
from ..model import AnalysisError, Project, call_name, walk_local
from ..models import ModelTable, ModelInfo, FieldInfo, union_members
from ..report import Report

# Facts about Pydantic v2 (trusted base): hooks it dispatches on a model class
PYDANTIC_HOOKS = {"model_post_init"}
PYDANTIC_DECORATORS = {"field_validator", "model_validator", "validator", "root_validator"}

# Parameter/configuration classes: validated user configuration, not protocol traffic.  Listed in the
# evidence; C09 speaks about JSON-RPC messages and MCP payloads.
NOT_TRAFFIC_PREFIXES = ("chuk_mcp.transports.",)


# canonical names the rules below use for the validator's parameters (by position) — whatever the source calls them
DV_PARAMS = ("name", "value", "expected", "path", "class_module", "original_annotation")


def fallback_defs(P: Project):
    """Function/class definitions of the fallback branch of mcp_pydantic_base (the `else:` arm of
    `if PYDANTIC_AVAILABLE:`)."""
    m = P.module(A.MOD_BASE)
    for n in m.tree.body:
        if isinstance(n, ast.If) and ast.unparse(n.test) == "PYDANTIC_AVAILABLE":
            funcs, classes = {}, {}
            for s in n.orelse:
                if isinstance(s, (ast.FunctionDef, ast.AsyncFunctionDef)):
                    funcs[s.name] = s
                if isinstance(s, ast.ClassDef):
                    classes[s.name] = s
            return funcs, classes, n
    raise AnalysisError("anchor: `if PYDANTIC_AVAILABLE:` split not found in mcp_pydantic_base")


def nested_serialiser_obligations(fb_methods, R, fb_funcs=None):
    """[(label, ok, line, detail, sample)]: the fallback's nested serialiser maps the elements of free-form lists and
    dicts one to one (shared by C09-R8 and C06-R3).  Helpers of the fallback branch that the serialiser hands the value
    to (`_dump_value(value, options)`) are part of it."""
    dumpf = fb_methods.get("model_dump")
    sv = fb_methods.get("_serialize_value")
    R.need(dumpf is not None, "anchor: fallback model_dump not found")
    nested_fns = [sv] if sv is not None else [dumpf]
    fb_funcs = fb_funcs or {}
    grew = True
    while grew and len(nested_fns) < 6:
        grew = False
        for fnode in list(nested_fns):
            for c in walk_local(fnode):
                if isinstance(c, ast.Call):
                    g = fb_funcs.get(c.func.id) if isinstance(c.func, ast.Name) else (fb_methods.get(c.func.attr) if isinstance(c.func, ast.Attribute) and isinstance(c.func.value, ast.Name) and c.func.value.id in ("self", "cls") else None)
                    if g is not None and g not in nested_fns and g is not dumpf:
                        nested_fns.append(g)
                        grew = True
    out = []
    n_maps = 0
    for fnode in nested_fns:
        for n in walk_local(fnode):
            if isinstance(n, (ast.ListComp, ast.DictComp, ast.SetComp, ast.GeneratorExp)):
                n_maps += 1
                filt = [ast.unparse(i)[:50] for g in n.generators for i in g.ifs]
                key_ok = True
                if isinstance(n, ast.DictComp):
                    tgt = n.generators[0].target
                    k0 = tgt.elts[0] if isinstance(tgt, ast.Tuple) and tgt.elts else None
                    key_ok = k0 is not None and ast.unparse(n.key) == ast.unparse(k0)
                out.append((f"fallback nested serialiser: `{ast.unparse(n)[:40]}…` maps every element", not filt and key_ok, n.lineno,
                            (f"elements are filtered by `{filt[0]}`" if filt else "dict keys are rewritten") + ": an explicit null (or other member) inside a free-form Dict[str, Any]/List[Any] value — tool arguments, a JSON schema default, _meta, a result payload — is dropped by the fallback and kept by Pydantic, so the two backends re-serialise the same message differently",
                            f"{fnode.name}: {type(n).__name__} without filter"))
            if sv is not None and isinstance(n, (ast.For, ast.While)):
                n_maps += 1
                cond = [x for x in walk_local(n) if isinstance(x, (ast.Continue, ast.Break)) or (isinstance(x, ast.If) and x is not n)]
                out.append((f"fallback nested serialiser: loop at line {n.lineno} handles every element", not cond, n.lineno, "a conditional inside the element loop can skip members of a free-form container", ""))
    if sv is not None:
        out.append(("the nested serialiser's container branches were examined", n_maps >= 2, sv.lineno, f"{n_maps} element maps found (list and dict branches expected)", ""))
    return out


def class_cache_keys(T, methods):
    """(names defined by two model classes, [(method, key text, key definition, keyed by identity?, line)]) for every
    access to a class-level `…_cache__` mapping in the fallback base class's methods."""
    names = {}
    for q, m in T.models.items():
        names.setdefault(m.name, []).append(q)
    dup = sorted(n for n, qs in names.items() if len(qs) > 1)
    out = []
    for mname, fn in sorted(methods.items()):
        name_vars = {ast.unparse(s_.targets[0]) for s_ in walk_local(fn) if isinstance(s_, ast.Assign) and len(s_.targets) == 1 and ast.unparse(s_.value).endswith(".__name__")}
        for n in walk_local(fn):
            key = None
            if isinstance(n, ast.Subscript) and "_cache__" in ast.unparse(n.value):
                key = n.slice
            elif isinstance(n, ast.Call) and isinstance(n.func, ast.Attribute) and n.func.attr in ("get", "setdefault", "pop") and "_cache__" in ast.unparse(n.func.value) and n.args:
                key = n.args[0]
            elif isinstance(n, ast.Compare) and len(n.ops) == 1 and isinstance(n.ops[0], (ast.In, ast.NotIn)) and "_cache__" in ast.unparse(n.comparators[0]):
                key = n.left
            if key is None:
                continue
            kt = ast.unparse(key)
            kdefs = [s_ for s_ in walk_local(fn) if isinstance(s_, ast.Assign) and ast.unparse(s_.targets[0]) == kt]
            full = ast.unparse(kdefs[-1].value) if kdefs else kt
            uses_name = "__name__" in full or any(v in {x.id for x in ast.walk(ast.parse(full, mode="eval")) if isinstance(x, ast.Name)} for v in name_vars)
            has_identity = "id(" in full
            out.append((mname, kt, full, not (uses_name and not has_identity and dup), n.lineno))
    return dup, out


def lit_values(ann: ast.AST) -> Optional[Set]:
    if isinstance(ann, ast.Subscript) and ast.unparse(ann.value).split(".")[-1] == "Literal":
        elts = ann.slice.elts if isinstance(ann.slice, ast.Tuple) else [ann.slice]
        return {e.value for e in elts if isinstance(e, ast.Constant)}
    return None


def check(P: Project, R: Report) -> None:
    R.rule("R1", "hook parity: every validating hook on a protocol model class (a method that can raise, run at construction) is dispatched by both backends — model_post_init, or a method called from the class's own model_post_init")
    R.rule("R2", "constraint parity: Field(ge/le/gt/lt/min_length/max_length/pattern) constraints are enforced by Pydantic only unless the fallback validator reads them")
    R.rule("R3", "union variants: under the fallback's acceptance relation (derived from its validator: ordered attempts, required fields, Literal tags only if it has a Literal case) no earlier member of a union of model classes accepts a wire object that is valid for a later member")
    R.rule("R4", "requiredness parity: no field is Optional[...] without a default (required-but-nullable in Pydantic, optional in the fallback)")
    R.rule("R6", "inherited fields: if the fallback validates only a class's own annotations (derived from its source), no protocol model may inherit a typed field from another model class")
    R.rule("R5", "Union[int, str] keeps the JSON type in the fallback: an exact-type pass precedes the ordered coercing attempts, and stripping None from Optional[Union[...]] keeps all remaining members")
    P = canonical_fallback(P, A.MOD_BASE)  # fallback helpers found by role, then read under canonical names
    T = ModelTable(P)
    R.need(len(T.models) >= 50, f"model table has only {len(T.models)} classes (65 confirmed by hand)")
    R.extra["model_classes"] = len(T.models)
    funcs, classes, split = fallback_defs(P)
    base_rel = P.module(A.MOD_BASE).rel
    fb = classes.get("McpPydanticBase")
    R.need(fb is not None and "_deep_validate" in funcs, "anchor: fallback McpPydanticBase / _deep_validate not found")
    fb_methods = {s.name: s for s in fb.body if isinstance(s, (ast.FunctionDef, ast.AsyncFunctionDef))}

    # ------------------------------------------------------------------ fallback facts
    disp = None
    for name, fn in fb_methods.items():
        if any(isinstance(c, ast.Call) and call_name(c) == "getattr" and len(c.args) >= 2 and isinstance(c.args[1], ast.Constant) and c.args[1].value in ("__post_init__", "model_post_init") for c in walk_local(fn)):
            disp = fn
    R.need(disp is not None, "anchor: the fallback's post-init dispatcher was not found")
    fb_hooks = set()
    for s in walk_local(disp):
        if isinstance(s, ast.Assign) and isinstance(s.value, ast.Call) and call_name(s.value) == "getattr" and len(s.value.args) >= 2 and isinstance(s.value.args[1], ast.Constant):
            var = ast.unparse(s.targets[0])
            if any(isinstance(c, ast.Call) and ast.unparse(c.func) == var for c in walk_local(disp)):
                fb_hooks.add(s.value.args[1].value)
    init = fb_methods.get("__init__")
    R.need(init is not None and any(isinstance(c, ast.Call) and call_name(c) == f"self.{disp.name}" for c in walk_local(init)), "anchor: fallback __init__ does not call the post-init dispatcher")
    both = fb_hooks & PYDANTIC_HOOKS
    R.extra["fallback_hooks"] = sorted(fb_hooks)
    R.extra["hooks_dispatched_by_both"] = sorted(both)
    R.ob("R1", "model_post_init is dispatched by the fallback", "model_post_init" in fb_hooks, f"{base_rel}:{disp.lineno}", f"fallback dispatches {sorted(fb_hooks)}")
    dv = canon_copy(funcs["_deep_validate"], params=DV_PARAMS, roles={"origin": lambda v: isinstance(v, ast.Call) and call_name(v) == "get_origin"})
    origin_cases = set()
    literal_rejects = False
    for n in walk_local(dv):
        if isinstance(n, ast.If):
            t = ast.unparse(n.test)
            if t.startswith("origin is ") or t.startswith("origin in "):
                origin_cases.add(t)
                if t == "origin is Literal" and any(isinstance(x, ast.Raise) for b in n.body for x in walk_local(b)):
                    literal_rejects = True
    R.extra["fallback_origin_cases"] = sorted(origin_cases)
    R.extra["fallback_checks_literals"] = literal_rejects
    reads_constraints = any(isinstance(n, ast.Attribute) and n.attr == "kwargs" and isinstance(n.ctx, ast.Load) for f in list(funcs.values()) + list(fb_methods.values()) for n in walk_local(f))
    # which constraint keywords the fallback branch knows at all (string constants anywhere in that branch)
    from ..models import CONSTRAINT_KW

    enforced = set()
    if reads_constraints:
        for stmt in split.orelse:
            for n in ast.walk(stmt):
                if isinstance(n, ast.Constant) and n.value in CONSTRAINT_KW:
                    enforced.add(n.value)
    R.extra["fallback_enforced_constraints"] = sorted(enforced)

    # ------------------------------------------------------------------ per model class
    traffic = {q: m for q, m in T.models.items() if not m.ci.module.name.startswith(NOT_TRAFFIC_PREFIXES)}
    config_models = sorted(q for q in T.models if q not in traffic)
    R.extra["configuration_models_not_traffic"] = config_models
    n_hooks = 0
    for q, m in sorted(traffic.items()):
        rel = m.ci.module.rel
        for hname, f in m.methods.items():
            deco = [d for mm, d in m.decorated if mm == hname]
            is_hook = hname in ("__post_init__", "model_post_init") or deco
            if not is_hook:
                continue
            raises = any(isinstance(x, ast.Raise) for x in walk_local(f.node))
            calls_hooks = [call_name(c)[5:] for c in walk_local(f.node) if isinstance(c, ast.Call) and call_name(c).startswith("self.") and call_name(c)[5:] in m.methods]
            if not raises and not calls_hooks:
                continue
            n_hooks += 1
            R.fn(f.fq)
            if deco:
                ok = False
                why = f"@{deco[0]} is dispatched by Pydantic only (the decorator is imported from pydantic; the fallback has no dispatch for it)"
            elif hname in both:
                ok = True
                why = "dispatched by both backends"
            else:
                # __post_init__: fallback only, unless model_post_init of the same class delegates to it
                mpi = m.methods.get("model_post_init")
                delegated = mpi is not None and any(isinstance(c, ast.Call) and call_name(c) == f"self.{hname}" for c in walk_local(mpi.node))
                ok = delegated and hname in fb_hooks or (delegated and "model_post_init" in fb_hooks)
                why = "delegated from model_post_init" if ok else f"{hname} is called by the fallback only; Pydantic v2 never calls it, so the invariant it enforces holds under one backend only"
            if raises:
                R.ob("R1", f"{m.name}.{hname} is enforced by both backends", ok, f"{rel}:{f.node.lineno}", why, sample=f"R1 {m.name}.{hname}: {why}")
            if raises and not deco and hname not in both and ok:
                # the fallback runs this hook on the object as validated and then model_post_init; Pydantic runs model_post_init
                # alone.  The two agree only if model_post_init hands the *same* object to the hook: whatever it stores into
                # the instance first (a normalisation, a de-duplication) is seen by the check under Pydantic and not under the fallback
                mpi = m.methods["model_post_init"]
                dele = [c for c in walk_local(mpi.node) if isinstance(c, ast.Call) and call_name(c) == f"self.{hname}"]
                first = min(c.lineno for c in dele)
                stores = []
                for x in walk_local(mpi.node):
                    if getattr(x, "lineno", first) >= first:
                        continue
                    if isinstance(x, (ast.Assign, ast.AugAssign, ast.AnnAssign)):
                        for t_ in (x.targets if isinstance(x, ast.Assign) else [x.target]):
                            if isinstance(t_, (ast.Attribute, ast.Subscript)) and "self" in {n_.id for n_ in ast.walk(t_) if isinstance(n_, ast.Name)}:
                                stores.append(ast.unparse(x)[:60])
                    elif isinstance(x, ast.Call) and call_name(x) in ("setattr", "object.__setattr__") and x.args and ast.unparse(x.args[0]) == "self":
                        stores.append(ast.unparse(x)[:60])
                    elif isinstance(x, ast.Call) and isinstance(x.func, ast.Attribute) and x.func.attr in ("update", "append", "extend", "clear", "pop", "remove", "sort", "insert") and ast.unparse(x.func.value).startswith("self."):
                        stores.append(ast.unparse(x)[:60])
                R.ob("R1", f"{m.name}.{hname} sees the same object under both backends", not stores, f"{rel}:{mpi.node.lineno}",
                     f"model_post_init changes the object before it delegates (`{stores[0] if stores else ''}`): the fallback has already run {hname} on the object as it came in (and rejects it), Pydantic runs it only after the change (and accepts) — the invariant is enforced on different values by the two backends",
                     sample=f"R1 {m.name}: model_post_init hands the object to {hname} unchanged")
        # R2 / R4
        for fi in m.own_fields.values():
            if fi.constraints:
                missing = sorted(set(fi.constraints) - enforced)
                R.ob("R2", f"{m.name}.{fi.name} constraint {sorted(fi.constraints)} enforced by both backends", not missing, f"{rel}:{fi.lineno}",
                     f"Field({', '.join(f'{k}={v}' for k, v in fi.constraints.items())}): the fallback enforces {sorted(enforced) or 'no constraint keyword'}; {missing} are rejected by Pydantic and accepted by the fallback",
                     sample=f"R2 {m.name}.{fi.name}: {fi.constraints}")
            if fi.optional_ann and fi.required:
                R.ob("R4", f"{m.name}.{fi.name}: Optional with a default", False, f"{rel}:{fi.lineno}", f"`{fi.name}: {fi.ann_text}` has no default: required under Pydantic, optional under the fallback")
    R.ob("R4", "every Optional field of a protocol model has a default", True, "", f"{sum(len(m.own_fields) for m in traffic.values())} fields examined")
    R.ob("R2", "constraint keywords the fallback enforces were derived from its source", True, base_rel, f"fallback reads Field.kwargs: {reads_constraints}; keywords: {sorted(enforced)}")
    R.extra["validating_hooks"] = n_hooks

    # ------------------------------------------------------------------ R7: unions of primitives
    R.rule("R7", "unions of primitive types resolve alike: JSON integers are numbers, so a union with float but without int must not list str before float while the fallback's str case stringifies numbers (Pydantic picks the float member, the fallback would yield a string)")
    str_coerces = False
    for n in walk_local(dv):
        if isinstance(n, ast.If) and ast.unparse(n.test) == "expected is str":
            for x in walk_local(n):
                if isinstance(x, ast.Return) and x.value is not None and ast.unparse(x.value) == "str(value)":
                    str_coerces = True
    R.extra["fallback_str_case_stringifies_numbers"] = str_coerces
    PRIM = {"str", "int", "float", "bool"}
    n_pu = 0
    for q, m in sorted(traffic.items()):
        for fi in m.own_fields.values():
            for sub in ast.walk(fi.annotation):
                if isinstance(sub, ast.Subscript) and ast.unparse(sub.value).split(".")[-1] in ("Union", "Optional"):
                    mem = [ast.unparse(e) for e in union_members(sub)]
                    prim = [x for x in mem if x in PRIM]
                    if len(prim) < 2:
                        continue
                    n_pu += 1
                    bad = "float" in prim and "int" not in prim and "str" in prim and prim.index("str") < prim.index("float") and str_coerces
                    R.ob("R7", f"{m.name}.{fi.name}: Union[{', '.join(prim)}] resolves JSON integers alike", not bad, f"{m.ci.module.rel}:{fi.lineno}",
                         "a JSON integer (a valid number) is no exact member: Pydantic's smart union yields the float member, the fallback tries the members in order and its str case turns 42 into \"42\"",
                         sample=f"R7 {m.name}.{fi.name}: Union[{', '.join(prim)}]")
    R.ob("R7", "unions of primitives were examined", True, "", f"{n_pu} such unions in protocol model fields")

    # ------------------------------------------------------------------ R6: inherited fields
    vt = fb_methods.get("_validate_types")
    R.need(vt is not None, "anchor: fallback _validate_types not found")
    iter_src = None
    for n in walk_local(vt):
        if isinstance(n, ast.For) and isinstance(n.iter, ast.Call) and call_name(n.iter).endswith(".items") and any(isinstance(c, ast.Call) and call_name(c) == "_deep_validate" for c in walk_local(n)):
            base = ast.unparse(n.iter.func.value)
            defs_ = [s_ for s_ in walk_local(vt) if isinstance(s_, ast.Assign) and ast.unparse(s_.targets[0]) == base]
            iter_src = ast.unparse(defs_[-1].value) if defs_ else base
    R.need(iter_src is not None, "anchor: the fallback's per-field validation loop was not found")
    own_only = "__annotations__" in iter_src and "get_type_hints" not in iter_src
    R.extra["fallback_validates_fields_from"] = iter_src
    n_inh = 0
    for q, m in sorted(traffic.items()):
        inherited = {n_: f for n_, f in m.fields.items() if n_ not in m.own_fields}
        for n_, f in sorted(inherited.items()):
            trivial = f.ann_text in ("Any", "Optional[Any]")
            n_inh += 1
            R.ob("R6", f"{m.name}.{n_} (inherited from {f.owner.split(':')[1]}) is validated by both backends", trivial or not own_only, f"{m.ci.module.rel}:{m.ci.node.lineno}",
                 f"the fallback validates `{iter_src}` — a class's own annotations only — so the inherited field `{n_}: {f.ann_text}` is typed and validated under Pydantic and left a raw value under the fallback")
    R.ob("R6", "which annotations the fallback validates was derived from its source", True, f"{base_rel}:{vt.lineno}", f"{iter_src}; {n_inh} inherited fields on protocol models today")

    # ------------------------------------------------------------------ R3
    def required_fields(mi: ModelInfo) -> Dict[str, FieldInfo]:
        return {n: f for n, f in mi.fields.items() if f.required and not f.optional_ann}

    def compat(fa: FieldInfo, fbf: FieldInfo) -> bool:
        la, lb = lit_values(fa.annotation), lit_values(fbf.annotation)
        if la is not None and lb is not None:
            return bool(la & lb) or not literal_rejects
        if la is not None and lb is None:
            return True  # some B value may equal the tag
        ta, tb = fa.ann_text, fbf.ann_text
        if ta == tb or "Any" in (ta, tb):
            return True
        prim = {"str", "int", "float", "bool"}
        if ta in prim and tb in prim:
            return True  # the fallback coerces between primitives
        if ta in prim and lb is not None:
            return True
        ma, mb = T.mentioned_models(None, fa) if False else [], []
        return ta.split("[")[0] == tb.split("[")[0]

    def accepts(a: ModelInfo, b: ModelInfo) -> Optional[str]:
        """Would the fallback accept, as A, the minimal wire object valid for B?  Returns the reason or None."""
        ra, rb = required_fields(a), required_fields(b)
        # B's minimal object: its required fields plus fields with Literal defaults (serialised tags are always present)
        present = dict(rb)
        for n, f in b.fields.items():
            if lit_values(f.annotation) is not None:
                present[n] = f
        for n, f in ra.items():
            if n not in present:
                return None
        for n, f in a.fields.items():
            if n in present and not compat(f, present[n]):
                return None
        return f"required {sorted(ra)} ⊆ present {sorted(present)}; tags " + ("checked and overlapping" if literal_rejects else "not checked by the fallback")

    unions_seen = {}
    for q, m in sorted(traffic.items()):
        for fi in m.own_fields.values():
            for sub in ast.walk(fi.annotation):
                if isinstance(sub, ast.Subscript) and ast.unparse(sub.value).split(".")[-1] == "Union":
                    members = []
                    for e in union_members(sub):
                        nm = e.id if isinstance(e, ast.Name) else (e.value if isinstance(e, ast.Constant) and isinstance(e.value, str) else None)
                        if nm:
                            owner = P.classes[fi.owner].module.name
                            mm = T.class_of_annotation_name(owner, nm)
                            if mm is None:
                                # alias expanded from another module: try every model of that name
                                c = [x for x in T.models.values() if x.name == nm]
                                mm = c[0] if len(c) == 1 else None
                            if mm is not None:
                                members.append(mm)
                    if len(members) >= 2:
                        key = tuple(x.qual for x in members)
                        unions_seen.setdefault(key, []).append(f"{m.name}.{fi.name}")
    R.need(len(unions_seen) >= 2, f"only {len(unions_seen)} unions of model classes found in annotations (Content, ResourceContents, CreateMessageResult.content confirmed by hand)")
    R.extra["model_unions"] = {" | ".join(k.split(":")[1] for k in key): sites for key, sites in unions_seen.items()}
    for key, sites in sorted(unions_seen.items()):
        members = [T.models[k] for k in key]
        for i, a in enumerate(members):
            for b in members[i + 1:]:
                why = accepts(a, b)
                R.ob("R3", f"{a.name} does not shadow {b.name}", why is None, f"{a.ci.module.rel}:{a.ci.node.lineno}",
                     f"in Union[{', '.join(x.name for x in members)}] (used by {sites}) the fallback tries {a.name} first and accepts a {b.name} object: {why}",
                     sample=f"R3 {a.name} ≺ {b.name}: " + ("no shadowing" if why is None else why))
    R.ob("R3", "the fallback validator has a Literal case that can reject", literal_rejects, f"{base_rel}:{dv.lineno}", f"origin cases handled: {sorted(origin_cases)} — without a Literal case discriminator tags are not checked")

    # ------------------------------------------------------------------ R8: the fallback's dump keeps free-form containers intact
    R.rule("R8", "re-serialisation: Pydantic applies exclude_none to declared fields only, so the fallback's nested serialiser must map the elements of free-form lists and dicts one to one — no filter in its comprehensions, no conditional skip in its loops, dict keys unchanged")
    for label, ok, lineno, detail, sample in nested_serialiser_obligations(fb_methods, R, funcs):
        R.ob("R8", label, ok, f"{base_rel}:{lineno}", detail, sample=sample)

    # ------------------------------------------------------------------ R5
    union_if = None
    for n in walk_local(dv):
        if isinstance(n, ast.If) and ast.unparse(n.test) == "origin is Union":
            union_if = n
    R.need(union_if is not None, "anchor: the fallback validator has no Union case")
    loops = [s for s in union_if.body if isinstance(s, ast.For)]
    exact_idx = coerc_idx = None
    for i, l in enumerate(loops):
        txt = ast.unparse(l)
        has_recursive = any(isinstance(c, ast.Call) and call_name(c) == "_deep_validate" for c in walk_local(l))
        exact = False
        for s in walk_local(l):
            if isinstance(s, ast.If) and any(isinstance(r, ast.Return) and r.value is not None and ast.unparse(r.value) == "value" for b in s.body for r in walk_local(b)):
                t = ast.unparse(s.test)
                if "type(value) is" in t or ("isinstance(value" in t and "bool" not in t):
                    exact = True
        if exact and not has_recursive and exact_idx is None:
            exact_idx = i
        if has_recursive and coerc_idx is None:
            coerc_idx = i
    R.need(coerc_idx is not None, "anchor: ordered union attempts not found")
    R.ob("R5", "an exact-type pass precedes the coercing union attempts", exact_idx is not None and exact_idx < coerc_idx, f"{base_rel}:{union_if.lineno}",
         "the union is tried member by member with coercion first: for Union[int, str] a digit string such as \"7\" validates as the int 7 (ids and progress tokens change JSON type)",
         sample="R5 _deep_validate Union case: exact-type loop before coercing loop")
    gn = funcs.get("_get_non_none_type")
    R.need(gn is not None, "anchor: _get_non_none_type not found")
    rets = [r for r in walk_local(gn) if isinstance(r, ast.Return) and r.value is not None]
    opt_rets = [r for r in rets if ast.unparse(r.value) != gn.args.args[0].arg]

    def single_member_guard(r) -> bool:
        """`return args[0]` is fine exactly when it sits under a test that only one member is left"""
        for i in walk_local(gn):
            if isinstance(i, ast.If) and any(r is x for s_ in i.body for x in walk_local(s_)) and re.search(r"len\(\w+\)\s*==\s*1", ast.unparse(i.test)):
                return True
            if isinstance(i, ast.IfExp) and r.value is i:
                return bool(re.search(r"len\(\w+\)\s*==\s*1", ast.unparse(i.test)))
        return False

    firsts = [r for r in opt_rets if ("next(" in ast.unparse(r.value) or ast.unparse(r.value).endswith("[0]")) and not isinstance(r.value, ast.IfExp)]
    keeps_all = bool(opt_rets) and any(any(isinstance(s, ast.Subscript) and ast.unparse(s.value).split(".")[-1] == "Union" for s in ast.walk(r.value)) for r in opt_rets)
    first_only = any(not single_member_guard(r) for r in firsts)
    R.ob("R5", "Optional[Union[...]] keeps all non-None members", keeps_all and not first_only, f"{base_rel}:{gn.lineno}",
         f"_get_non_none_type returns {[ast.unparse(r.value)[:60] for r in opt_rets]}: Optional[Union[int, str]] (the legacy envelope's id) collapses to its first member")
    # the envelope ids really are Union[int, str] (same order for every envelope)
    for cname in ("JSONRPCRequest", "JSONRPCResponse", "JSONRPCError", "JSONRPCMessage"):
        mi = T.models.get(f"{A.MOD_JSONRPC}:{cname}")
        R.need(mi is not None, f"anchor vanished: {cname}")
        idf = mi.fields.get("id")
        R.ob("R5", f"{cname}.id is Union[int, str]", idf is not None and idf.ann_text in ("Union[int, str]", "Optional[Union[int, str]]"), f"{mi.ci.module.rel}:{idf.lineno if idf else 0}", idf.ann_text if idf else "missing")

    # ------------------------------------------------------------------ R9: what a payload is validated against does not depend on history
    R.rule("R9", "the fallback's class-level caches (resolved field types, hints, alias maps) are keyed by class identity: the package defines several model classes twice under the same name, and a cache entry shared by two of them makes the type a payload is validated against depend on which class was validated first in the process")
    dup, keys = class_cache_keys(T, fb_methods)
    R.need(keys, "anchor: the fallback base class no longer reads a class-level cache")
    for mname, kt, full, ok, lineno in keys:
        R.ob("R9", f"fallback {mname}: cache key `{kt}` identifies the class", ok, f"{base_rel}:{lineno}",
             f"key `{full}` is built from the class name only; {', '.join(dup[:4])} … are each defined by two model classes with different field types, so the second class to be validated is checked against the first one's resolved types: a payload valid for it is rejected (or typed as the other variant) under the fallback and accepted by Pydantic",
             sample=f"R9 {mname}: {kt} := {full[:60]}")

    # ------------------------------------------------------------------ R10: a validation failure is caught alike
    R.rule("R10", "a handler that catches one backend's validation failure catches the other's: Pydantic's ValidationError is a ValueError, the fallback's derives from the bases named in its class statement — a handler around a model validation that names only classes of one of the two lines (and does not simply re-raise) makes acceptance depend on the backend")
    fbv = classes.get("ValidationError")
    R.need(fbv is not None, "anchor: the fallback branch no longer defines ValidationError")
    fb_bases = {ast.unparse(b).split(".")[-1] for b in fbv.bases} or {"Exception"}
    UP = {"ValueError": "Exception", "TypeError": "Exception", "Exception": "BaseException", "KeyError": "LookupError", "LookupError": "Exception", "ArithmeticError": "Exception", "RuntimeError": "Exception"}

    def closure(names):
        out = set(names)
        work = list(names)
        while work:
            b = UP.get(work.pop())
            if b and b not in out:
                out.add(b)
                work.append(b)
        return out

    pyd_line = closure({"ValueError"}) | {"ValidationError"}
    fb_line = closure(fb_bases) | {"ValidationError"}
    model_names = {m.name for m in T.models.values()}
    n_sites = 0
    for f in sorted(P.funcs.values(), key=lambda f: f.fq):
        for t in walk_local(f.node):
            if not isinstance(t, ast.Try):
                continue
            vcalls = [c for s_ in t.body for c in walk_local(s_) if isinstance(c, ast.Call) and (call_name(c).endswith((".model_validate", ".model_validate_json")) or call_name(c).split(".")[-1] in model_names)]
            if not vcalls or not t.handlers:
                continue
            n_sites += 1

            def caught(h):
                if h.type is None:
                    return {"BaseException"}
                els = h.type.elts if isinstance(h.type, ast.Tuple) else [h.type]
                return {ast.unparse(e).split(".")[-1] for e in els}

            hp = next((h for h in t.handlers if caught(h) & pyd_line), None)
            hf = next((h for h in t.handlers if caught(h) & fb_line), None)
            if hp is None and hf is None:
                continue
            reraise = lambda h: h is not None and bool(h.body) and isinstance(h.body[-1], ast.Raise) and h.body[-1].exc is None
            same = hp is hf or (reraise(hp) and (hf is None or reraise(hf))) or (hp is None and reraise(hf))
            R.ob("R10", f"{f.qual}: the handlers around `{call_name(vcalls[0])}` treat both backends' validation failure alike", same, f"{f.module.rel}:{t.lineno}",
                 f"Pydantic's failure (a ValueError) is taken by `except {ast.unparse(hp.type) if hp is not None and hp.type is not None else '<none>'}`, the fallback's (bases {sorted(fb_bases)}) by `except {ast.unparse(hf.type) if hf is not None and hf.type is not None else '<none: it escapes>'}`: the same invalid-for-this-model payload is handled under one backend and raises under the other",
                 sample=f"R10 {f.qual}: {call_name(vcalls[0])} under {[ast.unparse(h.type) if h.type else 'bare' for h in t.handlers]}")
    R.need(n_sites >= 5, f"only {n_sites} guarded model validations found (8 confirmed by hand)")

    # ------------------------------------------------------------------ R11: configuration only one backend reads
    R.rule("R11", "no protocol model sets a model_config entry that rewrites or restricts values: the fallback honours `extra` alone, so such an entry makes the two backends type or accept the same payload differently")
    from ..models import config_findings

    cf = config_findings(T)
    for m, k, v, effect in cf:
        R.ob("R11", f"{m.name}: model_config is read alike by both backends", False, f"{m.ci.module.rel}:{m.ci.node.lineno}",
             f"model_config[{k!r}] = {v!r} {effect} — under Pydantic only; the fallback leaves the value as sent")
    if not cf:
        R.ob("R11", "model configuration is limited to entries both backends treat alike", True, base_rel, "", sample=f"R11 keys in use: {sorted({k for m in T.models.values() for k in m.config})}")

    # ------------------------------------------------------------------ R12: unknown members are kept by both backends alike
    R.rule("R12", "unknown members are treated alike: the Pydantic-side base class sets extra='allow' and every model inherits it; the fallback constructor merges the leftover keys on every path, or — if it reads model_config['extra'] — assumes that same mode for a class that sets none")
    from .c10 import fallback_extra_obligations

    pyd_extra = None
    for n in ast.walk(ast.Module(body=split.body, type_ignores=[])):
        if isinstance(n, ast.Assign) and ast.unparse(n.targets[0]) == "model_config":
            if isinstance(n.value, ast.Dict):
                pyd_extra = {k.value: (v.value if isinstance(v, ast.Constant) else None) for k, v in zip(n.value.keys, n.value.values) if isinstance(k, ast.Constant)}.get("extra")
            elif isinstance(n.value, ast.Call):
                pyd_extra = {k.arg: (k.value.value if isinstance(k.value, ast.Constant) else None) for k in n.value.keywords}.get("extra")
            break
    R.need(pyd_extra is not None, "anchor: the Pydantic-side base class no longer sets `extra`")
    bfv_ = fb_methods.get("_build_field_values")
    R.need(bfv_ is not None, "anchor: fallback _build_field_values not found")
    for label, ok, lineno, detail in fallback_extra_obligations(P, P.module(A.MOD_BASE), bfv_, fb, {"extra": pyd_extra}):
        R.ob("R12", label, ok, f"{base_rel}:{lineno}", detail)


    # ------------------------------------------------------------------ R13: annotations are resolved when an object is validated
    R.rule("R13", "nested members get their model type under the fallback as under Pydantic: the annotations the fallback validates against are resolved (typing.get_type_hints) in the call tree of the constructor — at class creation a string annotation naming a class defined further down the module cannot be resolved, so a member typed by such a forward reference would stay a raw dict (no nested validation, different re-serialisation)")
    fwd = []
    for q, m in sorted(T.models.items()):
        if not m.ci.module.name.startswith("chuk_mcp.protocol."):
            continue
        later = {c.name for c in ast.walk(m.ci.module.tree) if isinstance(c, ast.ClassDef) and c.lineno > m.ci.node.lineno}
        for s_ in m.ci.node.body:
            if isinstance(s_, ast.AnnAssign) and isinstance(s_.target, ast.Name):
                for c_ in ast.walk(s_.annotation):
                    if isinstance(c_, ast.Constant) and isinstance(c_.value, str) and any(nm in later for nm in re.findall(r"[A-Za-z_][A-Za-z0-9_]*", c_.value)):
                        fwd.append(f"{m.name}.{s_.target.id}")
    init_ = fb_methods.get("__init__")
    R.need(init_ is not None, "anchor: fallback constructor not found")
    reach = {"__init__": init_}
    work_ = [init_]
    while work_:
        g_ = work_.pop()
        for c_ in walk_local(g_):
            if isinstance(c_, ast.Call) and call_name(c_).startswith("self.") and call_name(c_)[5:] in fb_methods and call_name(c_)[5:] not in reach:
                reach[call_name(c_)[5:]] = fb_methods[call_name(c_)[5:]]
                work_.append(fb_methods[call_name(c_)[5:]])
    resolvers = [(nm, c_) for nm, g_ in reach.items() for c_ in walk_local(g_) if isinstance(c_, ast.Call) and call_name(c_).split(".")[-1] == "get_type_hints"]
    R.ob("R13", "the fallback resolves annotations when it validates an object", bool(resolvers) or not fwd, f"{base_rel}:{init_.lineno}",
         f"no get_type_hints call is reached from the fallback constructor (methods read: {sorted(reach)}); {len(fwd)} protocol model member(s) are annotated with a forward reference ({', '.join(fwd[:4])}) and can only be resolved after their module has been imported",
         sample=f"R13 get_type_hints reached from the constructor via {sorted({nm for nm, _c in resolvers})}; forward-referenced members: {fwd[:3]}")

    # ------------------------------------------------------------------ R14: a class named in an annotation means that class
    R.rule("R14", "a member typed by a model class is built as that class under the fallback too: the fallback looks a class-typed annotation up by its bare name in every loaded module and takes a generic alias of that name if it finds one, so no module of the package binds a subscripted typing alias (`Name = Callable[...]`, `List[...]`, `Union[...]` …) at module level under the name of a class the models use")
    resolver = next((n for n in ast.walk(ast.Module(body=split.orelse, type_ignores=[])) if isinstance(n, ast.FunctionDef) and any(isinstance(x, ast.Attribute) and x.attr == "modules" and ast.unparse(x.value) == "sys" for x in ast.walk(n)) and any(isinstance(x, ast.Attribute) and x.attr == "__name__" for x in ast.walk(n))), None)
    class_names = {}
    for ci_ in P.classes.values():
        class_names.setdefault(ci_.name, ci_)
    clashes = []
    for m_ in P.modules.values():
        for st_ in m_.tree.body:
            tg_ = st_.targets[0] if isinstance(st_, ast.Assign) and len(st_.targets) == 1 else (st_.target if isinstance(st_, ast.AnnAssign) else None)
            v_ = getattr(st_, "value", None)
            if isinstance(tg_, ast.Name) and isinstance(v_, ast.Subscript) and tg_.id in class_names and class_names[tg_.id].module is not m_:
                used = [q for q, mi in T.models.items() if any(tg_.id in re.findall(r"[A-Za-z_]\w*", f_.ann_text) for f_ in mi.fields.values())]
                if used:
                    clashes.append((m_, st_, tg_.id, used))
    for m_, st_, nm_, used in clashes:
        R.ob("R14", f"`{nm_}` names the model class wherever the fallback looks it up", resolver is None, f"{m_.rel}:{st_.lineno}",
             f"`{ast.unparse(st_)[:70]}` binds a generic alias under the name of the class {class_names[nm_].module.name}.{nm_}, which {', '.join(q.split(':')[1] for q in used[:3])} use as a member type: once this module is imported the fallback's by-name lookup ({resolver.name if resolver else '?'}, scanning sys.modules) returns the alias, the member is passed through unvalidated as a plain dict, and the two backends type the same wire object differently")
    R.ob("R14", "no module-level generic alias shares its name with a class the models are typed by", not clashes or resolver is None, base_rel, f"{len(clashes)} clash(es); by-name lookup over all modules present: {resolver is not None}",
         sample=f"R14 by-name resolver: {resolver.name if resolver else 'none'}; clashes: {len(clashes)}")
