"""Constant folding of module-level definitions (no evaluation of repository code)."""
from __future__ import annotations

import ast
from typing import Any, Optional

from .model import AnalysisError, Module, Project


class NotConstant(Exception):
    pass


def fold(project: Project, module: Module, node: ast.AST, depth: int = 0, local=None) -> Any:
    """Value of a constant expression: literals, unary minus, names bound at
    module level (followed through imports), displays, constant subscripts,
    `.copy()`, `set(...)`/`list(...)`/`tuple(...)`/`frozenset(...)` of a display."""
    if depth > 12:
        raise NotConstant("depth")
    if isinstance(node, ast.Constant):
        return node.value
    if isinstance(node, ast.UnaryOp) and isinstance(node.op, ast.USub):
        v = fold(project, module, node.operand, depth + 1, local)
        if isinstance(v, (int, float)):
            return -v
        raise NotConstant(ast.unparse(node))
    if isinstance(node, ast.Name):
        if local and node.id in local:
            return local[node.id]
        kind, obj = project.resolve_name(module.name, node.id)
        if kind == "const":
            m2, val = obj
            return fold(project, m2, val, depth + 1)
        raise NotConstant(node.id)
    if isinstance(node, ast.Attribute) and isinstance(node.value, ast.Name):
        kind, obj = project.resolve_name(module.name, node.value.id)
        if kind == "module" and obj in project.modules:
            m2 = project.modules[obj]
            val = project.module_assign(m2, node.attr)
            if val is not None:
                return fold(project, m2, val, depth + 1)
        raise NotConstant(ast.unparse(node))
    if isinstance(node, (ast.List, ast.Tuple, ast.Set)):
        vals = [fold(project, module, e, depth + 1, local) for e in node.elts]
        if isinstance(node, ast.List):
            return vals
        if isinstance(node, ast.Tuple):
            return tuple(vals)
        return set(vals)
    if isinstance(node, ast.Dict):
        out = {}
        for k, v in zip(node.keys, node.values):
            if k is None:
                raise NotConstant("dict unpack")
            out[fold(project, module, k, depth + 1, local)] = _try(project, module, v, depth, local)
        return out
    if isinstance(node, ast.Subscript):
        base = fold(project, module, node.value, depth + 1, local)
        idx = fold(project, module, node.slice, depth + 1, local)
        try:
            return base[idx]
        except Exception:
            raise NotConstant(ast.unparse(node))
    if isinstance(node, ast.Call):
        f = node.func
        if isinstance(f, ast.Attribute) and f.attr == "copy" and not node.args:
            v = fold(project, module, f.value, depth + 1, local)
            return v.copy() if hasattr(v, "copy") else v
        if isinstance(f, ast.Name) and f.id in ("set", "frozenset", "list", "tuple") and len(node.args) == 1:
            v = fold(project, module, node.args[0], depth + 1, local)
            return {"set": set, "frozenset": frozenset, "list": list, "tuple": tuple}[f.id](v)
    raise NotConstant(ast.unparse(node)[:60])


class Opaque:
    def __init__(self, text):
        self.text = text

    def __repr__(self):
        return f"<{self.text}>"


def _try(project, module, node, depth, local):
    try:
        return fold(project, module, node, depth + 1, local)
    except NotConstant:
        return Opaque(ast.unparse(node)[:60])


def module_const(project: Project, modname: str, name: str) -> Any:
    m = project.module(modname)
    val = project.module_assign(m, name)
    if val is None:
        # moved to another module and imported back under the same name
        kind, obj = project.resolve_name(modname, name)
        if kind == "const":
            m, val = obj
    if val is None:
        raise AnalysisError(f"anchor vanished: constant {modname}.{name}")
    try:
        return fold(project, m, val)
    except NotConstant as e:
        raise AnalysisError(f"{modname}.{name} is not a foldable constant ({e})")


def try_fold(project: Project, module: Module, node: ast.AST, local=None) -> Optional[Any]:
    try:
        return fold(project, module, node, local=local)
    except NotConstant:
        return None
