"""Constant folding of module-level definitions (no evaluation of repository code)."""
from __future__ import annotations

import ast
from typing import Any, Optional

from .model import AnalysisError, Module, Project


class NotConstant(Exception):
    pass


def fold(project: Project, module: Module, node: ast.AST, depth: int = 0, local=None) -> Any:
    """Value of a constant expression: literals, unary minus, names bound at
    module level (followed through imports), displays, constant subscripts,
    `.copy()`, `set(...)`/`list(...)`/`tuple(...)`/`frozenset(...)` of a display."""
    if depth > 12:
        raise NotConstant("depth")
    if isinstance(node, ast.Constant):
        return node.value
    if isinstance(node, ast.UnaryOp) and isinstance(node.op, ast.USub):
        v = fold(project, module, node.operand, depth + 1, local)
        if isinstance(v, (int, float)):
            return -v
        raise NotConstant(ast.unparse(node))
    if isinstance(node, ast.Name):
        if local and node.id in local:
            return local[node.id]
        kind, obj = project.resolve_name(module.name, node.id)
        if kind == "const":
            m2, val = obj
            return fold(project, m2, val, depth + 1)
        raise NotConstant(node.id)
    # Enum classes of the package: `E.MEMBER.value`, `E.MEMBER.name`, a data-mixin member itself (`class E(str, Enum)`)
    if isinstance(node, ast.Attribute):
        em = _enum_member_of(project, module, node.value, local) if node.attr in ("value", "name") else None
        if em is not None:
            return em.value if node.attr == "value" else em.name
        em = _enum_member_of(project, module, node, local)
        if em is not None:
            if em.mixin:
                return em.value  # compares and hashes like its value
            return em
    if isinstance(node, (ast.ListComp, ast.SetComp, ast.GeneratorExp, ast.DictComp)) and len(node.generators) == 1 and not node.generators[0].is_async \
            and (isinstance(node.generators[0].target, ast.Name) or (isinstance(node.generators[0].target, ast.Tuple) and all(isinstance(e, ast.Name) for e in node.generators[0].target.elts))):
        g = node.generators[0]
        members = _enum_members(project, module, g.iter)
        items = members if members is not None else fold(project, module, g.iter, depth + 1, local)
        if not isinstance(items, (list, tuple, set, frozenset, dict)):
            raise NotConstant(ast.unparse(node)[:60])
        out = []
        for it in (sorted(items, key=repr) if isinstance(items, (set, frozenset)) else list(items)):
            env = dict(local or {})
            if isinstance(g.target, ast.Name):
                env[g.target.id] = it
            else:
                if not isinstance(it, (tuple, list)) or len(it) != len(g.target.elts):
                    raise NotConstant(ast.unparse(node)[:60])
                for e_, v_ in zip(g.target.elts, it):
                    env[e_.id] = v_
            if all(fold(project, module, c, depth + 1, env) for c in g.ifs):
                if isinstance(node, ast.DictComp):
                    out.append((fold(project, module, node.key, depth + 1, env), fold(project, module, node.value, depth + 1, env)))
                else:
                    out.append(fold(project, module, node.elt, depth + 1, env))
        if isinstance(node, ast.DictComp):
            return dict(out)
        return set(out) if isinstance(node, ast.SetComp) else out
    if isinstance(node, ast.Compare) and len(node.ops) == 1:
        a = fold(project, module, node.left, depth + 1, local)
        b = fold(project, module, node.comparators[0], depth + 1, local)
        op = node.ops[0]
        try:
            if isinstance(op, ast.Eq):
                return a == b
            if isinstance(op, ast.NotEq):
                return a != b
            if isinstance(op, ast.In):
                return a in b
            if isinstance(op, ast.NotIn):
                return a not in b
            if isinstance(op, (ast.Is, ast.IsNot)):
                if isinstance(a, _Sentinel) or isinstance(b, _Sentinel):
                    same = a is b
                else:
                    same = (a == b) if isinstance(a, EnumMember) or isinstance(b, EnumMember) else (a is b if (a is None or b is None or isinstance(a, bool) or isinstance(b, bool)) else a == b)
                return same if isinstance(op, ast.Is) else not same
            if isinstance(op, ast.Lt):
                return a < b
            if isinstance(op, ast.LtE):
                return a <= b
            if isinstance(op, ast.Gt):
                return a > b
            if isinstance(op, ast.GtE):
                return a >= b
        except Exception:
            pass
        raise NotConstant(ast.unparse(node)[:60])
    if isinstance(node, ast.BoolOp):
        vals = [fold(project, module, v, depth + 1, local) for v in node.values]
        res = vals[0]
        for v in vals[1:]:
            res = (res and v) if isinstance(node.op, ast.And) else (res or v)
        return res
    if isinstance(node, ast.UnaryOp) and isinstance(node.op, ast.Not):
        return not fold(project, module, node.operand, depth + 1, local)
    if isinstance(node, ast.Attribute) and isinstance(node.value, ast.Name) and local and node.value.id in local and isinstance(local[node.value.id], EnumMember) and node.attr in ("value", "name"):
        return getattr(local[node.value.id], node.attr)
    if isinstance(node, ast.Attribute) and isinstance(node.value, ast.Name):
        kind, obj = project.resolve_name(module.name, node.value.id)
        if kind == "module" and obj in project.modules:
            m2 = project.modules[obj]
            val = project.module_assign(m2, node.attr)
            if val is not None:
                return fold(project, m2, val, depth + 1)
        raise NotConstant(ast.unparse(node))
    if isinstance(node, (ast.List, ast.Tuple, ast.Set)):
        vals = [fold(project, module, e, depth + 1, local) for e in node.elts]
        if isinstance(node, ast.List):
            return vals
        if isinstance(node, ast.Tuple):
            return tuple(vals)
        return set(vals)
    if isinstance(node, ast.Dict):
        out = {}
        for k, v in zip(node.keys, node.values):
            if k is None:
                raise NotConstant("dict unpack")
            out[fold(project, module, k, depth + 1, local)] = _try(project, module, v, depth, local)
        return out
    if isinstance(node, ast.Subscript):
        base = fold(project, module, node.value, depth + 1, local)
        idx = fold(project, module, node.slice, depth + 1, local)
        try:
            return base[idx]
        except Exception:
            raise NotConstant(ast.unparse(node))
    if isinstance(node, ast.Call):
        f = node.func
        if isinstance(f, ast.Name) and f.id == "object" and not node.args and not node.keywords:
            # a module-level marker `_UNSET = object()`: one distinct value per definition site
            return _SENTINELS.setdefault(id(node), _Sentinel(getattr(node, "lineno", 0)))
        if isinstance(f, ast.Attribute) and f.attr == "copy" and not node.args:
            v = fold(project, module, f.value, depth + 1, local)
            return v.copy() if hasattr(v, "copy") else v
        if isinstance(f, ast.Name) and f.id in ("set", "frozenset", "list", "tuple", "sorted", "dict") and len(node.args) == 1 and not node.keywords:
            v = fold(project, module, node.args[0], depth + 1, local)
            return {"set": set, "frozenset": frozenset, "list": list, "tuple": tuple, "sorted": sorted, "dict": dict}[f.id](v)
        if isinstance(f, ast.Attribute) and f.attr == "get" and 1 <= len(node.args) <= 2 and not node.keywords:
            v = fold(project, module, f.value, depth + 1, local)
            if isinstance(v, dict):
                k = fold(project, module, node.args[0], depth + 1, local)
                d = fold(project, module, node.args[1], depth + 1, local) if len(node.args) == 2 else None
                try:
                    return v.get(k, d)
                except TypeError:
                    raise NotConstant(ast.unparse(node)[:60])
        if isinstance(f, ast.Attribute) and f.attr in ("items", "keys", "values") and not node.args and not node.keywords:
            v = fold(project, module, f.value, depth + 1, local)
            if isinstance(v, dict):
                return list(getattr(v, f.attr)())
        if isinstance(f, ast.Name) and f.id == "isinstance" and len(node.args) == 2 and not node.keywords and project.resolve_name(module.name, "isinstance") == (None, None):
            v = fold(project, module, node.args[0], depth + 1, local)
            tnames = [e for e in (node.args[1].elts if isinstance(node.args[1], ast.Tuple) else [node.args[1]])]
            table = {"dict": dict, "list": list, "str": str, "int": int, "float": float, "bool": bool, "tuple": tuple, "set": set, "bytes": bytes}
            if all(isinstance(t, ast.Name) and t.id in table for t in tnames) and not isinstance(v, (_Sentinel, EnumMember)):
                return isinstance(v, tuple(table[t.id] for t in tnames))
        if isinstance(f, ast.Name) and f.id in ("bool", "len") and len(node.args) == 1 and not node.keywords and project.resolve_name(module.name, f.id) == (None, None):
            v = fold(project, module, node.args[0], depth + 1, local)
            try:
                return bool(v) if f.id == "bool" else len(v)
            except TypeError:
                raise NotConstant(ast.unparse(node)[:60])
        # a module-level helper of the package whose body is one `return <expression>`: the expression over its arguments
        if isinstance(f, ast.Name) and not node.keywords:
            kind, obj = project.resolve_name(module.name, f.id)
            if kind == "func" and depth < 6:
                body_ = [s_ for s_ in obj.node.body if not (isinstance(s_, ast.Expr) and isinstance(s_.value, ast.Constant))]
                if not (len(body_) == 1 and isinstance(body_[0], ast.Return)) and len(obj.node.args.args) == len(node.args) and not obj.node.args.vararg and not obj.node.args.kwonlyargs and not isinstance(obj.node, ast.AsyncFunctionDef):
                    # … or a short decision: straight-line assignments, if/else on foldable tests, returns
                    return fold_function(project, obj, [fold(project, module, a_, depth + 1, local) for a_ in node.args], depth + 1)
            if kind == "func":
                body = [s_ for s_ in obj.node.body if not (isinstance(s_, ast.Expr) and isinstance(s_.value, ast.Constant))]
                params = [a.arg for a in obj.node.args.args]
                if len(body) == 1 and isinstance(body[0], ast.Return) and body[0].value is not None and len(params) == len(node.args) and not obj.node.args.vararg and not obj.node.args.kwonlyargs:
                    env = {p_: fold(project, module, a_, depth + 1, local) for p_, a_ in zip(params, node.args)}
                    return fold(project, obj.module, body[0].value, depth + 1, env)
    raise NotConstant(ast.unparse(node)[:60])


class _Sentinel:
    def __init__(self, line):
        self.line = line

    def __repr__(self):
        return f"<object() at line {self.line}>"


_SENTINELS: dict = {}


class EnumMember:
    """A member of an Enum class defined in the package (read from its class body, never executed)."""

    def __init__(self, cls, name, value, mixin):
        self.cls, self.name, self.value, self.mixin = cls, name, value, mixin

    def __repr__(self):
        return f"<{self.cls}.{self.name}: {self.value!r}>"

    def __eq__(self, other):
        if isinstance(other, EnumMember):
            return (self.cls, self.name) == (other.cls, other.name)
        return self.mixin and self.value == other

    def __hash__(self):
        return hash(self.value) if self.mixin else hash((self.cls, self.name))


_ENUM_BASES = {"Enum", "IntEnum", "StrEnum", "Flag", "IntFlag"}


def _enum_members(project: Project, module: Module, node: ast.AST):
    """Members (in definition order) if `node` names an Enum class of the package, else None."""
    if not isinstance(node, ast.Name):
        return None
    kind, obj = project.resolve_name(module.name, node.id)
    if kind != "class":
        return None
    bases = [ast.unparse(b).split(".")[-1] for b in obj.node.bases]
    if not any(b in _ENUM_BASES for b in bases):
        return None
    mixin = any(b in ("str", "int", "IntEnum", "StrEnum") for b in bases)
    out = []
    for n in obj.node.body:
        if isinstance(n, ast.Assign) and len(n.targets) == 1 and isinstance(n.targets[0], ast.Name) and not n.targets[0].id.startswith("_"):
            try:
                v = fold(project, obj.module, n.value)
            except NotConstant:
                raise NotConstant(f"{obj.name}.{n.targets[0].id}")
            if isinstance(v, tuple) and len(v) >= 1 and mixin:
                v = v[0]
            out.append(EnumMember(obj.name, n.targets[0].id, v, mixin))
    return out


def _enum_member_of(project: Project, module: Module, node: ast.AST, local=None):
    """`E.MEMBER` (or a local bound to a member) → EnumMember, else None."""
    if isinstance(node, ast.Name) and local and isinstance(local.get(node.id), EnumMember):
        return local[node.id]
    if isinstance(node, ast.Attribute) and isinstance(node.value, ast.Name):
        ms = _enum_members(project, module, node.value)
        if ms is not None:
            for m in ms:
                if m.name == node.attr:
                    return m
    return None


class Opaque:
    def __init__(self, text):
        self.text = text

    def __repr__(self):
        return f"<{self.text}>"


def _try(project, module, node, depth, local):
    try:
        return fold(project, module, node, depth + 1, local)
    except NotConstant:
        return Opaque(ast.unparse(node)[:60])


def module_const(project: Project, modname: str, name: str) -> Any:
    m = project.module(modname)
    val = project.module_assign(m, name)
    if val is None:
        # moved to another module and imported back under the same name
        kind, obj = project.resolve_name(modname, name)
        if kind == "const":
            m, val = obj
    if val is None:
        raise AnalysisError(f"anchor vanished: constant {modname}.{name}")
    try:
        return fold(project, m, val)
    except NotConstant as e:
        raise AnalysisError(f"{modname}.{name} is not a foldable constant ({e})")


def try_fold(project: Project, module: Module, node: ast.AST, local=None) -> Optional[Any]:
    try:
        return fold(project, module, node, local=local)
    except NotConstant:
        return None


def fold_function(project: Project, func, argvals, depth: int = 0):
    """Value a package function returns for constant arguments, read off its body: straight-line assignments to
    locals, if/elif/else on foldable tests, `return <foldable expression>`; docstrings and logging calls are skipped.
    Raises NotConstant for anything else (loops, try, calls that are not foldable).  Nothing of the repository is executed."""
    params = [a.arg for a in func.node.args.args]
    if len(params) != len(argvals):
        raise NotConstant("arity")
    env = dict(zip(params, argvals))

    class _Ret(Exception):
        def __init__(self, v):
            self.v = v

    def run(stmts):
        for s_ in stmts:
            if isinstance(s_, ast.Expr):
                if isinstance(s_.value, ast.Constant):
                    continue
                if isinstance(s_.value, ast.Call) and ast.unparse(s_.value.func).split(".")[0] in ("logging", "logger", "log"):
                    continue
                raise NotConstant(ast.unparse(s_)[:60])
            if isinstance(s_, (ast.Assign, ast.AnnAssign)):
                tg = s_.targets[0] if isinstance(s_, ast.Assign) else s_.target
                if not isinstance(tg, ast.Name) or s_.value is None or (isinstance(s_, ast.Assign) and len(s_.targets) != 1):
                    raise NotConstant(ast.unparse(s_)[:60])
                env[tg.id] = fold(project, func.module, s_.value, depth + 1, env)
                continue
            if isinstance(s_, ast.If):
                run(s_.body if fold(project, func.module, s_.test, depth + 1, env) else s_.orelse)
                continue
            if isinstance(s_, ast.Return):
                raise _Ret(fold(project, func.module, s_.value, depth + 1, env) if s_.value is not None else None)
            if isinstance(s_, ast.Pass):
                continue
            raise NotConstant(type(s_).__name__)

    try:
        run(func.node.body)
    except _Ret as r:
        return r.v
    return None

