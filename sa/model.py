"""Project model: every module of the package parsed with `ast`, an index of
classes and functions by qualified name, and an import resolver.

Sources are held in memory (`{relative path: text}`) so that the self-test can
analyse an edited variant of the tree without writing it anywhere.
"""
from __future__ import annotations

import ast
import hashlib
import os
from dataclasses import dataclass, field
from typing import Dict, Iterable, List, Optional, Tuple

REPO_SRC = os.environ.get("VERIF_SRC", "/repo/src")
PACKAGE = "chuk_mcp"


class AnalysisError(Exception):
    """The analysis cannot decide (vanished anchor, unreadable shape).

    Mapped to exit code 2 — never to a pass and never to a violation."""


@dataclass
class Module:
    name: str
    rel: str
    src: str
    tree: ast.Module
    is_pkg: bool
    imports: Dict[str, Tuple[str, Optional[str]]] = field(default_factory=dict)
    # local name -> (target module, target attribute or None for `import x`)


@dataclass
class ClassInfo:
    module: Module
    name: str
    node: ast.ClassDef
    bases: List[str]

    @property
    def qual(self) -> str:
        return f"{self.module.name}:{self.name}"


@dataclass
class FuncInfo:
    module: Module
    qual: str  # Class.method / func / outer.<locals>.inner
    node: ast.AST  # FunctionDef | AsyncFunctionDef
    cls: Optional[ClassInfo]
    parent: Optional["FuncInfo"]

    @property
    def name(self) -> str:
        return self.node.name  # type: ignore[attr-defined]

    @property
    def fq(self) -> str:
        return f"{self.module.name}:{self.qual}"

    @property
    def where(self) -> str:
        return f"{self.module.rel}:{self.node.lineno}"  # type: ignore[attr-defined]

    def params(self) -> List[str]:
        a = self.node.args  # type: ignore[attr-defined]
        names = [x.arg for x in a.posonlyargs + a.args]
        if a.vararg:
            names.append(a.vararg.arg)
        names += [x.arg for x in a.kwonlyargs]
        if a.kwarg:
            names.append(a.kwarg.arg)
        return names

    def positional_params(self) -> List[str]:
        a = self.node.args  # type: ignore[attr-defined]
        return [x.arg for x in a.posonlyargs + a.args]

    def param_default(self, name: str) -> Optional[ast.AST]:
        a = self.node.args  # type: ignore[attr-defined]
        pos = a.posonlyargs + a.args
        defaults = [None] * (len(pos) - len(a.defaults)) + list(a.defaults)
        for p, d in zip(pos, defaults):
            if p.arg == name:
                return d
        for p, d in zip(a.kwonlyargs, a.kw_defaults):
            if p.arg == name:
                return d
        return None


def _is_func(n: ast.AST) -> bool:
    return isinstance(n, (ast.FunctionDef, ast.AsyncFunctionDef))


class Project:
    def __init__(self, sources: Dict[str, str], label: str = "memory", see_through: bool = True):
        self.sources = dict(sources)
        self.label = label
        self.see_through = see_through
        self.modules: Dict[str, Module] = {}
        self.classes: Dict[str, ClassInfo] = {}  # module:Class
        self.funcs: Dict[str, FuncInfo] = {}  # module:qual
        self._parse()

    # ------------------------------------------------------------------ loading
    @classmethod
    def from_dir(cls, src_root: str = REPO_SRC) -> "Project":
        base = os.path.join(src_root, PACKAGE)
        if not os.path.isdir(base):
            raise AnalysisError(f"package directory not found: {base}")
        sources: Dict[str, str] = {}
        for d, _dirs, files in os.walk(base):
            for f in sorted(files):
                if f.endswith(".py"):
                    p = os.path.join(d, f)
                    rel = os.path.relpath(p, src_root)
                    with open(p, encoding="utf-8") as fh:
                        sources[rel] = fh.read()
        return cls(sources, label=src_root)

    def raw_view(self) -> "Project":
        """The same sources read without seeing through new helpers (sa/inline.py)."""
        return Project(self.sources, label=self.label + " (raw view)", see_through=False)

    def variant(self, edits: Dict[str, str]) -> "Project":
        s = dict(self.sources)
        s.update(edits)
        return Project(s, label=self.label + "+edits", see_through=self.see_through)

    def digest(self, rels: Optional[Iterable[str]] = None) -> str:
        h = hashlib.sha256()
        for rel in sorted(rels if rels is not None else self.sources):
            h.update(rel.encode())
            h.update(b"\0")
            h.update(self.sources.get(rel, "<missing>").encode())
            h.update(b"\0")
        return h.hexdigest()

    def _parse(self) -> None:
        for rel, src in sorted(self.sources.items()):
            parts = rel[:-3].split("/")
            is_pkg = parts[-1] == "__init__"
            if is_pkg:
                parts = parts[:-1]
            name = ".".join(parts)
            try:
                tree = ast.parse(src, filename=rel)
            except SyntaxError as e:
                raise AnalysisError(f"{rel}: does not parse: {e}")
            m = Module(name, rel, src, tree, is_pkg)
            self.modules[name] = m
        from .normalize import module_literals, normalize, propagate_literals

        for m in self.modules.values():
            self._index_imports(m)
        # named literal constants are read as their literal, wherever they are defined or imported (N10) …
        lits = {m.name: module_literals(m.tree) for m in self.modules.values()}

        def resolve_literal(modname, name, depth=0):
            if depth > 6 or modname not in self.modules:
                return None
            if name in lits[modname]:
                return lits[modname][name]
            imp = self.modules[modname].imports.get(name)
            if imp and imp[1] is not None:
                return resolve_literal(imp[0], imp[1], depth + 1)
            return None

        from .normalize import module_dict_constants

        dicts = {m.name: module_dict_constants(m.tree) for m in self.modules.values()}

        def resolve_dict(modname, name, depth=0):
            if depth > 6 or modname not in self.modules:
                return None
            if name in dicts[modname]:
                return dicts[modname][name]
            imp = self.modules[modname].imports.get(name)
            if imp and imp[1] is not None:
                return resolve_dict(imp[0], imp[1], depth + 1)
            return None

        propagate_literals({m.name: (m.tree, m.imports) for m in self.modules.values()}, resolve_literal, resolve_dict)
        from .normalize import unroll_table_loops

        def table_lookup(modname):
            def look(name, depth=0, modname=modname):
                imp = self.modules[modname].imports.get(name)
                if not imp or imp[1] is None or imp[0] not in self.modules or depth > 4:
                    return None
                tm = self.modules[imp[0]]
                for st in tm.tree.body:
                    tg = st.targets[0] if isinstance(st, ast.Assign) and len(st.targets) == 1 else (st.target if isinstance(st, ast.AnnAssign) else None)
                    if isinstance(tg, ast.Name) and tg.id == imp[1] and isinstance(getattr(st, "value", None), (ast.Tuple, ast.List)):
                        return st.value
                return None
            return look

        for m in self.modules.values():
            unroll_table_loops(m.tree, table_lookup(m.name))  # N15: a loop over a small constant table is its rows
            normalize(m.tree)  # … and equivalent idioms in one spelling (sa/normalize.py); the text is untouched
            ast.fix_missing_locations(m.tree)
        for m in self.modules.values():
            self._index_defs(m, m.tree.body, prefix="", cls=None, parent=None)
        from .inline import see_through_new_helpers

        self.inliner = see_through_new_helpers(self) if self.see_through else None  # helpers the rules do not know are read at their call sites (sa/inline.py)

    def _reindex(self) -> None:
        self.classes.clear()
        self.funcs.clear()
        for m in self.modules.values():
            m.imports.clear()
            self._index_imports(m)
            self._index_defs(m, m.tree.body, prefix="", cls=None, parent=None)

    def _index_imports(self, m: Module) -> None:
        for n in ast.walk(m.tree):
            if isinstance(n, ast.ImportFrom):
                if n.level:
                    base = m.name.split(".")
                    base = base[: len(base) - n.level + (1 if m.is_pkg else 0)]
                    target = ".".join(base + ([n.module] if n.module else []))
                else:
                    target = n.module or ""
                for a in n.names:
                    m.imports[a.asname or a.name] = (target, a.name)
            elif isinstance(n, ast.Import):
                for a in n.names:
                    if a.asname:
                        m.imports[a.asname] = (a.name, None)
                    else:
                        m.imports[a.name.split(".")[0]] = (a.name.split(".")[0], None)

    def _index_defs(self, m, body, prefix, cls, parent) -> None:
        for n in body:
            if isinstance(n, ast.ClassDef):
                ci = ClassInfo(m, n.name, n, [ast.unparse(b) for b in n.bases])
                if not prefix:
                    self.classes[ci.qual] = ci
                self._index_defs(m, n.body, prefix + n.name + ".", ci, parent)
            elif _is_func(n):
                fi = FuncInfo(m, prefix + n.name, n, cls, parent)
                self.funcs.setdefault(fi.fq, fi)
                self._index_nested(m, n, prefix + n.name + ".<locals>.", fi)
            elif isinstance(n, (ast.If, ast.Try)):
                # definitions under `if PYDANTIC_AVAILABLE: ... else: ...` or try/except
                for sub in _sub_bodies(n):
                    self._index_defs(m, sub, prefix, cls, parent)

    def _index_nested(self, m, fn, prefix, parent) -> None:
        for n in _walk_no_nested(fn):
            if n is fn:
                continue
            if _is_func(n):
                fi = FuncInfo(m, prefix + n.name, n, None, parent)
                self.funcs.setdefault(fi.fq, fi)
                self._index_nested(m, n, prefix + n.name + ".<locals>.", fi)

    # ------------------------------------------------------------------ lookup
    def module(self, name: str) -> Module:
        if name not in self.modules:
            raise AnalysisError(f"anchor vanished: module {name}")
        return self.modules[name]

    def _follow_reexport(self, module: str, qual: str):
        """A definition that moved to another module and is imported back (re-exported) under the same name is
        still what `module:qual` means: follow the import."""
        head, _, rest = qual.partition(".")
        kind, obj = self.resolve_name(module, head)
        if kind == "func" and not rest:
            return obj
        if kind == "class":
            if not rest:
                return obj
            return self.funcs.get(f"{obj.module.name}:{obj.name}.{rest}")
        return None

    def func(self, module: str, qual: str) -> FuncInfo:
        k = f"{module}:{qual}"
        if k not in self.funcs:
            r = self._follow_reexport(module, qual) if module in self.modules else None
            if isinstance(r, FuncInfo):
                return r
            raise AnalysisError(f"anchor vanished: function {k}")
        return self.funcs[k]

    def maybe_func(self, module: str, qual: str) -> Optional[FuncInfo]:
        r = self.funcs.get(f"{module}:{qual}")
        if r is None and module in self.modules:
            x = self._follow_reexport(module, qual)
            r = x if isinstance(x, FuncInfo) else None
        return r

    def cls(self, module: str, name: str) -> ClassInfo:
        k = f"{module}:{name}"
        if k not in self.classes:
            r = self._follow_reexport(module, name) if module in self.modules else None
            if isinstance(r, ClassInfo):
                return r
            raise AnalysisError(f"anchor vanished: class {k}")
        return self.classes[k]

    def funcs_in(self, module: str) -> List[FuncInfo]:
        return [f for f in self.funcs.values() if f.module.name == module]

    def methods(self, ci: ClassInfo) -> Dict[str, FuncInfo]:
        out = {}
        for f in self.funcs.values():
            if f.cls is ci and f.parent is None:
                out[f.name] = f
        return out

    def resolve_name(self, module: str, name: str, depth: int = 0):
        """Resolve a simple name used in `module` to ('func', FuncInfo) /
        ('class', ClassInfo) / ('module', name) / ('const', (Module, value node)) /
        (None, None)."""
        m = self.modules.get(module)
        if m is None or depth > 8:
            return (None, None)
        k = f"{module}:{name}"
        if k in self.funcs:
            return ("func", self.funcs[k])
        if k in self.classes:
            return ("class", self.classes[k])
        # module-level alias `Name = Other` (e.g. SessionManager = InMemorySessionManager)
        val = self.module_assign(m, name)
        if val is not None:
            if isinstance(val, ast.Name) and val.id != name:
                r = self.resolve_name(module, val.id, depth + 1)
                if r[0] in ("func", "class"):
                    return r
            return ("const", (m, val))
        if name in m.imports:
            tm, tn = m.imports[name]
            if tn is None:
                return ("module", tm)
            if f"{tm}.{tn}" in self.modules:
                return ("module", f"{tm}.{tn}")
            if tm in self.modules:
                return self.resolve_name(tm, tn, depth + 1)
            return ("external", f"{tm}.{tn}")
        return (None, None)

    def module_assign(self, m: Module, name: str) -> Optional[ast.AST]:
        """Last module-level `name = value` (also under top-level if/try)."""
        found = None

        def scan(body):
            nonlocal found
            for n in body:
                if isinstance(n, ast.Assign):
                    for t in n.targets:
                        if isinstance(t, ast.Name) and t.id == name:
                            found = n.value
                elif isinstance(n, ast.AnnAssign) and isinstance(n.target, ast.Name):
                    if n.target.id == name and n.value is not None:
                        found = n.value
                elif isinstance(n, (ast.If, ast.Try)):
                    for sub in _sub_bodies(n):
                        scan(sub)

        scan(m.tree.body)
        return found

    def resolve_call(self, fi: FuncInfo, call: ast.Call):
        """Resolve the callee of `call` occurring in `fi`: FuncInfo, ClassInfo or None."""
        f = call.func
        if isinstance(f, ast.Name):
            # nested function of an enclosing function?
            p: Optional[FuncInfo] = fi
            while p is not None:
                k = f"{p.fq}.<locals>.{f.id}"
                if k in self.funcs:
                    return self.funcs[k]
                p = p.parent
            kind, obj = self.resolve_name(fi.module.name, f.id)
            if kind in ("func", "class"):
                return obj
            return None
        if isinstance(f, ast.Attribute):
            if isinstance(f.value, ast.Name) and f.value.id in ("self", "cls"):
                ci = fi.cls
                p = fi
                while ci is None and p.parent is not None:
                    p = p.parent
                    ci = p.cls
                if ci is not None:
                    return self.lookup_method(ci, f.attr)
                return None
            # self.<attr>.<method>(...) where some method of the class assigns self.<attr> = Class(...)
            if isinstance(f.value, ast.Attribute) and isinstance(f.value.value, ast.Name) and f.value.value.id == "self":
                ci = fi.cls
                p = fi
                while ci is None and p.parent is not None:
                    p = p.parent
                    ci = p.cls
                if ci is not None:
                    tci = self.attr_class(ci, f.value.attr)
                    if tci is not None:
                        return self.lookup_method(tci, f.attr)
                return None
            if isinstance(f.value, ast.Name):
                kind, obj = self.resolve_name(fi.module.name, f.value.id)
                if kind == "module":
                    kind2, obj2 = self.resolve_name(obj, f.attr)
                    if kind2 in ("func", "class"):
                        return obj2
                if kind == "class":
                    return self.lookup_method(obj, f.attr)
        return None

    def attr_class(self, ci: ClassInfo, attr: str) -> Optional[ClassInfo]:
        """Class of `self.<attr>` when every assignment to it in the class is a constructor call of one class."""
        found = set()
        for m in self.methods(ci).values():
            for s in _walk_no_nested(m.node):
                tgt = val = None
                if isinstance(s, ast.Assign) and len(s.targets) == 1:
                    tgt, val = s.targets[0], s.value
                elif isinstance(s, ast.AnnAssign):
                    tgt, val = s.target, s.value
                if isinstance(tgt, ast.Attribute) and tgt.attr == attr and isinstance(tgt.value, ast.Name) and tgt.value.id == "self":
                    # an injectable collaborator with a library default (`mgr or Manager()`, `Manager() if mgr is None else mgr`,
                    # `self.mgr = mgr` on the arm where one was given): the class read is the library's own implementation
                    margs = m.node.args
                    optional_params = {a.arg for a, d in zip((margs.posonlyargs + margs.args)[::-1], margs.defaults[::-1]) if isinstance(d, ast.Constant) and d.value is None} | {a.arg for a, d in zip(margs.kwonlyargs, margs.kw_defaults) if isinstance(d, ast.Constant) and d.value is None}
                    if isinstance(val, ast.Name) and val.id in optional_params:
                        rebinds = [x.value for x in _walk_no_nested(m.node) if isinstance(x, ast.Assign) and len(x.targets) == 1 and isinstance(x.targets[0], ast.Name) and x.targets[0].id == val.id]
                        if len(rebinds) == 1 and isinstance(rebinds[0], ast.Call):
                            val = rebinds[0]  # `if mgr is None: mgr = Manager()` … `self.mgr = mgr`
                        else:
                            continue
                    if isinstance(val, ast.BoolOp) and isinstance(val.op, ast.Or) and len(val.values) == 2 and isinstance(val.values[0], ast.Name) and val.values[0].id in optional_params:
                        val = val.values[1]
                    elif isinstance(val, ast.IfExp):
                        arms = [x for x in (val.body, val.orelse) if not (isinstance(x, ast.Name) and x.id in optional_params)]
                        if len(arms) == 1:
                            val = arms[0]
                    if isinstance(val, ast.Call) and isinstance(val.func, ast.Name):
                        kind, obj = self.resolve_name(ci.module.name, val.func.id)
                        found.add(obj.qual if kind == "class" else None)
                    elif isinstance(val, ast.Constant) and val.value is None:
                        continue
                    else:
                        found.add(None)
        if len(found) == 1 and None not in found:
            return self.classes[next(iter(found))]
        if not found:
            # declared, not assigned here: a class-level annotation `attr: SomeClass` in this class or a base
            # (a mixin that relies on the host class to provide the attribute)
            chain = [ci]
            seen = {ci.qual}
            while chain:
                c = chain.pop(0)
                for s in c.node.body:
                    if isinstance(s, ast.AnnAssign) and isinstance(s.target, ast.Name) and s.target.id == attr:
                        ann = s.annotation
                        if isinstance(ann, ast.Constant) and isinstance(ann.value, str):
                            nm = ann.value
                        else:
                            nm = ast.unparse(ann)
                        nm = nm.replace("Optional[", "").rstrip("]").split(".")[-1]
                        kind, obj = self.resolve_name(c.module.name, nm)
                        if kind == "class":
                            return obj
                for b in c.bases:
                    kind, obj = self.resolve_name(c.module.name, b.split(".")[-1].split("[")[0])
                    if kind == "class" and obj.qual not in seen:
                        seen.add(obj.qual)
                        chain.append(obj)
        return None

    def lookup_method(self, ci: ClassInfo, name: str, depth: int = 0) -> Optional[FuncInfo]:
        k = f"{ci.module.name}:{ci.name}.{name}"
        if k in self.funcs:
            return self.funcs[k]
        if depth > 6:
            return None
        for b in ci.bases:
            kind, obj = self.resolve_name(ci.module.name, b.split(".")[-1].split("[")[0])
            if kind == "class" and obj is not ci:
                r = self.lookup_method(obj, name, depth + 1)
                if r is not None:
                    return r
        return None

    def all_calls(self, fi: FuncInfo) -> List[ast.Call]:
        return [n for n in _walk_no_nested(fi.node) if isinstance(n, ast.Call)]


def _sub_bodies(n):
    if isinstance(n, ast.If):
        return [n.body, n.orelse]
    if isinstance(n, ast.Try):
        return [n.body, n.orelse, n.finalbody] + [h.body for h in n.handlers]
    return []


def _walk_no_nested(fn: ast.AST):
    """ast.walk that does not descend into nested function/class definitions
    (the root itself is yielded and descended)."""
    stack = [fn]
    first = True
    while stack:
        n = stack.pop()
        yield n
        if not first and isinstance(n, (ast.FunctionDef, ast.AsyncFunctionDef, ast.ClassDef, ast.Lambda)):
            continue
        first = False
        stack.extend(reversed(list(ast.iter_child_nodes(n))))


walk_local = _walk_no_nested


def call_name(call: ast.Call) -> str:
    """Dotted text of a call's callee (`a.b.c`), or '' for computed callees."""
    try:
        return ast.unparse(call.func)
    except Exception:
        return ""


def kwarg(call: ast.Call, name: str) -> Optional[ast.AST]:
    for k in call.keywords:
        if k.arg == name:
            return k.value
    return None


def bind_args(fi: FuncInfo, call: ast.Call, method: bool = False) -> Dict[str, ast.AST]:
    """Map the callee's parameter names to the argument expressions of `call`."""
    pos = fi.positional_params()
    if pos and pos[0] in ("self", "cls") and (method or fi.cls is not None):
        pos = pos[1:]
    out: Dict[str, ast.AST] = {}
    for p, a in zip(pos, call.args):
        if isinstance(a, ast.Starred):
            break
        out[p] = a
    for k in call.keywords:
        if k.arg:
            out[k.arg] = k.value
    return out


def local_values(fn: ast.AST) -> Dict[str, List[ast.AST]]:
    """local name -> every value expression assigned to it in `fn` (plain `x = e` / `x: T = e`;
    a name bound any other way — loop target, `with … as`, tuple unpacking — maps to [None])."""
    out: Dict[str, List] = {}
    for n in _walk_no_nested(fn):
        if isinstance(n, ast.Assign):
            for t in n.targets:
                if isinstance(t, ast.Name):
                    out.setdefault(t.id, []).append(n.value)
                else:
                    for x in ast.walk(t):
                        if isinstance(x, ast.Name) and isinstance(x.ctx, ast.Store):
                            out.setdefault(x.id, []).append(None)
        elif isinstance(n, ast.AnnAssign) and isinstance(n.target, ast.Name) and n.value is not None:
            out.setdefault(n.target.id, []).append(n.value)
        elif isinstance(n, (ast.For, ast.AsyncFor, ast.comprehension)):
            for x in ast.walk(n.target):
                if isinstance(x, ast.Name):
                    out.setdefault(x.id, []).append(None)
        elif isinstance(n, (ast.With, ast.AsyncWith)):
            for it in n.items:
                if it.optional_vars is not None:
                    for x in ast.walk(it.optional_vars):
                        if isinstance(x, ast.Name):
                            out.setdefault(x.id, []).append(None)
        elif isinstance(n, ast.NamedExpr) and isinstance(n.target, ast.Name):
            out.setdefault(n.target.id, []).append(n.value)
    return out


def resolved_call_name(fn: ast.AST, call: ast.Call, _cache: Dict[int, Dict] = {}) -> str:
    """`call_name`, except that a bare local name bound only by `getattr(obj, "<name>"[, default])`
    (the bound-method idiom `m = getattr(msg, "model_dump", None); m(...)`) reads as `obj.<name>`,
    whatever the local is called."""
    nm = call_name(call)
    if not isinstance(call.func, ast.Name):
        return nm
    key = id(fn)
    if key not in _cache or _cache[key][0] is not fn:
        _cache[key] = (fn, local_values(fn))
    vals = _cache[key][1].get(call.func.id)
    if not vals:
        return nm
    names = set()
    for v in vals:
        if isinstance(v, ast.Call) and call_name(v) == "getattr" and len(v.args) >= 2 and isinstance(v.args[1], ast.Constant) and isinstance(v.args[1].value, str):
            names.add(f"{ast.unparse(v.args[0])}.{v.args[1].value}")
        elif isinstance(v, ast.Attribute):
            names.add(ast.unparse(v))
        elif isinstance(v, (ast.Name, ast.Constant)):
            continue  # a sentinel/None placeholder on the path where the method is absent (never called there)
        else:
            return nm
    return names.pop() if len(names) == 1 else nm
