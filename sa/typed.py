"""Type facts from mypy used as a library (the repository's own /venv ships mypy).

The analysed tree is the project's in-memory sources written to a temporary
directory outside /repo and /verif (removed afterwards), so the same path is
used for the real tree and for self-test variants.  Results are cached under
/verif/.cache keyed by the digest of every source byte + the mypy version.
"""
from __future__ import annotations

import hashlib
import json
import os
import shutil
import subprocess
import sys
import tempfile
from typing import Any, Dict

from .model import AnalysisError, Project

HERE = os.path.dirname(os.path.abspath(__file__))
CACHE = os.path.join(os.path.dirname(HERE), ".cache")
PY = "/venv/bin/python"
WORKER_VERSION = "4"


def typed_facts(project: Project, use_cache: bool = True) -> Dict[str, Any]:
    with open(os.path.join(HERE, "typed_worker.py"), "rb") as fh:
        wdig = hashlib.sha256(fh.read()).hexdigest()[:12]
    key = hashlib.sha256((project.digest() + WORKER_VERSION + wdig).encode()).hexdigest()[:32]
    path = os.path.join(CACHE, f"mypy-{key}.json")
    if use_cache and os.path.exists(path):
        try:
            with open(path) as fh:
                d = json.load(fh)
            d["cached"] = True
            return d
        except Exception:
            pass
    if not os.path.exists(PY):
        raise AnalysisError("mypy facts unavailable: /venv/bin/python not found")
    tmp = tempfile.mkdtemp(prefix="verif-mypy-")
    try:
        for rel, src in project.sources.items():
            p = os.path.join(tmp, rel)
            os.makedirs(os.path.dirname(p), exist_ok=True)
            with open(p, "w", encoding="utf-8") as fh:
                fh.write(src)
        # keep the marker files mypy's package discovery relies on
        r = subprocess.run([PY, os.path.join(HERE, "typed_worker.py"), tmp], capture_output=True, text=True, timeout=600)
        out = r.stdout
        if "@@FACTS@@" not in out:
            raise AnalysisError(f"mypy facts unavailable (exit {r.returncode}): {(out + r.stderr)[-300:]}")
        d = json.loads(out.split("@@FACTS@@", 1)[1])
        if "error" in d:
            raise AnalysisError(d["error"])
    finally:
        shutil.rmtree(tmp, ignore_errors=True)
    try:
        os.makedirs(CACHE, exist_ok=True)
        with open(path + ".tmp", "w") as fh:
            json.dump(d, fh)
        os.replace(path + ".tmp", path)
        # keep the cache small
        files = sorted((os.path.getmtime(os.path.join(CACHE, f)), f) for f in os.listdir(CACHE) if f.startswith("mypy-"))
        for _t, f in files[:-40]:
            os.remove(os.path.join(CACHE, f))
    except OSError:
        pass
    d["cached"] = False
    return d
