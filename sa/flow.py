"""Syntax-directed abstract interpreter over the statement tree.

`Analysis.block(stmts, states)` pushes a *set of hashable abstract states*
through a statement list and returns an `Out` with the states leaving it
normally, by break / continue / return, and by exception.  Control flow is
composed structurally (if / while / for / try-except-else-finally / with /
return / raise / break / continue / match is not used by the repository), so
every syntactic path is covered without building an explicit graph, and the
number of states — not the number of paths — bounds the cost.

Sub-classes override the hooks:

* `simple(state, stmt)`  → states after a simple statement (or a `with` entry,
  `for` target binding, `except … as e` binding)
* `cond(state, test, polarity)` → states in which `test` has that truth value
  (empty = infeasible)
* `raises(node, state)` → exception tags the evaluation of that simple
  statement / expression may raise
* `on_return(state, node)`, `with_exit(with_node, out, entered)`
"""
from __future__ import annotations

import ast
import itertools
from dataclasses import dataclass, field
from typing import Iterable, List, Optional, Set, Tuple

from .model import AnalysisError

ANY_EXC = "Exception*"  # some unknown subclass of Exception raised by an opaque operation
CANCEL = "Cancelled"  # the BaseException family (task cancellation, KeyboardInterrupt)
RERAISE = "<reraise>"

STATE_CAP = 20000

# Builtin / library exception hierarchy (child -> parent) the repository's handlers name.
BUILTIN_PARENT = {
    "asyncio.CancelledError": "BaseException",  # (since 3.8: `except Exception` does not catch it)
    "asyncio.exceptions.CancelledError": "BaseException",
    "KeyboardInterrupt": "BaseException",
    "SystemExit": "BaseException",
    "GeneratorExit": "BaseException",
    "TimeoutError": "OSError",
    "OSError": "Exception",
    "FileNotFoundError": "OSError",
    "ConnectionError": "OSError",
    "JSONDecodeError": "ValueError",
    "json.JSONDecodeError": "ValueError",
    "UnicodeDecodeError": "ValueError",
    "ValueError": "Exception",
    "TypeError": "Exception",
    "KeyError": "LookupError",
    "IndexError": "LookupError",
    "LookupError": "Exception",
    "AttributeError": "Exception",
    "RuntimeError": "Exception",
    "ImportError": "Exception",
    "AssertionError": "Exception",
    "StopIteration": "Exception",
    "asyncio.TimeoutError": "TimeoutError",
    "anyio.WouldBlock": "Exception",
    "anyio.BrokenResourceError": "Exception",
    "anyio.ClosedResourceError": "Exception",
    "anyio.EndOfStream": "Exception",
    "BaseExceptionGroup": "BaseException",
    "ExceptionGroup": "Exception",
    "Exception": "BaseException",
    "asyncio.CancelledError": "BaseException",
    "CancelledError*": "BaseException",
    "KeyboardInterrupt": "BaseException",
    "GeneratorExit": "BaseException",
    "SystemExit": "BaseException",
    CANCEL: "BaseException",
    ANY_EXC: "Exception",
}


@dataclass
class Out:
    normal: Set = field(default_factory=set)
    brk: Set = field(default_factory=set)
    cont: Set = field(default_factory=set)
    ret: Set = field(default_factory=set)  # (state, return node)
    exc: Set = field(default_factory=set)  # (state, tag, node)

    def absorb(self, o: "Out", normal: bool = False) -> None:
        if normal:
            self.normal |= o.normal
        self.brk |= o.brk
        self.cont |= o.cont
        self.ret |= o.ret
        self.exc |= o.exc

    def size(self) -> int:
        return len(self.normal) + len(self.brk) + len(self.cont) + len(self.ret) + len(self.exc)


class Analysis:
    loop_iter_cap = 40
    parents: dict = {}  # project-defined exception hierarchy child -> parent (names)

    def __init__(self) -> None:
        self.try_stack: List[ast.Try] = []
        self.with_stack: List[ast.AST] = []
        self.loop_stack: List[ast.AST] = []
        self.handler_stack: List[ast.ExceptHandler] = []
        self.finally_stack: List[ast.Try] = []
        self.absorb_stack: List[Set] = []  # one collector per enclosing cancellation-absorbing scope
        self.steps = 0

    # ------------------------------------------------------------------ hooks
    def simple(self, state, stmt) -> Iterable:
        return [state]

    def cond(self, state, test, pol: bool) -> Iterable:
        return [state]

    def raises(self, node, state) -> Iterable[str]:
        return ()

    def on_return(self, state, node):
        return state

    def with_exit(self, s, o: Out, entered: Set) -> Out:
        return o

    def leave_handler(self, state, handler):
        """State after an except body ended normally (default: unchanged)."""
        return state

    def scope_outcome(self, state, with_node, fired: bool):
        """State after an absorbing cancel scope ended: `fired` = its deadline abandoned the body (default: unchanged)."""
        return state

    def loop_back(self, loop, state):
        """State with which the next iteration starts (default: unchanged)."""
        return state

    def absorbing_scope(self, s) -> bool:
        """`with move_on_after(…)`: when its deadline fires, the body is abandoned at whatever await it
        is suspended in and control continues *normally* after the block."""
        for it in s.items:
            c = it.context_expr
            if isinstance(c, ast.Call):
                try:
                    name = ast.unparse(c.func)
                except Exception:
                    name = ""
                if name.split(".")[-1] == "move_on_after":
                    return True
        return False

    @staticmethod
    def _may_suspend(s) -> bool:
        if isinstance(s, (ast.AsyncWith, ast.AsyncFor)):
            return True
        if isinstance(s, (ast.If, ast.While)):
            probe = [s.test]
        elif isinstance(s, (ast.For,)):
            probe = [s.iter]
        elif isinstance(s, ast.With):
            probe = [it.context_expr for it in s.items]
        elif isinstance(s, (ast.Try, ast.FunctionDef, ast.AsyncFunctionDef, ast.ClassDef)):
            return False
        else:
            probe = [s]
        for p in probe:
            stack = [p]
            while stack:
                n = stack.pop()
                if isinstance(n, ast.Await):
                    return True
                if isinstance(n, (ast.FunctionDef, ast.AsyncFunctionDef, ast.Lambda)):
                    continue
                stack.extend(ast.iter_child_nodes(n))
        return False

    def enter_handler(self, state, handler, tag, node):
        """State at the start of an except body that caught `tag` raised at `node`."""
        return self.simple(state, handler)

    # ------------------------------------------------------------------ helpers
    def _conds(self, states, test, pol):
        return set(itertools.chain.from_iterable(self.cond(st, test, pol) for st in states))

    def _simples(self, states, stmt):
        return set(itertools.chain.from_iterable(self.simple(st, stmt) for st in states))

    def exc_state(self, state, node):
        """State carried by an exception raised while evaluating `node` (default: the pre-state)."""
        return state

    def _exc_of(self, node, states, out: Out) -> None:
        for st in states:
            tags = self.raises(node, st)
            if tags:
                es = self.exc_state(st, node)
                for tag in tags:
                    out.exc.add((es, tag, node))

    def _guard(self, out: Out) -> None:
        if out.size() > STATE_CAP:
            raise AnalysisError(f"state-set cap {STATE_CAP} exceeded")

    # ------------------------------------------------------------------ driver
    def run(self, fn_node, states) -> Out:
        return self.block(fn_node.body, set(states))

    def block(self, stmts, states) -> Out:
        out = Out(normal=set(states))
        prev = None
        for s in stmts:
            if not out.normal:
                break
            # `work = [x]` (or deque([x])) immediately followed by `while work:`: the first test cannot fail
            self._nonempty_at_entry = (
                isinstance(s, ast.While) and isinstance(s.test, ast.Name) and isinstance(prev, (ast.Assign, ast.AnnAssign))
                and isinstance(getattr(prev, "value", None), (ast.List, ast.Tuple, ast.Call))
                and [getattr(t, "id", None) for t in (prev.targets if isinstance(prev, ast.Assign) else [prev.target])] == [s.test.id]
                and (
                    (isinstance(prev.value, (ast.List, ast.Tuple)) and len(prev.value.elts) > 0 and not any(isinstance(e, ast.Starred) for e in prev.value.elts))
                    or (isinstance(prev.value, ast.Call) and ast.unparse(prev.value.func).split(".")[-1] in ("deque", "list") and len(prev.value.args) == 1 and not prev.value.keywords
                        and isinstance(prev.value.args[0], (ast.List, ast.Tuple)) and len(prev.value.args[0].elts) > 0 and not any(isinstance(e, ast.Starred) for e in prev.value.args[0].elts))
                )
            )
            prev = s
            o = self.stmt(s, out.normal)
            out.normal = set()
            out.absorb(o, normal=True)
            self._guard(out)
        return out

    def stmt(self, s, states) -> Out:
        self.steps += 1
        out = Out()
        if self.absorb_stack and self._may_suspend(s):
            # abandoned while suspended in this statement: nothing of it has taken effect
            for col in self.absorb_stack:
                col |= {self.exc_state(st, s) for st in states}  # same notion of "how far it got" as for an exception raised there
        if isinstance(
            s,
            (ast.FunctionDef, ast.AsyncFunctionDef, ast.ClassDef, ast.Import, ast.ImportFrom, ast.Pass, ast.Global, ast.Nonlocal),
        ):
            out.normal = self._simples(states, s)
            return out
        if isinstance(s, ast.If):
            self._exc_of(s.test, states, out)
            t = self._conds(states, s.test, True)
            f = self._conds(states, s.test, False)
            out.absorb(self.block(s.body, t), True)
            if s.orelse:
                out.absorb(self.block(s.orelse, f), True)
            else:
                out.normal |= f
            return out
        if isinstance(s, (ast.While, ast.For, ast.AsyncFor)):
            return self._loop(s, states)
        if isinstance(s, (ast.With, ast.AsyncWith)):
            for it in s.items:
                self._exc_of(it.context_expr, states, out)
            entered = self._simples(states, s)
            self.with_stack.append(s)
            absorbing = self.absorbing_scope(s)
            if absorbing:
                self.absorb_stack.append(set())
            try:
                o = self.block(s.body, entered)
            finally:
                self.with_stack.pop()
                abandoned = self.absorb_stack.pop() if absorbing else set()
            o = self.with_exit(s, o, entered)
            if absorbing:
                # `with move_on_after(…) as scope`: scope.cancelled_caught tells the two ways out apart
                o.normal = {self.scope_outcome(x, s, False) for x in o.normal}
                abandoned = {self.scope_outcome(x, s, True) for x in abandoned}
            out.absorb(o, True)
            out.normal |= abandoned
            return out
        if isinstance(s, ast.Try):
            return self._try(s, states)
        if isinstance(s, ast.Return):
            if s.value is not None:
                self._exc_of(s.value, states, out)
            for st in states:
                for st2 in self.simple(st, s):
                    out.ret.add((self.on_return(st2, s), s))
            return out
        if isinstance(s, ast.Raise):
            for st in states:
                tag = self.raise_tag_in(s, st)
                for st2 in self.simple(st, s):
                    out.exc.add((st2, tag, s))
            return out
        if isinstance(s, ast.Break):
            out.brk = set(states)
            return out
        if isinstance(s, ast.Continue):
            out.cont = set(states)
            return out
        if isinstance(s, ast.Assert):
            # assert failure is an AssertionError edge; the test holds afterwards
            for st in states:
                out.exc.add((st, "AssertionError", s))
            out.normal = self._conds(states, s.test, True)
            return out
        if isinstance(s, ast.Match):
            raise AnalysisError(f"match statement at line {s.lineno} is outside the interpreted fragment")
        # simple statement
        self._exc_of(s, states, out)
        out.normal = self._simples(states, s)
        return out

    # ------------------------------------------------------------------ loops
    def _loop(self, s, states) -> Out:
        out = Out()
        seen_heads: Set = set()
        cur = set(states)
        exits: Set = set()
        self.loop_stack.append(s)
        certain_first = bool(getattr(self, "_nonempty_at_entry", False)) and isinstance(s, ast.While)
        self._nonempty_at_entry = False
        try:
            for _ in range(self.loop_iter_cap):
                new = cur - seen_heads
                if not new:
                    break
                seen_heads |= new
                if isinstance(s, ast.While):
                    self._exc_of(s.test, new, out)
                    enter = self._conds(new, s.test, True)
                    leave = self._conds(new, s.test, False)
                    if isinstance(s.test, ast.Constant) and s.test.value is True:
                        leave = set()
                    if certain_first and _ == 0:
                        leave = set()
                else:
                    self._exc_of(s.iter, new, out)
                    enter = self._simples(new, s)  # binds the loop target
                    leave = set(new)
                exits |= leave
                o = self.block(s.body, enter)
                out.ret |= o.ret
                out.exc |= o.exc
                brk = o.brk
                cur = {self.loop_back(s, st) for st in (o.normal | o.cont)}
                # a `break` skips the else clause
                out.normal |= brk
                self._guard(out)
            else:
                raise AnalysisError(f"loop at line {s.lineno}: no fixpoint within {self.loop_iter_cap} iterations")
        finally:
            self.loop_stack.pop()
        if s.orelse:
            out.absorb(self.block(s.orelse, exits), True)
        else:
            out.normal |= exits
        return out

    # ------------------------------------------------------------------ try
    def _try(self, s: ast.Try, states) -> Out:
        self.try_stack.append(s)
        try:
            body = self.block(s.body, states)
        finally:
            self.try_stack.pop()
        res = Out()
        res.brk |= body.brk
        res.cont |= body.cont
        res.ret |= body.ret
        if s.orelse:
            # exceptions of the else block are not caught by this try's handlers
            e = self.block(s.orelse, body.normal)
            res.absorb(e, True)
        else:
            res.normal |= body.normal
        # handlers; group by (state, tag) so a handler body is analysed once per distinct entry
        for (st, tag, node) in sorted(body.exc, key=lambda x: (getattr(x[2], "lineno", 0), str(x[1]), repr(x[0]))):
            caught = False
            for h in s.handlers:
                m = self.handler_match(h, tag)
                if not m:
                    continue
                self.handler_stack.append(h)
                try:
                    hs = set(self.enter_handler(st, h, tag, node))
                    ho = self.block(h.body, hs)
                finally:
                    self.handler_stack.pop()
                ho.exc = {(s2, tag if t2 == RERAISE else t2, n2) for (s2, t2, n2) in ho.exc}
                # Python unbinds `as e` when the handler ends
                ho.normal = {self.leave_handler(x, h) for x in ho.normal}
                ho.brk = {self.leave_handler(x, h) for x in ho.brk}
                ho.cont = {self.leave_handler(x, h) for x in ho.cont}
                res.absorb(ho, True)
                if m == "yes":
                    caught = True
                    break
            if not caught:
                res.exc.add((st, tag, node))
        if s.finalbody:
            self.finally_stack.append(s)
            try:
                fin = Out()
                for kind in ("normal", "brk", "cont"):
                    src = getattr(res, kind)
                    if not src:
                        continue
                    fo = self.block(s.finalbody, src)
                    getattr(fin, kind).update(fo.normal)
                    fin.ret |= fo.ret
                    fin.exc |= fo.exc
                    fin.brk |= fo.brk
                    fin.cont |= fo.cont
                for (st, n) in res.ret:
                    fo = self.block(s.finalbody, {st})
                    fin.ret |= {(x, n) for x in fo.normal}
                    fin.exc |= fo.exc
                    fin.ret |= fo.ret
                for (st, tag, n) in res.exc:
                    fo = self.block(s.finalbody, {st})
                    fin.exc |= {(x, tag, n) for x in fo.normal}
                    fin.exc |= fo.exc
                    fin.ret |= fo.ret
                res = fin
            finally:
                self.finally_stack.pop()
        self._guard(res)
        return res

    # ------------------------------------------------------------------ exceptions
    def raise_tag_in(self, s: ast.Raise, state) -> str:
        """Class raised by `s` in `state` (default: read off the statement alone)."""
        return self.raise_tag(s)

    def raise_tag(self, s: ast.Raise) -> str:
        if s.exc is None:
            return RERAISE
        e = s.exc.func if isinstance(s.exc, ast.Call) else s.exc
        t = ast.unparse(e)
        # `raise e` of the handler variable re-raises what was caught
        if self.handler_stack and isinstance(e, ast.Name) and self.handler_stack[-1].name == e.id:
            return RERAISE
        return t

    def ancestors(self, tag: str) -> List[str]:
        out = [tag]
        seen = {tag}
        cur = tag
        while True:
            short = cur.split(".")[-1]
            nxt = self.parents.get(cur) or BUILTIN_PARENT.get(cur) or self.parents.get(short) or BUILTIN_PARENT.get(short)
            if nxt is None:
                if cur not in ("BaseException",):
                    # unknown class: assume it derives from Exception
                    if "Exception" not in seen:
                        out += ["Exception", "BaseException"]
                break
            if nxt in seen:
                break
            out.append(nxt)
            seen.add(nxt)
            cur = nxt
        return out

    def handler_names(self, h: ast.ExceptHandler) -> List[str]:
        if h.type is None:
            return ["BaseException"]
        elts = h.type.elts if isinstance(h.type, ast.Tuple) else [h.type]
        return [ast.unparse(e) for e in elts]

    def handler_match(self, h: ast.ExceptHandler, tag: str) -> str:
        """'yes' (definitely catches), 'maybe', or '' (does not)."""
        names = self.handler_names(h)
        shorts = {n.split(".")[-1] for n in names} | set(names)
        if tag == CANCEL:
            if shorts & {"BaseException", "CancelledError"}:
                return "yes"
            if any("get_cancelled_exc_class" in n for n in names):
                return "yes"
            return ""
        anc = self.ancestors(tag)
        anc_short = {a.split(".")[-1] for a in anc} | set(anc)
        if shorts & anc_short:
            return "yes"
        if tag == ANY_EXC:
            # an unknown Exception subclass may be any of the named classes — except those that are not Exceptions at all
            # (asyncio.CancelledError, KeyboardInterrupt …: BaseException only)
            if all("Exception" not in self.ancestors(n) and n.split(".")[-1] not in ("BaseException", "BaseExceptionGroup") for n in names):
                return ""
            return "maybe"
        # tags other than Exception* come from `raise X(...)` and are exact classes: a handler for a
        # subclass of X does not catch them
        return ""
