"""Hold / flush / direct-write order on one function: a forward may-analysis over the statement structure.

A writer that gathers lines in an accumulator (`buf += line`, `parts.append(line)`) and puts the accumulator on the pipe
later keeps the order of the messages only if nothing is written *past* the accumulator while it holds something.  The
state is one bit — "the accumulator may hold lines" —, set where a line is added, cleared where the accumulator is emptied
(`del buf[:]`, `buf.clear()`, a fresh `buf = bytearray()`), joined by OR at merges, iterated to a fixpoint at loops; a
truthiness test of the accumulator itself (`if not buf: …`) clears the bit on the arm where it is empty.  Exceptions
enter a handler with the bit set if it was set anywhere in the `try` body."""
from __future__ import annotations

import ast
from typing import Callable, List, Optional, Set, Tuple

from .paths import calls_in_order


class _Flow:
    def __init__(self, acc: Set[str], is_hold, is_flush, is_direct):
        self.acc, self.is_hold, self.is_flush, self.is_direct = acc, is_hold, is_flush, is_direct
        self.violations: List[ast.AST] = []
        self.seen_dirty = False

    def _calls(self, node: ast.AST, dirty: bool) -> bool:
        for c in calls_in_order(node):
            if self.is_flush(c):
                dirty = False
            elif self.is_direct(c):
                if dirty and c not in self.violations:
                    self.violations.append(c)
            elif self.is_hold(c):
                dirty = True
            self.seen_dirty = self.seen_dirty or dirty
        return dirty

    def _empty_test(self, t: ast.AST) -> Optional[bool]:
        """True: the test holds exactly when the accumulator is empty; False: exactly when it is not; None: something else"""
        if isinstance(t, ast.UnaryOp) and isinstance(t.op, ast.Not):
            r = self._empty_test(t.operand)
            return None if r is None else (not r)
        if isinstance(t, ast.Name) and t.id in self.acc:
            return False
        if isinstance(t, ast.Compare) and len(t.ops) == 1 and isinstance(t.left, ast.Call) and isinstance(t.left.func, ast.Name) and t.left.func.id == "len" and t.left.args and isinstance(t.left.args[0], ast.Name) and t.left.args[0].id in self.acc \
                and isinstance(t.comparators[0], ast.Constant) and t.comparators[0].value == 0:
            return True if isinstance(t.ops[0], ast.Eq) else (False if isinstance(t.ops[0], (ast.Gt, ast.NotEq)) else None)
        return None

    def block(self, stmts, dirty: Optional[bool]):
        """-> (dirty at the normal end or None if unreachable, dirty at breaks or None, dirty at continues or None)"""
        brk = cont = None
        for s in stmts:
            if dirty is None:
                break
            dirty, b, c = self.stmt(s, dirty)
            brk = b if brk is None else (brk or bool(b)) if b is not None else brk
            cont = c if cont is None else (cont or bool(c)) if c is not None else cont
        return dirty, brk, cont

    @staticmethod
    def _join(a, b):
        if a is None:
            return b
        if b is None:
            return a
        return a or b

    def stmt(self, s, dirty: bool):
        j = self._join
        if isinstance(s, (ast.FunctionDef, ast.AsyncFunctionDef, ast.ClassDef)):
            return dirty, None, None
        if isinstance(s, (ast.Return, ast.Raise)):
            self._calls(s, dirty)
            return None, None, None
        if isinstance(s, ast.Break):
            return None, dirty, None
        if isinstance(s, ast.Continue):
            return None, None, dirty
        if isinstance(s, ast.If):
            d0 = self._calls(s.test, dirty)
            e = self._empty_test(s.test)
            da, ba, ca = self.block(s.body, False if e is True else d0)
            db, bb, cb = self.block(s.orelse, False if e is False else d0)
            return j(da, db), j(ba, bb), j(ca, cb)
        if isinstance(s, (ast.For, ast.AsyncFor, ast.While)):
            d_in = self._calls(s.iter if not isinstance(s, ast.While) else s.test, dirty)
            out_brk = None
            for _ in range(4):
                d_body, b, c = self.block(s.body, d_in)
                out_brk = j(out_brk, b)
                nxt = j(j(d_in, d_body), c)
                if nxt == d_in:
                    break
                d_in = nxt
            d_else, b2, c2 = self.block(s.orelse, d_in) if s.orelse else (d_in, None, None)
            return j(d_else, out_brk), b2, c2
        if isinstance(s, (ast.With, ast.AsyncWith)):
            d0 = dirty
            for it in s.items:
                d0 = self._calls(it.context_expr, d0)
            return self.block(s.body, d0)
        if isinstance(s, ast.Try):
            before = self.seen_dirty
            self.seen_dirty = dirty
            d_body, b, c = self.block(s.body, dirty)
            entered_dirty = self.seen_dirty
            self.seen_dirty = before or entered_dirty
            outs, bs, cs = d_body, b, c
            if s.orelse and d_body is not None:
                outs, b3, c3 = self.block(s.orelse, d_body)
                bs, cs = j(bs, b3), j(cs, c3)
            for h in s.handlers:
                dh, bh, ch = self.block(h.body, entered_dirty)
                outs, bs, cs = j(outs, dh), j(bs, bh), j(cs, ch)
            if s.finalbody:
                df, bf, cf = self.block(s.finalbody, j(outs, entered_dirty))
                outs = df if outs is not None else None
                bs, cs = j(bs, bf), j(cs, cf)
            return outs, bs, cs
        if isinstance(s, ast.AugAssign) and isinstance(s.target, ast.Name) and s.target.id in self.acc:
            d0 = self._calls(s.value, dirty)
            self.seen_dirty = True
            return True, None, None
        if isinstance(s, ast.Delete) and any(isinstance(t, ast.Subscript) and isinstance(t.value, ast.Name) and t.value.id in self.acc and isinstance(t.slice, ast.Slice) and t.slice.lower is None and t.slice.upper is None for t in s.targets):
            return False, None, None  # `del buf[:]`: nothing is held any more (whether it was written is another rule's subject)
        if isinstance(s, ast.Assign) and any(isinstance(t, ast.Name) and t.id in self.acc for t in s.targets):
            self._calls(s.value, dirty)
            return False, None, None  # `buf = bytearray()` / `buf = []`: a new, empty accumulator
        return self._calls(s, dirty), None, None


def writes_past_accumulator(fn: ast.AST, acc: Set[str], is_hold: Callable, is_flush: Callable, is_direct: Callable) -> List[ast.AST]:
    f = _Flow(acc, is_hold, is_flush, is_direct)
    f.block(fn.body, False)
    return f.violations
