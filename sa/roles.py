"""Role discovery: private attribute and method names are the maintainer's to choose, so the
rules find them through what they *are*, starting from public API only.

stream_roles(P, ci): the four memory-stream ends of a transport/client class, found from the
`create_memory_object_stream` pair assignments and the public `get_streams()` (which hands the
*incoming receive* end and the *outgoing send* end to the caller).
"""
from __future__ import annotations

import ast
from typing import Dict, Optional

from .model import AnalysisError, ClassInfo, Project, call_name, walk_local

_CACHE: Dict[int, Dict[str, str]] = {}


def _self_attr(n: ast.AST) -> Optional[str]:
    if isinstance(n, ast.Attribute) and isinstance(n.value, ast.Name) and n.value.id == "self":
        return n.attr
    return None


def stream_roles(P: Project, ci: ClassInfo) -> Dict[str, str]:
    key = id(ci.node)
    if key in _CACHE:
        return _CACHE[key]
    meths = P.methods(ci)
    pairs = []  # (send attr, recv attr)
    for f in meths.values():
        for n in walk_local(f.node):
            if isinstance(n, ast.Assign) and isinstance(n.value, ast.Call) and call_name(n.value).split(".")[-1] == "create_memory_object_stream":
                for t in n.targets:
                    if isinstance(t, ast.Tuple) and len(t.elts) == 2:
                        a, b = _self_attr(t.elts[0]), _self_attr(t.elts[1])
                        if a and b:
                            pairs.append((a, b))
    gs = meths.get("get_streams")
    if gs is None:
        raise AnalysisError(f"anchor: {ci.name}.get_streams not found")
    rets = [r.value for r in walk_local(gs.node) if isinstance(r, ast.Return) and isinstance(r.value, ast.Tuple) and len(r.value.elts) == 2]
    if not rets:
        raise AnalysisError(f"anchor: {ci.name}.get_streams does not return a (read, write) pair")
    read_attr, write_attr = _self_attr(rets[0].elts[0]), _self_attr(rets[0].elts[1])
    for r in rets[1:]:
        if (_self_attr(r.elts[0]), _self_attr(r.elts[1])) != (read_attr, write_attr):
            raise AnalysisError(f"anchor: {ci.name}.get_streams returns different pairs on different paths")
    inc = [p for p in pairs if p[1] == read_attr]
    out = [p for p in pairs if p[0] == write_attr]
    if not read_attr or not write_attr or len(set(inc)) != 1 or len(set(out)) != 1:
        raise AnalysisError(f"anchor: cannot relate {ci.name}.get_streams() to its create_memory_object_stream pairs ({pairs})")
    roles = {"incoming_send": inc[0][0], "incoming_recv": read_attr, "outgoing_send": write_attr, "outgoing_recv": out[0][1]}
    _CACHE[key] = roles
    return roles


def incoming_send_calls(P: Project, ci: ClassInfo):
    a = stream_roles(P, ci)["incoming_send"]
    return (f"self.{a}.send", f"self.{a}.send_nowait")


def send_end_of(P: Project, ci: ClassInfo, recv_attr: str) -> str:
    """The private send end paired (by one `create_memory_object_stream` assignment) with the
    public receive attribute `recv_attr` (e.g. StdioClient.notifications)."""
    found = set()
    for f in P.methods(ci).values():
        for n in walk_local(f.node):
            if isinstance(n, ast.Assign) and isinstance(n.value, ast.Call) and call_name(n.value).split(".")[-1] == "create_memory_object_stream":
                for t in n.targets:
                    if isinstance(t, ast.Tuple) and len(t.elts) == 2 and _self_attr(t.elts[1]) == recv_attr and _self_attr(t.elts[0]):
                        found.add(_self_attr(t.elts[0]))
    if len(found) != 1:
        raise AnalysisError(f"anchor: the send end paired with {ci.name}.{recv_attr} was not found ({sorted(found)})")
    return found.pop()


# --------------------------------------------------------------------------- fallback validator roles
FALLBACK_CANON = ("_deep_validate", "_get_non_none_type", "_validate_types", "_build_field_values", "_process_aliases", "_serialize_value")


def _fallback_split(P: Project, modname: str):
    m = P.module(modname)
    for n in m.tree.body:
        if isinstance(n, ast.If) and ast.unparse(n.test) == "PYDANTIC_AVAILABLE":
            return m, n
    raise AnalysisError("anchor: `if PYDANTIC_AVAILABLE:` split not found in mcp_pydantic_base")


def fallback_roles(P: Project, modname: str) -> Dict[str, Optional[str]]:
    """Which definitions of the fallback branch play the roles the C09/C10 rules speak about
    (found by what they do, not by their names)."""
    m, split = _fallback_split(P, modname)
    funcs = {s.name: s for s in split.orelse if isinstance(s, (ast.FunctionDef, ast.AsyncFunctionDef))}
    cls = next((s for s in split.orelse if isinstance(s, ast.ClassDef) and s.name == "McpPydanticBase"), None)
    meths = {s.name: s for s in (cls.body if cls else []) if isinstance(s, (ast.FunctionDef, ast.AsyncFunctionDef))}
    roles: Dict[str, Optional[str]] = {k: None for k in FALLBACK_CANON}

    def calls(fn, name):
        return any(isinstance(c, ast.Call) and call_name(c) in (name, f"self.{name}", f"cls.{name}") for c in walk_local(fn))

    dv = [n for n, f in funcs.items() if calls(f, n) and calls(f, "get_origin") and len(f.args.args) >= 3]
    if len(dv) == 1:
        roles["_deep_validate"] = dv[0]
        f = funcs[dv[0]]
        exp = f.args.args[2].arg
        for s in walk_local(f):
            if isinstance(s, ast.Assign) and len(s.targets) == 1 and ast.unparse(s.targets[0]) == exp and isinstance(s.value, ast.Call) and isinstance(s.value.func, ast.Name) and s.value.func.id in funcs and len(s.value.args) == 1 and ast.unparse(s.value.args[0]) == exp:
                roles["_get_non_none_type"] = s.value.func.id
                break
        vt = [n for n, g in meths.items() if any(isinstance(l, ast.For) and isinstance(l.iter, ast.Call) and call_name(l.iter).endswith(".items") and any(isinstance(c, ast.Call) and call_name(c) == dv[0] for c in walk_local(l)) for l in walk_local(g))]
        if len(vt) == 1:
            roles["_validate_types"] = vt[0]
    pa = [n for n, g in meths.items() if any(isinstance(x, ast.DictComp) and "__field_aliases__" in ast.unparse(x) and ast.unparse(x.key) != ast.unparse(x.value) for x in walk_local(g))]
    if len(pa) == 1:
        roles["_process_aliases"] = pa[0]
    init = meths.get("__init__")
    if init is not None:
        called = [call_name(c)[5:] for c in walk_local(init) if isinstance(c, ast.Call) and call_name(c).startswith("self.") and call_name(c)[5:] in meths]
        bf = [n for n in called if any(isinstance(c, ast.Call) and call_name(c).endswith(".update") and len(c.args) == 1 and ast.unparse(c.args[0]) in [a.arg for a in meths[n].args.args] for c in walk_local(meths[n]))]
        if len(set(bf)) == 1:
            roles["_build_field_values"] = bf[0]
    dump = meths.get("model_dump")
    if dump is not None:
        sv = [n for n, g in meths.items() if n != "model_dump" and calls(dump, n) and any(isinstance(c, ast.Call) and call_name(c).endswith(".model_dump") for c in walk_local(g))]
        if len(sv) == 1:
            roles["_serialize_value"] = sv[0]
    return roles


def canonical_fallback(P: Project, modname: str) -> Project:
    """A variant of the project in which the fallback branch's helper definitions carry the canonical
    names the rules use; identical to `P` when they already do.  Renaming is by whole identifier in the
    one module, so line numbers stay those of the source."""
    import re

    roles = fallback_roles(P, modname)
    m = P.module(modname)
    src = m.src
    todo = {have: want for want, have in roles.items() if have is not None and have != want}
    if not todo:
        return P
    idents = set(re.findall(r"[A-Za-z_][A-Za-z0-9_]*", src))
    for have, want in todo.items():
        if want in idents:
            raise AnalysisError(f"cannot canonicalise fallback helper `{have}` → `{want}`: `{want}` names something else in {m.rel}")
    for have, want in todo.items():
        src = re.sub(rf"(?<![A-Za-z0-9_]){re.escape(have)}(?![A-Za-z0-9_])", want, src)
    return P.variant({m.rel: src})


# --------------------------------------------------------------------------- legacy SSE transport roles
def sse_task_entries(P: Project, ci: ClassInfo):
    """(connection-task entry, sender-task entry): the self-methods `__aenter__` starts as tasks; the sender is the one
    that iterates the outgoing stream."""
    meths = P.methods(ci)
    ae = meths.get("__aenter__")
    if ae is None:
        raise AnalysisError(f"anchor vanished: {ci.name}.__aenter__")
    out_recv = "self." + stream_roles(P, ci)["outgoing_recv"]
    conn = sender = None
    for c in walk_local(ae.node):
        if isinstance(c, ast.Call) and call_name(c).split(".")[-1] in ("create_task", "ensure_future", "start_soon") and c.args:
            a0 = c.args[0]
            nm = call_name(a0) if isinstance(a0, ast.Call) else ast.unparse(a0)
            tgt = meths.get(nm[5:]) if nm.startswith("self.") else None
            if tgt is None:
                continue
            if any(isinstance(n, (ast.AsyncFor, ast.For)) and out_recv in ast.unparse(n.iter) for n in walk_local(tgt.node)):
                sender = tgt
            else:
                conn = tgt
    return conn, sender


def self_closure(P: Project, ci: ClassInfo, root) -> Dict[str, object]:
    """Methods of `ci` reachable from `root` through direct `self.m(...)` calls (root included)."""
    meths = P.methods(ci)
    seen = {root.name: root}
    work = [root]
    while work:
        g = work.pop()
        for c in walk_local(g.node):
            if isinstance(c, ast.Call) and call_name(c).startswith("self.") and call_name(c)[5:] in meths and call_name(c)[5:] not in seen:
                seen[call_name(c)[5:]] = meths[call_name(c)[5:]]
                work.append(meths[call_name(c)[5:]])
    return seen
