"""Obligations, findings, known-findings matching, evidence and exit codes."""
from __future__ import annotations

import hashlib
import json
import os
import re
import time
from dataclasses import dataclass, field
from typing import Any, Dict, List, Optional, Set

from .model import AnalysisError, Project

VERIF = os.path.dirname(os.path.dirname(os.path.abspath(__file__)))
KNOWN_FILE = os.path.join(VERIF, "known_findings.json")
EVIDENCE_DIR = os.path.join(VERIF, "evidence")

TRUSTED_BASE = [
    "CPython semantics of the interpreted statement forms (if/while/for/try/with/return/raise)",
    "anyio memory object streams are FIFO; anyio.fail_after raises builtin TimeoutError at the with-exit only",
    "pydantic v2 dispatches model_post_init and decorator validators and never __post_init__",
    "stdlib json.dumps without indent and orjson.dumps without OPT_INDENT_2/OPT_APPEND_NEWLINE emit no raw LF",
    "may-raise allowlist: logging/traceback calls, isinstance/hasattr/len, 3-argument getattr, str()/repr() of a caught exception or scalar, str methods on values that are str by construction, zero-argument set/is_set/done/cancel of events, futures and tasks, cancel-scope constructors",
]


class Abort(Exception):
    """Stop analysing: a finding exists and a later anchor is missing."""


@dataclass
class Obligation:
    rule: str
    key: str
    ok: bool
    where: str = ""
    detail: str = ""


@dataclass
class Report:
    prop: str
    tier: str = "quick"
    obligations: List[Obligation] = field(default_factory=list)
    samples: List[Any] = field(default_factory=list)
    functions: Set[str] = field(default_factory=set)
    paths: int = 0
    call_sites: int = 0
    notes: List[str] = field(default_factory=list)
    extra: Dict[str, Any] = field(default_factory=dict)
    assumptions: List[str] = field(default_factory=list)
    rules: Dict[str, str] = field(default_factory=dict)
    instances: int = 0
    min_obs: Dict[str, int] = field(default_factory=dict)
    _seen: Set = field(default_factory=set)

    # ------------------------------------------------------------------ recording
    def rule(self, rid: str, text: str, min_obs: int = 1) -> None:
        self.rules[rid] = text
        self.min_obs[rid] = min_obs

    def check_nonvacuous(self) -> None:
        """Every declared rule must have matched at least `min_obs` constructs."""
        if self.findings():
            return
        for rid, need in self.min_obs.items():
            got = len({o.key for o in self.obligations if o.rule == rid})
            if got < need:
                raise AnalysisError(f"rule {rid} matched {got} construct(s), fewer than the {need} confirmed by hand (vacuous rule)")

    def ob(self, rule: str, key: str, ok: bool, where: str = "", detail: str = "", sample: Any = None) -> bool:
        sig = (rule, key, bool(ok))
        self.instances += 1
        if sig in self._seen:
            return bool(ok)
        self._seen.add(sig)
        self.obligations.append(Obligation(rule, key, bool(ok), where, detail))
        if sample is not None and len(self.samples) < 60:
            self.samples.append(sample)
        elif ok and len(self.samples) < 25:
            self.samples.append(f"{rule} {key}: ok" + (f" — {detail}" if detail else ""))
        return bool(ok)

    def need(self, cond: Any, what: str) -> None:
        """Non-vacuity / anchor check: failing it makes the run undecided (exit 2)."""
        if not cond:
            # only a finding that is not already on the known list pre-empts the missing anchor: with nothing but known
            # findings so far, stopping here would pass the rest of the rules unread
            if self.findings() and classify(self)[1]:
                # an obligation has already failed at a named construct: report that instead of
                # an undecided run (the missing anchor is most likely a consequence of it)
                raise Abort(what)
            raise AnalysisError(what)

    def fn(self, *quals: str) -> None:
        self.functions.update(quals)

    def sample(self, s: Any) -> None:
        if len(self.samples) < 60:
            self.samples.append(s)

    # ------------------------------------------------------------------ results
    def findings(self) -> List[Obligation]:
        seen = set()
        out = []
        for o in self.obligations:
            if not o.ok and (o.rule, o.key) not in seen:
                seen.add((o.rule, o.key))
                out.append(o)
        return out

    def finding_keys(self) -> Set[str]:
        return {f"{o.rule}|{o.key}" for o in self.findings()}


def load_known() -> List[Dict[str, Any]]:
    if not os.path.exists(KNOWN_FILE):
        return []
    with open(KNOWN_FILE) as fh:
        return json.load(fh).get("findings", [])


def classify(rep: Report, known: Optional[List[Dict[str, Any]]] = None):
    """Split findings into (known, new)."""
    known = load_known() if known is None else known
    table = {(k["property"], k["rule"], k["key"]): k for k in known if k.get("status") == "known"}
    kn, new = [], []
    renames = getattr(rep, "renamed_units", {}) or {}

    def canonical(key: str) -> str:
        # a known finding is keyed by the construct; if the unit it names was merely renamed (recognised by its
        # substance, sa/inline.py) the finding is still the same one
        for new_name, old_name in renames.items():
            key = re.sub(rf"(?<![\w]){re.escape(new_name)}(?![\w])", old_name, key)
        return key

    for o in rep.findings():
        k = (rep.prop, o.rule, o.key)
        if k not in table:
            k = (rep.prop, o.rule, canonical(o.key))
        if k in table:
            kn.append((o, table[k]))
        else:
            new.append(o)
    return kn, new


def write_evidence(rep: Report, project: Project, wall: float, known_list, new_list, error: Optional[str] = None) -> str:
    os.makedirs(EVIDENCE_DIR, exist_ok=True)
    path = os.path.join(EVIDENCE_DIR, f"{rep.prop}.json")
    total = len(rep.obligations)
    distinct = len({(o.rule, o.key) for o in rep.obligations})
    discharged = sum(1 for o in rep.obligations if o.ok)
    per_rule: Dict[str, Dict[str, int]] = {}
    for o in rep.obligations:
        d = per_rule.setdefault(o.rule, {"obligations": 0, "discharged": 0})
        d["obligations"] += 1
        d["discharged"] += 1 if o.ok else 0
    seed = int(os.environ.get("VERIF_SEED", "0") or 0)
    cov: Dict[str, Any] = {
        "explanation": (
            "Static analysis of /repo/src/chuk_mcp as on disk at the start of this run (ast, syntax-directed abstract "
            "interpretation with path literals/events, def-use terms, constant folding, model table"
            + (", mypy facts" if rep.extra.get("mypy") else "")
            + "). Nothing from the repository was imported or executed. Each obligation is one rule instance at one "
            "named construct; see `rules` for what each rule demands and `samples` for instances."
        ),
        "evaluations": max(total, 1) if total else 0,
        "distinct_nontrivial": distinct,
        "rule": "one evaluation = one rule instance (rule id + function + normalised construct) whose precondition matched "
        "in the current source; distinct = distinct (rule, key) pairs; obligations that matched no construct are not counted",
        "obligations": total,
        "discharged": discharged,
        "rule_instances_evaluated": rep.instances,
        "per_rule": per_rule,
        "rules": rep.rules,
        "functions_analysed": sorted(rep.functions),
        "paths_enumerated": rep.paths,
        "call_sites": rep.call_sites,
        "source_digest": project.digest(),
        "samples": rep.samples[:60] or ["<none>"],
        "known_findings": [f"{o.rule}|{o.key}" for o, _k in known_list],
        "new_findings": [f"{o.rule}|{o.key} @ {o.where}: {o.detail}" for o in new_list],
        "trusted_base": TRUSTED_BASE,
        "exhaustive": False,
    }
    cov.update(rep.extra)
    if error:
        cov["analysis_error"] = error
    ev = {
        "property_id": rep.prop,
        "tier": rep.tier if rep.tier in ("quick", "thorough") else "quick",
        "seed": seed,
        "level": "other",
        "coverage": cov,
        "assumptions": TRUSTED_BASE + rep.assumptions + rep.notes,
        "wall_s": round(wall, 3),
        "violations": len(new_list),
    }
    tmp = path + ".tmp"
    with open(tmp, "w") as fh:
        json.dump(ev, fh, indent=1, sort_keys=False)
        fh.write("\n")
    os.replace(tmp, path)
    return path


def write_replay(rep: Report, o: Obligation, project: Project) -> str:
    d = os.path.join(EVIDENCE_DIR, "replay")
    os.makedirs(d, exist_ok=True)
    h = hashlib.sha256(f"{rep.prop}|{o.rule}|{o.key}".encode()).hexdigest()[:12]
    path = os.path.join(d, f"{rep.prop}-{h}.json")
    with open(path, "w") as fh:
        json.dump(
            {
                "property": rep.prop,
                "rule": o.rule,
                "rule_text": rep.rules.get(o.rule, ""),
                "key": o.key,
                "where": o.where,
                "detail": o.detail,
                "source_digest": project.digest(),
                "replay": f"/venv/bin/python /verif/check.py {rep.prop} --replay {path}",
            },
            fh,
            indent=1,
        )
        fh.write("\n")
    return path
